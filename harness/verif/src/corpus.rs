//! The repository's own test programs (read from the working tree).

use std::path::{Path, PathBuf};
use std::sync::OnceLock;

pub fn repo_root() -> PathBuf {
    PathBuf::from(std::env::var("VERIF_REPO").unwrap_or_else(|_| "/repo".to_string()))
}

pub struct PipelineCase {
    pub name: String,
    pub dir: PathBuf,
    pub source: String,
    pub go: Option<String>,
    pub out: Option<String>,
}

pub fn pipeline_cases() -> &'static Vec<PipelineCase> {
    static C: OnceLock<Vec<PipelineCase>> = OnceLock::new();
    C.get_or_init(|| {
        let mut v = vec![];
        let dir = repo_root().join("crates/compiler/src/tests/pipeline");
        let mut entries: Vec<PathBuf> = std::fs::read_dir(&dir)
            .map(|rd| rd.filter_map(|e| e.ok().map(|e| e.path())).collect())
            .unwrap_or_default();
        entries.sort();
        for d in entries {
            let src = d.join("main.gom");
            if let Ok(source) = std::fs::read_to_string(&src) {
                v.push(PipelineCase {
                    name: d.file_name().unwrap().to_string_lossy().to_string(),
                    source,
                    go: std::fs::read_to_string(d.join("main.gom.go")).ok(),
                    out: std::fs::read_to_string(d.join("main.gom.out")).ok(),
                    dir: d,
                });
            }
        }
        v
    })
}

pub struct ProjectCase {
    pub name: String,
    pub dir: PathBuf,
    /// relative path -> text
    pub files: Vec<(String, String)>,
    pub out: Option<String>,
}

fn collect_gom(root: &Path, dir: &Path, out: &mut Vec<(String, String)>) {
    let mut entries: Vec<PathBuf> = std::fs::read_dir(dir)
        .map(|rd| rd.filter_map(|e| e.ok().map(|e| e.path())).collect())
        .unwrap_or_default();
    entries.sort();
    for p in entries {
        if p.is_dir() {
            collect_gom(root, &p, out);
        } else if p.extension().map_or(false, |e| e == "gom") {
            if let Ok(t) = std::fs::read_to_string(&p) {
                out.push((p.strip_prefix(root).unwrap().to_string_lossy().to_string(), t));
            }
        }
    }
}

pub fn project_cases() -> &'static Vec<ProjectCase> {
    static C: OnceLock<Vec<ProjectCase>> = OnceLock::new();
    C.get_or_init(|| {
        let mut v = vec![];
        let dir = repo_root().join("crates/compiler/src/tests/package");
        let mut entries: Vec<PathBuf> = std::fs::read_dir(&dir)
            .map(|rd| rd.filter_map(|e| e.ok().map(|e| e.path())).collect())
            .unwrap_or_default();
        entries.sort();
        for d in entries {
            if !d.is_dir() {
                continue;
            }
            let mut files = vec![];
            collect_gom(&d, &d, &mut files);
            if files.iter().any(|(p, _)| p == "main.gom") {
                v.push(ProjectCase {
                    name: d.file_name().unwrap().to_string_lossy().to_string(),
                    out: std::fs::read_to_string(d.join("main.gom.out")).ok(),
                    files,
                    dir: d,
                });
            }
        }
        v
    })
}

/// all goml source texts of the corpus (mutation seeds)
pub fn sources() -> &'static Vec<String> {
    static C: OnceLock<Vec<String>> = OnceLock::new();
    C.get_or_init(|| {
        let mut v: Vec<String> = pipeline_cases().iter().map(|c| c.source.clone()).collect();
        for p in project_cases() {
            for (_, t) in &p.files {
                v.push(t.clone());
            }
        }
        if v.is_empty() {
            v.push("fn main() { () }\n".to_string());
        }
        v
    })
}
