pub mod corpus;
pub mod driver;
pub mod props;
pub mod sandbox;
pub mod textgen;
pub mod util;
