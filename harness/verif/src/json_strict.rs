//! A strict RFC 8259 JSON parser (own code, no serde): the judge of what
//! derived `to_json` prints.  It accepts exactly the grammar of the RFC:
//!
//! * one value surrounded by optional whitespace (space, \t, \n, \r), nothing else;
//! * strings: no raw control characters (< U+0020), only the escapes
//!   `\" \\ \/ \b \f \n \r \t \uXXXX` (4 hex digits), valid UTF-8;
//!   a `\uD800..DBFF` must be followed by `\uDC00..DFFF` (a lone surrogate is
//!   reported as `lone-surrogate`: the RFC's grammar allows it but no string
//!   of Unicode scalar values can decode from it);
//! * numbers: `-? (0 | [1-9][0-9]*) (\. [0-9]+)? ([eE] [+-]? [0-9]+)?`;
//! * literals `true`, `false`, `null` only;
//! * no trailing commas, no comments, no duplicate handling (kept, in order).
//!
//! Numbers keep their text; `num_eq_int` / `num_as_f64` compare by value.

#[derive(Clone, Debug, PartialEq)]
pub enum J {
    Null,
    Bool(bool),
    /// the number as written
    Num(String),
    Str(String),
    Arr(Vec<J>),
    /// members in the order written (duplicates kept)
    Obj(Vec<(String, J)>),
}

#[derive(Clone, Debug, PartialEq)]
pub struct JErr {
    /// coarse class, stable: `invalid-escape`, `raw-control`, `bad-unicode-escape`,
    /// `lone-surrogate`, `invalid-utf8`, `unterminated-string`, `bad-number`,
    /// `bad-literal`, `trailing-comma`, `trailing-data`, `empty`, `syntax`, `depth`
    pub class: &'static str,
    pub pos: usize,
    pub msg: String,
}

fn err<T>(class: &'static str, pos: usize, msg: impl Into<String>) -> Result<T, JErr> {
    Err(JErr { class, pos, msg: msg.into() })
}

struct P<'a> {
    b: &'a [u8],
    i: usize,
}

const MAX_DEPTH: usize = 256;

pub fn parse(bytes: &[u8]) -> Result<J, JErr> {
    let mut p = P { b: bytes, i: 0 };
    p.ws();
    if p.i >= p.b.len() {
        return err("empty", p.i, "no value");
    }
    let v = p.value(0)?;
    p.ws();
    if p.i != p.b.len() {
        return err("trailing-data", p.i, format!("unexpected byte 0x{:02x} after the value", p.b[p.i]));
    }
    Ok(v)
}

impl<'a> P<'a> {
    fn ws(&mut self) {
        while self.i < self.b.len() && matches!(self.b[self.i], b' ' | b'\t' | b'\n' | b'\r') {
            self.i += 1;
        }
    }
    fn peek(&self) -> Option<u8> {
        self.b.get(self.i).copied()
    }
    fn value(&mut self, depth: usize) -> Result<J, JErr> {
        if depth > MAX_DEPTH {
            return err("depth", self.i, "nesting too deep");
        }
        match self.peek() {
            None => err("syntax", self.i, "value expected, input ends"),
            Some(b'{') => self.object(depth),
            Some(b'[') => self.array(depth),
            Some(b'"') => Ok(J::Str(self.string()?)),
            Some(b'-') | Some(b'0'..=b'9') => self.number(),
            Some(b't') => self.literal("true", J::Bool(true)),
            Some(b'f') => self.literal("false", J::Bool(false)),
            Some(b'n') => self.literal("null", J::Null),
            Some(c) => {
                if c.is_ascii_alphabetic() || c == b'+' || c == b'.' {
                    // NaN, Infinity, True, +1, .5 ...
                    let class = if c == b'+' || c == b'.' { "bad-number" } else { "bad-literal" };
                    err(class, self.i, format!("unexpected {:?}", c as char))
                } else {
                    err("syntax", self.i, format!("unexpected byte 0x{:02x}", c))
                }
            }
        }
    }
    fn literal(&mut self, word: &str, v: J) -> Result<J, JErr> {
        if self.b[self.i..].starts_with(word.as_bytes()) {
            self.i += word.len();
            // a literal must not run into further letters (e.g. `nullx`, `truefalse` is caught by the caller)
            if let Some(c) = self.peek() {
                if c.is_ascii_alphanumeric() || c == b'_' {
                    return err("bad-literal", self.i, "literal followed by an identifier character");
                }
            }
            Ok(v)
        } else {
            err("bad-literal", self.i, format!("expected {word}"))
        }
    }
    fn number(&mut self) -> Result<J, JErr> {
        let start = self.i;
        if self.peek() == Some(b'-') {
            self.i += 1;
        }
        match self.peek() {
            Some(b'0') => {
                self.i += 1;
                if matches!(self.peek(), Some(b'0'..=b'9')) {
                    return err("bad-number", self.i, "leading zero");
                }
            }
            Some(b'1'..=b'9') => {
                while matches!(self.peek(), Some(b'0'..=b'9')) {
                    self.i += 1;
                }
            }
            _ => return err("bad-number", self.i, "digit expected"),
        }
        if self.peek() == Some(b'.') {
            self.i += 1;
            if !matches!(self.peek(), Some(b'0'..=b'9')) {
                return err("bad-number", self.i, "digit expected after the decimal point");
            }
            while matches!(self.peek(), Some(b'0'..=b'9')) {
                self.i += 1;
            }
        }
        if matches!(self.peek(), Some(b'e') | Some(b'E')) {
            self.i += 1;
            if matches!(self.peek(), Some(b'+') | Some(b'-')) {
                self.i += 1;
            }
            if !matches!(self.peek(), Some(b'0'..=b'9')) {
                return err("bad-number", self.i, "digit expected in the exponent");
            }
            while matches!(self.peek(), Some(b'0'..=b'9')) {
                self.i += 1;
            }
        }
        // a number must end at a delimiter
        if let Some(c) = self.peek() {
            if c.is_ascii_alphanumeric() || c == b'.' || c == b'+' || c == b'-' || c == b'_' {
                return err("bad-number", self.i, format!("number followed by {:?}", c as char));
            }
        }
        Ok(J::Num(String::from_utf8_lossy(&self.b[start..self.i]).to_string()))
    }
    fn hex4(&mut self) -> Result<u32, JErr> {
        if self.i + 4 > self.b.len() {
            return err("bad-unicode-escape", self.i, "\\u needs 4 hex digits");
        }
        let mut v = 0u32;
        for k in 0..4 {
            let c = self.b[self.i + k];
            let d = match c {
                b'0'..=b'9' => c - b'0',
                b'a'..=b'f' => c - b'a' + 10,
                b'A'..=b'F' => c - b'A' + 10,
                _ => return err("bad-unicode-escape", self.i + k, "\\u needs 4 hex digits"),
            };
            v = v * 16 + d as u32;
        }
        self.i += 4;
        Ok(v)
    }
    fn string(&mut self) -> Result<String, JErr> {
        let open = self.i;
        self.i += 1; // opening quote
        let mut out: Vec<u8> = vec![];
        loop {
            let Some(c) = self.peek() else {
                return err("unterminated-string", open, "string does not end");
            };
            match c {
                b'"' => {
                    self.i += 1;
                    break;
                }
                0x00..=0x1f => {
                    return err("raw-control", self.i, format!("raw control character 0x{:02x} in a string", c));
                }
                b'\\' => {
                    let at = self.i;
                    self.i += 1;
                    let Some(e) = self.peek() else {
                        return err("unterminated-string", open, "string ends in a backslash");
                    };
                    self.i += 1;
                    match e {
                        b'"' => out.push(b'"'),
                        b'\\' => out.push(b'\\'),
                        b'/' => out.push(b'/'),
                        b'b' => out.push(8),
                        b'f' => out.push(12),
                        b'n' => out.push(b'\n'),
                        b'r' => out.push(b'\r'),
                        b't' => out.push(b'\t'),
                        b'u' => {
                            let hi = self.hex4()?;
                            let cp = if (0xD800..=0xDBFF).contains(&hi) {
                                if self.b[self.i..].starts_with(b"\\u") {
                                    let save = self.i;
                                    self.i += 2;
                                    let lo = self.hex4()?;
                                    if (0xDC00..=0xDFFF).contains(&lo) {
                                        0x10000 + ((hi - 0xD800) << 10) + (lo - 0xDC00)
                                    } else {
                                        self.i = save;
                                        return err("lone-surrogate", at, "high surrogate without a low surrogate");
                                    }
                                } else {
                                    return err("lone-surrogate", at, "high surrogate without a low surrogate");
                                }
                            } else if (0xDC00..=0xDFFF).contains(&hi) {
                                return err("lone-surrogate", at, "low surrogate without a high surrogate");
                            } else {
                                hi
                            };
                            let ch = char::from_u32(cp).unwrap_or('\u{fffd}');
                            let mut buf = [0u8; 4];
                            out.extend_from_slice(ch.encode_utf8(&mut buf).as_bytes());
                        }
                        other => {
                            return err(
                                "invalid-escape",
                                at,
                                format!("\\{} is not a JSON escape", (other as char).escape_default()),
                            );
                        }
                    }
                }
                _ => {
                    out.push(c);
                    self.i += 1;
                }
            }
        }
        match String::from_utf8(out) {
            Ok(s) => Ok(s),
            Err(e) => err("invalid-utf8", open + 1 + e.utf8_error().valid_up_to(), "string is not valid UTF-8"),
        }
    }
    fn array(&mut self, depth: usize) -> Result<J, JErr> {
        self.i += 1;
        let mut items = vec![];
        self.ws();
        if self.peek() == Some(b']') {
            self.i += 1;
            return Ok(J::Arr(items));
        }
        loop {
            self.ws();
            if self.peek() == Some(b']') {
                return err("trailing-comma", self.i, "trailing comma in an array");
            }
            items.push(self.value(depth + 1)?);
            self.ws();
            match self.peek() {
                Some(b',') => self.i += 1,
                Some(b']') => {
                    self.i += 1;
                    return Ok(J::Arr(items));
                }
                Some(c) => return err("syntax", self.i, format!("',' or ']' expected, found 0x{:02x}", c)),
                None => return err("syntax", self.i, "array does not end"),
            }
        }
    }
    fn object(&mut self, depth: usize) -> Result<J, JErr> {
        self.i += 1;
        let mut members = vec![];
        self.ws();
        if self.peek() == Some(b'}') {
            self.i += 1;
            return Ok(J::Obj(members));
        }
        loop {
            self.ws();
            match self.peek() {
                Some(b'"') => {}
                Some(b'}') => return err("trailing-comma", self.i, "trailing comma in an object"),
                Some(c) => return err("syntax", self.i, format!("member name expected, found 0x{:02x}", c)),
                None => return err("syntax", self.i, "object does not end"),
            }
            let k = self.string()?;
            self.ws();
            if self.peek() != Some(b':') {
                return err("syntax", self.i, "':' expected after a member name");
            }
            self.i += 1;
            self.ws();
            let v = self.value(depth + 1)?;
            members.push((k, v));
            self.ws();
            match self.peek() {
                Some(b',') => self.i += 1,
                Some(b'}') => {
                    self.i += 1;
                    return Ok(J::Obj(members));
                }
                Some(c) => return err("syntax", self.i, format!("',' or '}}' expected, found 0x{:02x}", c)),
                None => return err("syntax", self.i, "object does not end"),
            }
        }
    }
}

/// canonical form of a JSON number / decimal integer: (negative, significant
/// digits without leading or trailing zeros, power of ten); zero is (false,"",0)
fn canon(text: &str) -> Option<(bool, String, i64)> {
    let (neg, rest) = match text.strip_prefix('-') {
        Some(r) => (true, r),
        None => (false, text),
    };
    let (mant, exp) = match rest.find(['e', 'E']) {
        Some(p) => (&rest[..p], rest[p + 1..].parse::<i64>().ok()?),
        None => (rest, 0),
    };
    let (int, frac) = match mant.find('.') {
        Some(p) => (&mant[..p], &mant[p + 1..]),
        None => (mant, ""),
    };
    if int.is_empty() || !int.bytes().all(|c| c.is_ascii_digit()) || !frac.bytes().all(|c| c.is_ascii_digit()) {
        return None;
    }
    let mut digits = format!("{int}{frac}");
    let mut e = exp - frac.len() as i64;
    while digits.ends_with('0') {
        digits.pop();
        e += 1;
    }
    let digits = digits.trim_start_matches('0').to_string();
    if digits.is_empty() {
        return Some((false, String::new(), 0));
    }
    Some((neg, digits, e))
}

/// does the JSON number `num` denote the integer written in decimal as `int`?
pub fn num_eq_int(num: &str, int: &str) -> bool {
    match (canon(num), canon(int)) {
        (Some(a), Some(b)) => a == b,
        _ => false,
    }
}

/// the JSON number read as the nearest f64
pub fn num_as_f64(num: &str) -> Option<f64> {
    num.parse::<f64>().ok()
}

#[cfg(test)]
mod tests {
    use super::*;
    fn class(s: &str) -> &'static str {
        match parse(s.as_bytes()) {
            Ok(_) => "ok",
            Err(e) => e.class,
        }
    }
    #[test]
    fn accepts() {
        for s in [
            "null", " true ", "[]", "{}", "[1,2]", "{\"a\":{\"b\":[false,null]}}", "\"\\u00e9\\ud83d\\ude00\\/\"",
            "-0", "0.5", "1e10", "1E-2", "-12.50e+3", "\"\u{7f}\"", "\"é中😀\"",
        ] {
            assert_eq!(class(s), "ok", "{s}");
        }
    }
    #[test]
    fn rejects() {
        assert_eq!(class("[1,]"), "trailing-comma");
        assert_eq!(class("{\"a\":1,}"), "trailing-comma");
        assert_eq!(class("\"\\x7f\""), "invalid-escape");
        assert_eq!(class("\"\\a\""), "invalid-escape");
        assert_eq!(class("\"\\v\""), "invalid-escape");
        assert_eq!(class("\"\\U0001f600\""), "invalid-escape");
        assert_eq!(class("\"\\'\""), "invalid-escape");
        assert_eq!(class("\"a\nb\""), "raw-control");
        assert_eq!(class("\"\\u12g4\""), "bad-unicode-escape");
        assert_eq!(class("\"\\u12\""), "bad-unicode-escape");
        assert_eq!(class("\"\\ud800\""), "lone-surrogate");
        assert_eq!(class("\"\\udc00\""), "lone-surrogate");
        assert_eq!(class("01"), "bad-number");
        assert_eq!(class("-"), "bad-number");
        assert_eq!(class("1."), "bad-number");
        assert_eq!(class(".5"), "bad-number");
        assert_eq!(class("+1"), "bad-number");
        assert_eq!(class("1e"), "bad-number");
        assert_eq!(class("NaN"), "bad-literal");
        assert_eq!(class("True"), "bad-literal");
        assert_eq!(class("nul"), "bad-literal");
        assert_eq!(class("1 2"), "trailing-data");
        assert_eq!(class(""), "empty");
        assert_eq!(class("\"abc"), "unterminated-string");
        assert_eq!(class("{a:1}"), "syntax");
        assert_eq!(class("%!d(float64=1.5)"), "syntax");
        assert_eq!(parse(b"\"\xff\"").unwrap_err().class, "invalid-utf8");
    }
    #[test]
    fn numbers() {
        assert!(num_eq_int("10", "10"));
        assert!(num_eq_int("1e1", "10"));
        assert!(num_eq_int("10.0", "10"));
        assert!(num_eq_int("-0", "0"));
        assert!(num_eq_int("18446744073709551615", "18446744073709551615"));
        assert!(!num_eq_int("18446744073709551616", "18446744073709551615"));
        assert!(!num_eq_int("1.5", "1"));
        assert!(!num_eq_int("-1", "1"));
    }
    #[test]
    fn decode() {
        assert_eq!(parse(b"\"\\ud83d\\ude00\"").unwrap(), J::Str("😀".into()));
        assert_eq!(
            parse(b"{\"a\":[1,\"x\"]}").unwrap(),
            J::Obj(vec![("a".into(), J::Arr(vec![J::Num("1".into()), J::Str("x".into())]))])
        );
    }
}
