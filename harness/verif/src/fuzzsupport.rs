//! Glue for the libFuzzer targets in /verif/fuzz (one process, many inputs).

use crate::behave::{self, Expected, Verdict};
use crate::driver::{self, Ctx, Tier};
use crate::gen::build::{gen_program, Focus, GenCfg};
use crate::gen::render::render;
use crate::goml::{self, CompileRes};
use crate::util::Dec;
use std::sync::OnceLock;

struct Shared {
    ctx: std::sync::Mutex<Ctx>,
    known: Vec<String>,
}

fn shared() -> &'static Shared {
    static S: OnceLock<Shared> = OnceLock::new();
    S.get_or_init(|| {
        crate::sandbox::install_hook();
        let mut ctx = Ctx::new("fuzz", Tier::Thorough, 0);
        ctx.closed_gates = driver::all_closed_gates();
        // strict mode (replay of a saved crash): nothing is tolerated
        let strict = std::env::var("VERIF_FUZZ_STRICT").is_ok();
        let known = if strict {
            vec![]
        } else {
            driver::load_findings()
                .into_iter()
                .filter(|f| f.status == "open")
                .flat_map(|f| f.signatures)
                .collect()
        };
        Shared {
            ctx: std::sync::Mutex::new(ctx),
            known,
        }
    })
}

/// the scratch context (libFuzzer runs single-threaded)
pub fn ctx() -> &'static mut Ctx {
    // leak a guard-free reference: the fuzz targets are single-threaded
    let s = shared();
    let p: *mut Ctx = &mut *s.ctx.lock().unwrap();
    unsafe { &mut *p }
}

pub fn is_known(sig: &str) -> bool {
    shared().known.iter().any(|p| driver::sig_matches(p, sig))
}

pub fn nesting_depth(text: &str) -> usize {
    let mut d = 0usize;
    let mut max = 0usize;
    let mut run = 0usize;
    for c in text.chars() {
        match c {
            '(' | '[' | '{' => {
                d += 1;
                max = max.max(d);
            }
            ')' | ']' | '}' => d = d.saturating_sub(1),
            '-' | '!' | '|' => {
                run += 1;
                max = max.max(run);
                continue;
            }
            _ => {}
        }
        run = 0;
    }
    max
}

/// generated program: Some((signature, detail)) on a violation of C02 / C01
pub fn prog_oracle(data: &[u8]) -> Option<(String, String)> {
    let ctx = ctx();
    let mut d = Dec::new(data);
    let mut cfg = GenCfg::full(80);
    cfg.focus = [Focus::None, Focus::Generics, Focus::Closures, Focus::Effects, Focus::Scopes, Focus::Traits]
        [data.first().copied().unwrap_or(0) as usize % 6];
    cfg.traits = cfg.focus == Focus::Traits || data.get(1).copied().unwrap_or(0) % 3 == 0;
    let p = gen_program(&mut d, cfg, ctx);
    let text = render(&p);
    match goml::compile_single(ctx, &text) {
        CompileRes::Ok(_, go) => {
            let expected = Expected::of(&p);
            match behave::compare_expected(&expected, &go, "C02") {
                Verdict::Fail(sig, detail) => {
                    let sig = if sig.starts_with("C02|go-rejected") { sig } else { sig.replacen("C02", "C01", 1) };
                    Some((sig, format!("{detail}\n--- goml source\n{text}")))
                }
                _ => None,
            }
        }
        CompileRes::Panic(pn) => Some((
            format!("C04|panic|{}", pn.signature()),
            format!("panic at {}:{}: {}\n--- goml source\n{text}", pn.file, pn.line, pn.message),
        )),
        CompileRes::Err(_) => None,
    }
}
