//! Glue to the compiler under test (path dependency on /repo/crates/*).

use crate::driver::Ctx;
use crate::sandbox::{self, PanicInfo};
use compiler::pipeline::pipeline::{Compilation, CompilationError};
use diagnostics::{Diagnostics, Severity};
use std::path::PathBuf;

pub const PRETTY_WIDTH: usize = 120;

pub enum CompileRes {
    Ok(Box<Compilation>, String),
    Err(CompilationError),
    Panic(PanicInfo),
}

impl CompileRes {
    pub fn stage(&self) -> &'static str {
        match self {
            CompileRes::Ok(..) => "ok",
            CompileRes::Err(CompilationError::Parser { .. }) => "parser",
            CompileRes::Err(CompilationError::Lower { .. }) => "lower",
            CompileRes::Err(CompilationError::Typer { .. }) => "typer",
            CompileRes::Err(CompilationError::Compile { .. }) => "compile",
            CompileRes::Panic(_) => "panic",
        }
    }
    pub fn reached_typer(&self) -> bool {
        matches!(self.stage(), "ok" | "typer" | "compile")
    }
}

pub fn error_stage(e: &CompilationError) -> &'static str {
    match e {
        CompilationError::Parser { .. } => "parser",
        CompilationError::Lower { .. } => "lower",
        CompilationError::Typer { .. } => "typer",
        CompilationError::Compile { .. } => "compile",
    }
}

pub fn diag_messages(d: &Diagnostics) -> Vec<String> {
    d.iter()
        .map(|x| {
            format!(
                "[{}:{}] {}",
                x.stage().as_str(),
                if x.severity() == Severity::Error { "error" } else { "warning" },
                x.message()
            )
        })
        .collect()
}

/// what `goml run` does up to the Go text, on the CLI's stack size
pub fn compile_at(path: PathBuf, src: &str) -> CompileRes {
    let r = sandbox::cli(|| {
        match compiler::pipeline::pipeline::compile(&path, src) {
            Ok(c) => {
                let text = c.go.to_pretty(&c.goenv, PRETTY_WIDTH);
                Ok((Box::new(c), text))
            }
            Err(e) => Err(e),
        }
    });
    match r {
        Ok(Ok((c, t))) => CompileRes::Ok(c, t),
        Ok(Err(e)) => CompileRes::Err(e),
        Err(p) => CompileRes::Panic(p),
    }
}

/// single-file program: compiled as `<empty dir>/main.gom` (never written)
pub fn compile_single(ctx: &Ctx, src: &str) -> CompileRes {
    compile_at(ctx.scratch.empty_dir().join("main.gom"), src)
}

/// multi-file project: files are (relative path, text); the entry is main.gom
pub fn compile_project(ctx: &mut Ctx, files: &[(String, String)]) -> CompileRes {
    if files.len() == 1 && files[0].0 == "main.gom" {
        return compile_single(ctx, &files[0].1);
    }
    let dir = ctx.scratch.fresh_dir();
    sandbox::materialise(&dir, files);
    let src = files
        .iter()
        .find(|(p, _)| p == "main.gom")
        .map(|(_, t)| t.clone())
        .unwrap_or_default();
    let r = compile_at(dir.join("main.gom"), &src);
    ctx.scratch.remove(&dir);
    r
}

pub fn files_from_json(v: &serde_json::Value) -> Vec<(String, String)> {
    let mut out = vec![];
    if let Some(m) = v.as_object() {
        for (k, t) in m {
            out.push((k.clone(), t.as_str().unwrap_or("").to_string()));
        }
    }
    out
}

pub fn files_to_json(files: &[(String, String)]) -> serde_json::Value {
    let mut m = serde_json::Map::new();
    for (k, t) in files {
        m.insert(k.clone(), serde_json::Value::String(t.clone()));
    }
    serde_json::Value::Object(m)
}
