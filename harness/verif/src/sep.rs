//! Separate compilation helpers: check/build every package of a materialised
//! project exactly as the CLI does (artifacts written to and re-read from JSON
//! files), then link.

use crate::sandbox::{self, PanicInfo};
use compiler::artifact::{CoreUnit, InterfaceUnit};
use compiler::pipeline::pipeline::CompilationError;
use compiler::pipeline::{packages, pipeline, separate};
use std::path::{Path, PathBuf};

#[derive(Debug)]
pub enum SepErr {
    Compile(String, CompilationError),
    Panic(String, PanicInfo),
    Io(String),
}

impl SepErr {
    pub fn describe(&self) -> String {
        match self {
            SepErr::Compile(at, e) => format!(
                "{at}: {} error: {}",
                crate::goml::error_stage(e),
                crate::goml::diag_messages(e.diagnostics()).join("; ")
            ),
            SepErr::Panic(at, p) => format!("{at}: PANIC {} at {}:{}", p.message, p.file, p.line),
            SepErr::Io(m) => format!("io: {m}"),
        }
    }
    pub fn is_panic(&self) -> bool {
        matches!(self, SepErr::Panic(..))
    }
}

/// how a driver hands a package's files to check/build: 0 = sorted by name (what a
/// shell glob gives), 1 = the reverse (stands for any other enumeration order)
pub static FILE_ORDER: std::sync::atomic::AtomicU8 = std::sync::atomic::AtomicU8::new(0);

pub fn gom_files_in_dir(dir: &Path) -> Vec<PathBuf> {
    let mut files = gom_files_in_dir_sorted(dir);
    if FILE_ORDER.load(std::sync::atomic::Ordering::Relaxed) == 1 {
        files.reverse();
    }
    files
}

fn gom_files_in_dir_sorted(dir: &Path) -> Vec<PathBuf> {
    let mut files: Vec<PathBuf> = std::fs::read_dir(dir)
        .map(|rd| {
            rd.filter_map(|e| e.ok().map(|e| e.path()))
                .filter(|p| p.extension().map_or(false, |e| e == "gom"))
                .collect()
        })
        .unwrap_or_default();
    files.sort();
    files
}

pub struct Discovered {
    pub order: Vec<String>,
    pub dirs: Vec<(String, PathBuf)>,
    pub imports: Vec<(String, Vec<String>)>,
}

/// package graph and a topological order, as `goml` itself discovers them
pub fn discover(root: &Path) -> Result<Discovered, SepErr> {
    let main_path = root.join("main.gom");
    let src = std::fs::read_to_string(&main_path).map_err(|e| SepErr::Io(e.to_string()))?;
    let r = sandbox::cli(|| {
        let entry = pipeline::parse_ast_file(&main_path, &src)?;
        let graph = packages::discover_packages(root, Some(&main_path), Some(entry))?;
        let order = packages::topo_sort_packages(&graph)?;
        let mut dirs = vec![];
        let mut imports = vec![];
        for p in &order {
            if let Some(d) = graph.package_dirs.get(p) {
                dirs.push((p.clone(), d.clone()));
            }
            if let Some(u) = graph.packages.get(p) {
                let mut i: Vec<String> = u.imports.iter().cloned().collect();
                i.sort();
                imports.push((p.clone(), i));
            }
        }
        Ok::<_, CompilationError>(Discovered { order, dirs, imports })
    });
    match r {
        Ok(Ok(d)) => Ok(d),
        Ok(Err(e)) => Err(SepErr::Compile("discover".into(), e)),
        Err(p) => Err(SepErr::Panic("discover".into(), p)),
    }
}

pub fn build_one(pkg: &str, pkg_dir: &Path, art_dir: &Path) -> Result<CoreUnit, SepErr> {
    let inputs = gom_files_in_dir(pkg_dir);
    let r = sandbox::cli(|| {
        separate::build_package(separate::PackageInputs {
            package: pkg.to_string(),
            input_files: inputs,
            interface_paths: vec![art_dir.to_path_buf()],
        })
    });
    match r {
        Ok(Ok(u)) => Ok(u),
        Ok(Err(e)) => Err(SepErr::Compile(format!("build {pkg}"), e)),
        Err(p) => Err(SepErr::Panic(format!("build {pkg}"), p)),
    }
}

pub fn check_one(pkg: &str, pkg_dir: &Path, art_dir: &Path) -> Result<InterfaceUnit, SepErr> {
    let inputs = gom_files_in_dir(pkg_dir);
    let r = sandbox::cli(|| {
        separate::check_package(separate::PackageInputs {
            package: pkg.to_string(),
            input_files: inputs,
            interface_paths: vec![art_dir.to_path_buf()],
        })
    });
    match r {
        Ok(Ok(u)) => Ok(u),
        Ok(Err(e)) => Err(SepErr::Compile(format!("check {pkg}"), e)),
        Err(p) => Err(SepErr::Panic(format!("check {pkg}"), p)),
    }
}

/// write `<pkg>.interface` and `<pkg>.core` the way `goml build` does
pub fn write_unit(art_dir: &Path, unit: &CoreUnit) -> Result<(), SepErr> {
    let _ = std::fs::create_dir_all(art_dir);
    let ij = serde_json::to_string_pretty(&unit.interface).map_err(|e| SepErr::Io(e.to_string()))?;
    let cj = serde_json::to_string_pretty(unit).map_err(|e| SepErr::Io(e.to_string()))?;
    std::fs::write(art_dir.join(format!("{}.interface", unit.package)), ij)
        .map_err(|e| SepErr::Io(e.to_string()))?;
    std::fs::write(art_dir.join(format!("{}.core", unit.package)), cj).map_err(|e| SepErr::Io(e.to_string()))?;
    Ok(())
}

pub fn write_interface(art_dir: &Path, unit: &InterfaceUnit) -> Result<(), SepErr> {
    let _ = std::fs::create_dir_all(art_dir);
    let ij = serde_json::to_string_pretty(unit).map_err(|e| SepErr::Io(e.to_string()))?;
    std::fs::write(art_dir.join(format!("{}.interface", unit.package)), ij)
        .map_err(|e| SepErr::Io(e.to_string()))
}

/// build every package in `order` into `art_dir`
pub fn build_all(d: &Discovered, order: &[String], art_dir: &Path) -> Result<(), SepErr> {
    for pkg in order {
        let dir = d
            .dirs
            .iter()
            .find(|(p, _)| p == pkg)
            .map(|(_, d)| d.clone())
            .ok_or_else(|| SepErr::Io(format!("no dir for {pkg}")))?;
        let unit = build_one(pkg, &dir, art_dir)?;
        write_unit(art_dir, &unit)?;
    }
    Ok(())
}

pub fn read_core_file(path: &Path) -> Result<CoreUnit, SepErr> {
    let r = sandbox::cli(|| separate::read_core(path));
    match r {
        Ok(Ok(u)) => Ok(u),
        Ok(Err(e)) => Err(SepErr::Compile(format!("read_core {}", path.display()), e)),
        Err(p) => Err(SepErr::Panic(format!("read_core {}", path.display()), p)),
    }
}

pub struct Linked {
    pub go_text: String,
    pub out: Box<separate::LinkOutput>,
}

pub fn link(cores: Vec<CoreUnit>) -> Result<Linked, SepErr> {
    let r = sandbox::cli(|| {
        separate::link_cores(cores).map(|l| {
            let t = l.go.to_pretty(&l.goenv, crate::goml::PRETTY_WIDTH);
            (t, Box::new(l))
        })
    });
    match r {
        Ok(Ok((t, l))) => Ok(Linked { go_text: t, out: l }),
        Ok(Err(e)) => Err(SepErr::Compile("link".into(), e)),
        Err(p) => Err(SepErr::Panic("link".into(), p)),
    }
}

pub fn link_dir(art_dir: &Path, pkgs: &[String]) -> Result<Linked, SepErr> {
    let mut cores = vec![];
    for p in pkgs {
        cores.push(read_core_file(&art_dir.join(format!("{p}.core")))?);
    }
    link(cores)
}
