//! Single-leaf mutations of JSON artifacts.

use crate::util::Dec;
use serde_json::Value;

#[derive(Clone, Debug)]
pub enum Step {
    Key(String),
    Idx(usize),
}

pub fn path_string(p: &[Step]) -> String {
    let mut s = String::new();
    for st in p {
        match st {
            Step::Key(k) => {
                s.push('/');
                s.push_str(k)
            }
            Step::Idx(i) => {
                s.push('/');
                s.push_str(&i.to_string())
            }
        }
    }
    s
}

/// all paths to scalar leaves and to containers (containers can be emptied / replaced)
pub fn paths(v: &Value) -> Vec<Vec<Step>> {
    fn go(v: &Value, cur: &mut Vec<Step>, out: &mut Vec<Vec<Step>>) {
        out.push(cur.clone());
        match v {
            Value::Object(m) => {
                for (k, x) in m {
                    cur.push(Step::Key(k.clone()));
                    go(x, cur, out);
                    cur.pop();
                }
            }
            Value::Array(a) => {
                for (i, x) in a.iter().enumerate() {
                    cur.push(Step::Idx(i));
                    go(x, cur, out);
                    cur.pop();
                }
            }
            _ => {}
        }
    }
    let mut out = vec![];
    go(v, &mut vec![], &mut out);
    out
}

pub fn get_mut<'a>(v: &'a mut Value, p: &[Step]) -> Option<&'a mut Value> {
    let mut cur = v;
    for st in p {
        cur = match st {
            Step::Key(k) => cur.get_mut(k.as_str())?,
            Step::Idx(i) => cur.get_mut(*i)?,
        };
    }
    Some(cur)
}

/// mutate the value at a path in a value-visible way; returns a description
pub fn mutate_at(root: &mut Value, p: &[Step], d: &mut Dec) -> String {
    let desc;
    if let Some(t) = get_mut(root, p) {
        let old = t.clone();
        match &old {
            Value::Null => {
                *t = Value::from(0);
                desc = "null->0".to_string();
            }
            Value::Bool(b) => {
                *t = Value::Bool(!b);
                desc = "flip bool".to_string();
            }
            Value::Number(n) => {
                let choice = d.below(5);
                let nv: Value = if let Some(u) = n.as_u64() {
                    match choice {
                        0 => Value::from(u.wrapping_add(1)),
                        1 => Value::from(u.wrapping_sub(1) as i64),
                        2 => Value::from(u64::MAX),
                        3 => Value::from(-1),
                        _ => Value::from(format!("{u}")),
                    }
                } else if let Some(i) = n.as_i64() {
                    Value::from(i.wrapping_add(1))
                } else {
                    Value::from(n.as_f64().unwrap_or(0.0) + 1.5)
                };
                desc = format!("number {n} -> {nv}");
                *t = nv;
            }
            Value::String(s) => {
                let nv = match d.below(8) {
                    // long values: 1..200 ASCII characters, then a 2- / 3- / 4-byte character, then a tail
                    // (whoever shortens such a value for a message must cut on a character boundary)
                    6 => {
                        let n = [1usize, 15, 31, 62, 63, 64, 127, 200][d.below(8)];
                        let wide = ["é", "✓", "𝄞"][d.below(3)];
                        format!("{}{}{}", "L".repeat(n), wide, "tail")
                    }
                    7 => format!("{s}{}", "é".repeat(1 + d.below(80))),
                    0 => format!("{s}x"),
                    1 => {
                        let mut c: Vec<char> = s.chars().collect();
                        c.pop();
                        c.into_iter().collect()
                    }
                    2 => String::new(),
                    3 => s.to_uppercase(),
                    4 => "Main".to_string(),
                    _ => {
                        let mut c: Vec<char> = s.chars().collect();
                        if !c.is_empty() {
                            let i = d.below(c.len());
                            c[i] = if c[i] == 'a' { 'b' } else { 'a' };
                        }
                        c.into_iter().collect()
                    }
                };
                desc = format!("string {:?} -> {:?}", s, nv);
                *t = Value::String(nv);
            }
            Value::Array(a) => {
                let mut na = a.clone();
                match d.below(4) {
                    0 => {
                        na.pop();
                        desc = "array: drop last".to_string();
                    }
                    1 => {
                        if let Some(x) = na.first().cloned() {
                            na.push(x);
                        } else {
                            na.push(Value::Null);
                        }
                        desc = "array: duplicate first / push null".to_string();
                    }
                    2 => {
                        na.reverse();
                        desc = "array: reverse".to_string();
                    }
                    _ => {
                        na.clear();
                        desc = "array: clear".to_string();
                    }
                }
                *t = Value::Array(na);
            }
            Value::Object(m) => {
                let mut nm = m.clone();
                let keys: Vec<String> = nm.keys().cloned().collect();
                if keys.is_empty() || d.below(3) == 0 {
                    nm.insert("extra_key".into(), Value::from(1));
                    desc = "object: add key".to_string();
                } else {
                    let k = &keys[d.below(keys.len())];
                    nm.remove(k);
                    desc = format!("object: remove key {k}");
                }
                *t = Value::Object(nm);
            }
        }
    } else {
        desc = "path not found".to_string();
    }
    desc
}
