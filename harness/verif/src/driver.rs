//! Parent/worker driver shared by all checks.
//!
//! `verif check <ID> --tier quick|thorough` is the parent: it replays the open
//! known findings of the property, forks N worker processes, aggregates their
//! results in a scheduling-independent way, writes the evidence file and
//! decides the exit status.  Workers regenerate their cases from
//! `(VERIF_SEED, property, phase, index)`.

use crate::sandbox::Scratch;
use crate::util::{fnv_str, mix};
use proptest::strategy::{Strategy, ValueTree};
use proptest::test_runner::{Config, RngAlgorithm, TestRng, TestRunner};
use serde_json::{json, Map, Value};
use std::any::Any;
use std::collections::{BTreeMap, HashSet};
use std::io::{BufRead, BufReader, Write};
use std::path::{Path, PathBuf};
use std::process::{Command, Stdio};
use std::sync::atomic::{AtomicBool, Ordering};
use std::sync::{Arc, Mutex};
use std::time::{Duration, Instant};

#[derive(Clone, Copy, PartialEq, Eq, Debug)]
pub enum Tier {
    Quick,
    Thorough,
}

impl Tier {
    pub fn parse(s: &str) -> Tier {
        if s.starts_with('t') || s.starts_with('T') {
            Tier::Thorough
        } else {
            Tier::Quick
        }
    }
    pub fn name(self) -> &'static str {
        match self {
            Tier::Quick => "quick",
            Tier::Thorough => "thorough",
        }
    }
    pub fn pick(self, q: u64, t: u64) -> u64 {
        match self {
            Tier::Quick => q,
            Tier::Thorough => t,
        }
    }
}

#[derive(Clone, Debug)]
pub struct PhaseSpec {
    pub name: &'static str,
    pub cases: u64,
    /// length bound of the choice-byte string; 0 = the phase is driven by the
    /// case index alone (enumeration)
    pub max_bytes: usize,
    /// the phase enumerates a finite space completely
    pub exhaustive: bool,
}

pub struct Case {
    /// replayable description of the inputs (files, ops, positions …)
    pub input: Value,
    /// typed model kept beside it (generated program, expected result …)
    pub extra: Option<Box<dyn Any>>,
}

impl Case {
    pub fn new(input: Value) -> Case {
        Case { input, extra: None }
    }
    pub fn with<T: Any>(input: Value, extra: T) -> Case {
        Case {
            input,
            extra: Some(Box::new(extra)),
        }
    }
    pub fn extra<T: Any>(&self) -> Option<&T> {
        self.extra.as_ref().and_then(|b| b.downcast_ref::<T>())
    }
}

#[derive(Clone, Debug)]
pub enum Outcome {
    Pass,
    Discard(String),
    Fail { sig: String, detail: String },
}

#[derive(Clone, Debug)]
pub struct CaseOut {
    pub outcome: Outcome,
    pub nontrivial: bool,
    /// identity of the case for "distinct" counting
    pub key: u64,
    pub labels: Vec<String>,
}

impl CaseOut {
    pub fn pass(nontrivial: bool, key: u64) -> CaseOut {
        CaseOut {
            outcome: Outcome::Pass,
            nontrivial,
            key,
            labels: vec![],
        }
    }
    pub fn discard(reason: &str) -> CaseOut {
        CaseOut {
            outcome: Outcome::Discard(reason.to_string()),
            nontrivial: false,
            key: 0,
            labels: vec![],
        }
    }
    pub fn fail(sig: String, detail: String, key: u64) -> CaseOut {
        CaseOut {
            outcome: Outcome::Fail { sig, detail },
            nontrivial: true,
            key,
            labels: vec![],
        }
    }
    pub fn labelled(mut self, labels: Vec<String>) -> CaseOut {
        self.labels = labels;
        self
    }
}

pub struct Ctx {
    pub scratch: Scratch,
    pub tier: Tier,
    pub seed: u64,
    /// gates closed because of open known findings (shape labels that the
    /// generators must not emit)
    pub closed_gates: HashSet<String>,
    pub gate_hits: BTreeMap<String, u64>,
    /// replay mode: run strictly (no tolerance for known signatures inside
    /// the check)
    pub strict: bool,
}

impl Ctx {
    pub fn new(tag: &str, tier: Tier, seed: u64) -> Ctx {
        Ctx {
            scratch: Scratch::new(tag),
            tier,
            seed,
            closed_gates: HashSet::new(),
            gate_hits: BTreeMap::new(),
            strict: false,
        }
    }
    /// Generators call this before emitting a gated shape. Returns true when
    /// the shape must be avoided (and counts the exclusion).
    pub fn gated(&mut self, gate: &str) -> bool {
        if self.closed_gates.contains(gate) {
            *self.gate_hits.entry(gate.to_string()).or_insert(0) += 1;
            true
        } else {
            false
        }
    }
}

pub trait Check: Sync {
    fn id(&self) -> &'static str;
    fn phases(&self, tier: Tier) -> Vec<PhaseSpec>;
    fn make(&self, phase: &str, index: u64, bytes: &[u8], ctx: &mut Ctx) -> Case;
    fn judge(&self, phase: &str, case: &Case, ctx: &mut Ctx) -> CaseOut;
    /// how cases are generated and what makes one non-trivial / distinct
    fn rule(&self) -> String;
    fn assumptions(&self) -> Vec<String>;
    /// one-off work in the parent before the workers start (calibration …);
    /// Err = the judge cannot be trusted => exit 2
    fn setup(&self, _ctx: &mut Ctx) -> Result<Value, String> {
        Ok(Value::Null)
    }
    /// labels that must each have at least one case for the run to count
    fn required_labels(&self, _tier: Tier) -> Vec<&'static str> {
        vec![]
    }
    /// maximum tolerated discard fraction (generator health)
    fn max_discard_fraction(&self) -> f64 {
        0.5
    }
}

// ---------------------------------------------------------------------------
// known findings

#[derive(Clone, Debug)]
pub struct Finding {
    pub id: String,
    pub properties: Vec<String>,
    pub status: String,
    pub gates: Vec<String>,
    pub signatures: Vec<String>,
    pub replay: Option<String>,
    pub what: String,
}

pub fn verif_root() -> PathBuf {
    if let Ok(p) = std::env::var("VERIF_ROOT") {
        return PathBuf::from(p);
    }
    PathBuf::from("/verif")
}

pub fn load_findings() -> Vec<Finding> {
    let path = verif_root().join("known_findings.json");
    let Ok(text) = std::fs::read_to_string(&path) else {
        return vec![];
    };
    let v: Value = match serde_json::from_str(&text) {
        Ok(v) => v,
        Err(e) => {
            eprintln!("known_findings.json does not parse: {e}");
            std::process::exit(2);
        }
    };
    let strs = |x: &Value| -> Vec<String> {
        x.as_array()
            .map(|a| {
                a.iter()
                    .filter_map(|s| s.as_str().map(|s| s.to_string()))
                    .collect()
            })
            .unwrap_or_default()
    };
    let mut out = vec![];
    for f in v["findings"].as_array().cloned().unwrap_or_default() {
        out.push(Finding {
            id: f["id"].as_str().unwrap_or("?").to_string(),
            properties: strs(&f["properties"]),
            status: f["status"].as_str().unwrap_or("open").to_string(),
            gates: strs(&f["gates"]),
            signatures: strs(&f["signatures"]),
            replay: f["replay"].as_str().map(|s| s.to_string()),
            what: f["what"].as_str().unwrap_or("").to_string(),
        });
    }
    out
}

pub fn sig_matches(pattern: &str, sig: &str) -> bool {
    if let Some(prefix) = pattern.strip_suffix('*') {
        sig.starts_with(prefix)
    } else {
        pattern == sig
    }
}

fn open_for<'a>(findings: &'a [Finding], prop: &str) -> Vec<&'a Finding> {
    findings
        .iter()
        .filter(|f| f.status == "open" && f.properties.iter().any(|p| p == prop))
        .collect()
}

/// gates are closed by ANY open finding (whatever property it is filed under):
/// a shape that is known to be broken must not make unrelated checks fail.
fn closed_gates(findings: &[Finding]) -> HashSet<String> {
    findings
        .iter()
        .filter(|f| f.status == "open")
        .flat_map(|f| f.gates.iter().cloned())
        .collect()
}

pub fn all_closed_gates() -> HashSet<String> {
    closed_gates(&load_findings())
}

// ---------------------------------------------------------------------------
// case bytes

fn case_rng(seed: u64, id: &str, phase: &str, index: u64) -> TestRng {
    let s = mix(mix(seed, fnv_str(id)), mix(fnv_str(phase), index));
    let mut bytes = [0u8; 32];
    let mut x = s;
    for chunk in bytes.chunks_mut(8) {
        x = crate::util::splitmix(x);
        chunk.copy_from_slice(&x.to_le_bytes());
    }
    TestRng::from_seed(RngAlgorithm::ChaCha, &bytes)
}

fn runner_for(seed: u64, id: &str, phase: &str, index: u64) -> TestRunner {
    let config = Config {
        failure_persistence: None,
        ..Config::default()
    };
    TestRunner::new_with_rng(config, case_rng(seed, id, phase, index))
}

// ---------------------------------------------------------------------------
// worker

struct Stats {
    evals: u64,
    pass: u64,
    nontrivial: u64,
    fails: u64,
    discards: BTreeMap<String, u64>,
    labels: BTreeMap<String, u64>,
    keys: Vec<u64>,
}

impl Stats {
    fn new() -> Stats {
        Stats {
            evals: 0,
            pass: 0,
            nontrivial: 0,
            fails: 0,
            discards: BTreeMap::new(),
            labels: BTreeMap::new(),
            keys: vec![],
        }
    }
    fn flush(&mut self, phase: &str, keyfile: &mut Option<std::fs::File>, gates: &mut BTreeMap<String, u64>) {
        if self.evals == 0 {
            return;
        }
        let line = json!({"t":"stats","phase":phase,"evals":self.evals,"pass":self.pass,
            "nontrivial":self.nontrivial,"fails":self.fails,
            "discards":self.discards,"labels":self.labels,"gates":gates});
        println!("{}", line);
        if let Some(f) = keyfile {
            let mut buf = Vec::with_capacity(self.keys.len() * 8);
            for k in &self.keys {
                buf.extend_from_slice(&k.to_le_bytes());
            }
            let _ = f.write_all(&buf);
        }
        *self = Stats::new();
        gates.clear();
    }
}

fn write_status(f: &std::fs::File, phase_idx: u64, index: u64) {
    use std::os::unix::fs::FileExt;
    let mut buf = [0u8; 16];
    buf[..8].copy_from_slice(&phase_idx.to_le_bytes());
    buf[8..].copy_from_slice(&index.to_le_bytes());
    let _ = f.write_all_at(&buf, 0);
}

fn read_status(p: &Path) -> Option<(u64, u64)> {
    let b = std::fs::read(p).ok()?;
    if b.len() < 16 {
        return None;
    }
    Some((
        u64::from_le_bytes(b[..8].try_into().ok()?),
        u64::from_le_bytes(b[8..16].try_into().ok()?),
    ))
}

pub struct WorkerArgs {
    pub tier: Tier,
    pub seed: u64,
    pub wid: u64,
    pub n: u64,
    pub start_phase: u64,
    pub start_index: u64,
    pub dir: PathBuf,
}

pub fn set_limits() {
    unsafe {
        let gib: u64 = std::env::var("VERIF_WORKER_MEM_GIB")
            .ok()
            .and_then(|s| s.parse().ok())
            .unwrap_or(6);
        let lim = libc::rlimit {
            rlim_cur: gib << 30,
            rlim_max: gib << 30,
        };
        libc::setrlimit(libc::RLIMIT_AS, &lim);
        // no core dumps
        let z = libc::rlimit {
            rlim_cur: 0,
            rlim_max: 0,
        };
        libc::setrlimit(libc::RLIMIT_CORE, &z);
    }
}

fn max_shrink_iters() -> u32 {
    std::env::var("VERIF_MAX_SHRINK").ok().and_then(|s| s.parse().ok()).unwrap_or(300)
}

pub fn worker_main(check: &dyn Check, a: WorkerArgs) {
    set_limits();
    crate::sandbox::install_hook();
    let findings = load_findings();
    let mut ctx = Ctx::new(&format!("w{}", a.wid), a.tier, a.seed);
    ctx.closed_gates = closed_gates(&findings);
    let status = std::fs::OpenOptions::new()
        .create(true)
        .write(true)
        .truncate(false)
        .open(a.dir.join(format!("status-{}", a.wid)))
        .expect("status file");
    let mut keyfile = std::fs::OpenOptions::new()
        .create(true)
        .append(true)
        .open(a.dir.join(format!("keys-{}", a.wid)))
        .ok();
    let phases = check.phases(a.tier);
    let id = check.id();
    let mut samples_emitted;
    let mut shrunk: std::collections::HashMap<String, u32> = std::collections::HashMap::new();
    for (pi, ph) in phases.iter().enumerate() {
        if (pi as u64) < a.start_phase {
            continue;
        }
        let mut stats = Stats::new();
        samples_emitted = 0;
        let first = if pi as u64 == a.start_phase && a.start_index > 0 {
            a.start_index
        } else {
            a.wid
        };
        let mut index = first;
        while index < ph.cases {
            write_status(&status, pi as u64, index);
            // --- generate
            let mut runner = runner_for(a.seed, id, ph.name, index);
            let strat = proptest::collection::vec(proptest::num::u8::ANY, 0..=ph.max_bytes);
            let mut tree = strat.new_tree(&mut runner).expect("byte tree");
            let bytes = if ph.max_bytes == 0 { vec![] } else { tree.current() };
            let case = check.make(ph.name, index, &bytes, &mut ctx);
            let out = check.judge(ph.name, &case, &mut ctx);
            stats.evals += 1;
            for l in &out.labels {
                *stats.labels.entry(l.clone()).or_insert(0) += 1;
            }
            match &out.outcome {
                Outcome::Pass => {
                    stats.pass += 1;
                    if out.nontrivial {
                        stats.nontrivial += 1;
                        stats.keys.push(out.key);
                        if samples_emitted < 2 {
                            samples_emitted += 1;
                            println!(
                                "{}",
                                json!({"t":"sample","phase":ph.name,"index":index,"input":case.input})
                            );
                        }
                    }
                }
                Outcome::Discard(r) => {
                    *stats.discards.entry(r.clone()).or_insert(0) += 1;
                }
                Outcome::Fail { sig, detail } => {
                    stats.fails += 1;
                    // --- shrink (byte level, library driven)
                    let mut best_input = case.input.clone();
                    let mut best_detail = detail.clone();
                    let mut iters = 0;
                    // shrink only the first failures of each signature (the
                    // parent keeps the smallest input per signature anyway)
                    let seen = shrunk.entry(sig.clone()).or_insert(0u32);
                    *seen += 1;
                    let seen = *seen;
                    if seen > 40 {
                        // enough examples of this signature; keep counting only
                        println!(
                            "{}",
                            json!({"t":"fail","phase":ph.name,"index":index,"sig":sig,"detail":"","input":Value::Null,"extra":true})
                        );
                    } else {
                    if seen <= 2 && ph.max_bytes > 0 && tree.simplify() {
                        loop {
                            iters += 1;
                            if iters > max_shrink_iters() {
                                break;
                            }
                            let b = tree.current();
                            let c2 = check.make(ph.name, index, &b, &mut ctx);
                            let o2 = check.judge(ph.name, &c2, &mut ctx);
                            let same = matches!(&o2.outcome, Outcome::Fail{sig: s2, ..} if s2 == sig);
                            if same {
                                if let Outcome::Fail { detail: d2, .. } = &o2.outcome {
                                    best_detail = d2.clone();
                                }
                                best_input = c2.input;
                                if !tree.simplify() {
                                    break;
                                }
                            } else if !tree.complicate() {
                                break;
                            }
                        }
                    }
                    println!(
                        "{}",
                        json!({"t":"fail","phase":ph.name,"index":index,"sig":sig,
                               "detail":best_detail,"input":best_input,
                               "original_input": if best_input != case.input { case.input.clone() } else { Value::Null },
                               "shrink_iters":iters})
                    );
                    }
                }
            }
            if stats.evals >= 1000 {
                stats.flush(ph.name, &mut keyfile, &mut ctx.gate_hits);
            }
            index += a.n;
        }
        stats.flush(ph.name, &mut keyfile, &mut ctx.gate_hits);
    }
    write_status(&status, u64::MAX, u64::MAX);
    println!("{}", json!({"t":"done"}));
}

// ---------------------------------------------------------------------------
// parent

#[derive(Default)]
struct PhaseAgg {
    evals: u64,
    pass: u64,
    nontrivial: u64,
    fails: u64,
    discards: BTreeMap<String, u64>,
    labels: BTreeMap<String, u64>,
}

struct Agg {
    phases: BTreeMap<String, PhaseAgg>,
    gates: BTreeMap<String, u64>,
    fails: Vec<Value>,
    samples: Vec<Value>,
    hangs: Vec<String>,
    infra: Vec<String>,
}

fn add_map(dst: &mut BTreeMap<String, u64>, src: &Value) {
    if let Some(m) = src.as_object() {
        for (k, v) in m {
            *dst.entry(k.clone()).or_insert(0) += v.as_u64().unwrap_or(0);
        }
    }
}

fn describe_case(check: &dyn Check, tier: Tier, seed: u64, phase_idx: u64, index: u64) -> (String, Value) {
    let phases = check.phases(tier);
    let Some(ph) = phases.get(phase_idx as usize) else {
        return ("?".into(), Value::Null);
    };
    let mut ctx = Ctx::new("describe", tier, seed);
    ctx.closed_gates = closed_gates(&load_findings());
    let mut runner = runner_for(seed, check.id(), ph.name, index);
    let strat = proptest::collection::vec(proptest::num::u8::ANY, 0..=ph.max_bytes);
    let tree = strat.new_tree(&mut runner).expect("byte tree");
    let bytes = if ph.max_bytes == 0 { vec![] } else { tree.current() };
    let case = check.make(ph.name, index, &bytes, &mut ctx);
    (ph.name.to_string(), case.input)
}

pub fn replay_file(check: &dyn Check, path: &Path, quiet: bool) -> Result<CaseOut, String> {
    let text = std::fs::read_to_string(path).map_err(|e| format!("{}: {e}", path.display()))?;
    let v: Value = serde_json::from_str(&text).map_err(|e| format!("{}: {e}", path.display()))?;
    let phase = v["phase"].as_str().unwrap_or("").to_string();
    let mut ctx = Ctx::new("replay", Tier::Quick, 0);
    ctx.strict = true;
    let case = Case::new(v["input"].clone());
    let out = check.judge(&phase, &case, &mut ctx);
    if !quiet {
        match &out.outcome {
            Outcome::Pass => println!("replay: PASS"),
            Outcome::Discard(r) => println!("replay: DISCARD ({r})"),
            Outcome::Fail { sig, detail } => println!("replay: FAIL sig={sig}\n{detail}"),
        }
    }
    Ok(out)
}

/// Replay a stored case in a child process (it may crash the process).
fn replay_in_child(id: &str, path: &Path) -> (Option<String>, String) {
    let exe = std::env::current_exe().expect("exe");
    let out = Command::new(exe)
        .arg("replay")
        .arg(id)
        .arg(path)
        .arg("--json")
        .env("VERIF_LIMITS", "1")
        .stdin(Stdio::null())
        .stderr(Stdio::null())
        .output();
    match out {
        Ok(o) => {
            let so = String::from_utf8_lossy(&o.stdout).to_string();
            if let Some(line) = so.lines().rev().find(|l| l.contains("\"replay\":true")) {
                if let Ok(v) = serde_json::from_str::<Value>(line) {
                    let sig = v["sig"].as_str().map(|s| s.to_string());
                    return (sig, v["outcome"].as_str().unwrap_or("?").to_string());
                }
            }
            use std::os::unix::process::ExitStatusExt;
            if let Some(sig) = o.status.signal() {
                return (Some(format!("{id}|crash|signal {sig}")), "fail".into());
            }
            (None, format!("no verdict (status {:?})", o.status.code()))
        }
        Err(e) => (None, format!("spawn failed: {e}")),
    }
}

pub fn parent_main(check: &'static dyn Check, tier: Tier, seed: u64) -> i32 {
    let t0 = Instant::now();
    let id = check.id();
    let findings = load_findings();
    let open = open_for(&findings, id);
    let root = verif_root();

    // 1. replay the open findings of this property
    let mut known_lines = vec![];
    for f in &open {
        let mut reproduced = None;
        if let Some(rp) = &f.replay {
            let p = root.join(rp);
            let (sig, outcome) = replay_in_child(id, &p);
            reproduced = Some(outcome == "fail" && sig.is_some());
            if reproduced == Some(false) {
                println!(
                    "NOTE: known finding {} no longer reproduces from {} ({})",
                    f.id, rp, outcome
                );
            }
        }
        if reproduced != Some(false) {
            known_lines.push(format!("KNOWN-FINDING: property={} {} {}", id, f.id, f.what));
        }
    }
    // fixed findings: their replay files are regression cases
    let mut regression_fails = vec![];
    let mut regressions_run = 0u64;
    for f in findings
        .iter()
        .filter(|f| f.status == "fixed" && f.properties.first().map(|p| p == id).unwrap_or(false))
    {
        if let Some(rp) = &f.replay {
            let p = root.join(rp);
            let (sig, outcome) = replay_in_child(id, &p);
            regressions_run += 1;
            if outcome == "fail" {
                regression_fails.push((f.id.clone(), rp.clone(), sig.unwrap_or_default()));
            } else if outcome != "pass" {
                println!("NOTE: regression replay {} gave {}", rp, outcome);
            }
        }
    }

    // 2. one-off setup (calibration)
    let mut pctx = Ctx::new("parent", tier, seed);
    pctx.closed_gates = closed_gates(&findings);
    let setup_info = match check.setup(&mut pctx) {
        Ok(v) => v,
        Err(e) => {
            eprintln!("INCONCLUSIVE property={id}: setup/calibration failed: {e}");
            return 2;
        }
    };
    let dir = pctx.scratch.root.clone();
    std::env::set_var("VERIF_SCRATCH_BASE", &dir);

    // 3. workers
    let n: u64 = std::env::var("VERIF_WORKERS")
        .ok()
        .and_then(|s| s.parse().ok())
        .unwrap_or_else(|| {
            std::thread::available_parallelism()
                .map(|n| n.get() as u64)
                .unwrap_or(8)
        });
    let watchdog_s: u64 = std::env::var("VERIF_WATCHDOG_S")
        .ok()
        .and_then(|s| s.parse().ok())
        .unwrap_or(180);
    let agg = Arc::new(Mutex::new(Agg {
        phases: BTreeMap::new(),
        gates: BTreeMap::new(),
        fails: vec![],
        samples: vec![],
        hangs: vec![],
        infra: vec![],
    }));
    let phases = check.phases(tier);
    let mut handles = vec![];
    // a crashing or hanging tree fails the check anyway: stop respawning after a few deaths
    let deaths = Arc::new(std::sync::atomic::AtomicU64::new(0));
    for wid in 0..n {
        let agg = agg.clone();
        let deaths = deaths.clone();
        let dir = dir.clone();
        let phases = phases.clone();
        handles.push(std::thread::spawn(move || {
            let mut start_phase = 0u64;
            let mut start_index = 0u64;
            let mut restarts = 0;
            loop {
                let exe = std::env::current_exe().expect("exe");
                let status_path = dir.join(format!("status-{wid}"));
                let _ = std::fs::remove_file(&status_path);
                let mut child = Command::new(exe)
                    .arg("worker")
                    .arg(id)
                    .arg(tier.name())
                    .arg(seed.to_string())
                    .arg(wid.to_string())
                    .arg(n.to_string())
                    .arg(start_phase.to_string())
                    .arg(start_index.to_string())
                    .arg(&dir)
                    .stdin(Stdio::null())
                    .stdout(Stdio::piped())
                    .stderr(Stdio::inherit())
                    .spawn()
                    .expect("spawn worker");
                let stdout = child.stdout.take().expect("stdout");
                let pid = child.id();
                // watchdog thread
                let stop = Arc::new(AtomicBool::new(false));
                let hung = Arc::new(AtomicBool::new(false));
                let wd = {
                    let stop = stop.clone();
                    let hung = hung.clone();
                    let sp = status_path.clone();
                    std::thread::spawn(move || {
                        let mut last = None;
                        let mut since = Instant::now();
                        while !stop.load(Ordering::Relaxed) {
                            std::thread::sleep(Duration::from_millis(500));
                            let cur = read_status(&sp);
                            if cur != last {
                                last = cur;
                                since = Instant::now();
                            } else if since.elapsed() > Duration::from_secs(watchdog_s) {
                                hung.store(true, Ordering::Relaxed);
                                unsafe {
                                    libc::kill(pid as i32, libc::SIGKILL);
                                }
                                return;
                            }
                        }
                    })
                };
                let mut done = false;
                for line in BufReader::new(stdout).lines() {
                    let Ok(line) = line else { break };
                    let Ok(v) = serde_json::from_str::<Value>(&line) else {
                        continue;
                    };
                    let mut g = agg.lock().unwrap();
                    match v["t"].as_str().unwrap_or("") {
                        "stats" => {
                            let pa = g
                                .phases
                                .entry(v["phase"].as_str().unwrap_or("?").to_string())
                                .or_default();
                            pa.evals += v["evals"].as_u64().unwrap_or(0);
                            pa.pass += v["pass"].as_u64().unwrap_or(0);
                            pa.nontrivial += v["nontrivial"].as_u64().unwrap_or(0);
                            pa.fails += v["fails"].as_u64().unwrap_or(0);
                            add_map(&mut pa.discards, &v["discards"]);
                            add_map(&mut pa.labels, &v["labels"]);
                            add_map(&mut g.gates, &v["gates"]);
                        }
                        "fail" => g.fails.push(v),
                        "sample" => {
                            if g.samples.len() < 64 {
                                g.samples.push(v)
                            }
                        }
                        "done" => done = true,
                        _ => {}
                    }
                }
                let st = child.wait();
                stop.store(true, Ordering::Relaxed);
                let _ = wd.join();
                if done {
                    break;
                }
                // the worker died: attribute it to the case it had announced
                let (pi, idx) = read_status(&status_path).unwrap_or((start_phase, start_index));
                if pi == u64::MAX {
                    break;
                }
                use std::os::unix::process::ExitStatusExt;
                let signal = st.as_ref().ok().and_then(|s| s.signal());
                let code = st.as_ref().ok().and_then(|s| s.code());
                let (phase_name, input) = describe_case(check, tier, seed, pi, idx);
                let mut g = agg.lock().unwrap();
                if hung.load(Ordering::Relaxed) {
                    g.hangs.push(format!(
                        "worker {wid} made no progress for {watchdog_s}s at phase {phase_name} index {idx}"
                    ));
                    g.fails.push(json!({"t":"fail","phase":phase_name,"index":idx,
                        "sig":format!("{id}|hang|{phase_name}"),"detail":"watchdog","input":input,"hang":true}));
                } else {
                    g.fails.push(json!({"t":"fail","phase":phase_name,"index":idx,
                        "sig":format!("{id}|crash|{}", signal.map(|s| format!("signal {s}")).unwrap_or_else(|| format!("exit {:?}", code))),
                        "detail":"worker process died while judging this case","input":input}));
                }
                drop(g);
                restarts += 1;
                if deaths.fetch_add(1, Ordering::Relaxed) + 1 >= 24 {
                    agg.lock().unwrap().infra.push(format!("worker {wid}: stopped after 24 worker deaths in this run"));
                    break;
                }
                if restarts > 200 {
                    agg.lock().unwrap().infra.push(format!("worker {wid}: too many restarts"));
                    break;
                }
                start_phase = pi;
                start_index = idx + n;
                if let Some(ph) = phases.get(pi as usize) {
                    if start_index >= ph.cases {
                        start_phase = pi + 1;
                        start_index = 0;
                    }
                }
            }
        }));
    }
    for h in handles {
        let _ = h.join();
    }
    let g = agg.lock().unwrap();

    // 4. distinct non-trivial cases
    let mut keys: HashSet<u64> = HashSet::new();
    for wid in 0..n {
        if let Ok(b) = std::fs::read(dir.join(format!("keys-{wid}"))) {
            for c in b.chunks_exact(8) {
                keys.insert(u64::from_le_bytes(c.try_into().unwrap()));
            }
        }
    }

    // 5. classify failures
    let mut known_counts: BTreeMap<String, u64> = BTreeMap::new();
    let mut violations: BTreeMap<String, Value> = BTreeMap::new();
    let mut hang_only = vec![];
    for f in &g.fails {
        let sig = f["sig"].as_str().unwrap_or("?").to_string();
        if let Some(kf) = open
            .iter()
            .find(|kf| kf.signatures.iter().any(|p| sig_matches(p, &sig)))
        {
            *known_counts.entry(kf.id.clone()).or_insert(0) += 1;
            continue;
        }
        if f["hang"].as_bool() == Some(true) {
            hang_only.push(sig);
            continue;
        }
        // keep the smallest input per signature
        if f["extra"].as_bool() == Some(true) && violations.contains_key(&sig) {
            continue;
        }
        let size = if f["input"].is_null() { usize::MAX / 2 } else { f["input"].to_string().len() };
        let replace = violations
            .get(&sig)
            .map(|old| {
                let osz = if old["input"].is_null() { usize::MAX / 2 } else { old["input"].to_string().len() };
                osz > size
            })
            .unwrap_or(true);
        if replace {
            violations.insert(sig, f.clone());
        }
    }
    for (fid, rp, sig) in &regression_fails {
        violations.insert(
            format!("{id}|regression|{fid}"),
            json!({"phase":"regression","sig":sig,"detail":format!("fixed finding {fid} fails again"),
                   "input":Value::Null,"replay_path":rp}),
        );
    }

    // 6. evidence
    let mut evals = 0u64;
    let mut nontrivial_total = 0u64;
    let mut discards_total = 0u64;
    let mut phases_json = Map::new();
    let mut all_labels: BTreeMap<String, u64> = BTreeMap::new();
    let mut exhaustive_all = !phases.is_empty();
    for ph in &phases {
        let pa = g.phases.get(ph.name);
        let (e, p, nt, fl) = pa
            .map(|p| (p.evals, p.pass, p.nontrivial, p.fails))
            .unwrap_or((0, 0, 0, 0));
        evals += e;
        nontrivial_total += nt;
        let d: u64 = pa.map(|p| p.discards.values().sum()).unwrap_or(0);
        discards_total += d;
        if let Some(pa) = pa {
            for (k, v) in &pa.labels {
                *all_labels.entry(k.clone()).or_insert(0) += v;
            }
        }
        if !ph.exhaustive {
            exhaustive_all = false;
        }
        phases_json.insert(
            ph.name.to_string(),
            json!({"planned":ph.cases,"evaluations":e,"passed":p,"nontrivial":nt,"failed":fl,
                   "discards":pa.map(|p| json!(p.discards)).unwrap_or(json!({})),
                   "exhaustive":ph.exhaustive}),
        );
    }
    let mut samples: Vec<Value> = vec![];
    {
        // a few samples per phase, deterministic order
        let mut by_phase: BTreeMap<String, Vec<&Value>> = BTreeMap::new();
        for s in &g.samples {
            by_phase
                .entry(s["phase"].as_str().unwrap_or("?").to_string())
                .or_default()
                .push(s);
        }
        for (_, mut v) in by_phase {
            v.sort_by_key(|s| s["index"].as_u64().unwrap_or(0));
            for s in v.into_iter().take(2) {
                samples.push(shorten(s));
            }
        }
        samples.truncate(8);
    }
    let wall = t0.elapsed().as_secs_f64();
    let evidence = json!({
        "property_id": id,
        "tier": tier.name(),
        "seed": seed,
        "level": "exploration",
        "coverage": {
            "evaluations": evals,
            "distinct_nontrivial": keys.len(),
            "nontrivial_total": nontrivial_total,
            "rule": check.rule(),
            "samples": samples,
            "exhaustive": exhaustive_all,
            "phases": phases_json,
            "labels": all_labels,
            "discards_total": discards_total,
            "excluded_by_gate": g.gates,
            "known_finding_hits": known_counts,
            "known_findings_replayed": open.iter().map(|f| f.id.clone()).collect::<Vec<_>>(),
            "regression_replays": regressions_run,
            "setup": setup_info,
            "workers": n,
        },
        "assumptions": check.assumptions(),
        "wall_s": wall,
        "violations": violations.len(),
    });
    let evdir = root.join("evidence");
    let _ = std::fs::create_dir_all(&evdir);
    let evpath = evdir.join(format!("{id}.json"));
    if let Err(e) = std::fs::write(&evpath, serde_json::to_string_pretty(&evidence).unwrap()) {
        eprintln!("cannot write evidence {}: {e}", evpath.display());
        return 2;
    }

    // 7. verdict
    for l in &known_lines {
        println!("{l}");
    }
    println!(
        "{id} {}: {} cases, {} distinct non-trivial, {} discards, {} known-finding hits, {} new failures, {:.1}s",
        tier.name(),
        evals,
        keys.len(),
        discards_total,
        known_counts.values().sum::<u64>(),
        violations.len(),
        wall
    );
    if !violations.is_empty() {
        let rdir = root.join("replays").join(id);
        let _ = std::fs::create_dir_all(&rdir);
        {
            let mut counts: BTreeMap<String, u64> = BTreeMap::new();
            let mut log = String::new();
            for f in &g.fails {
                *counts.entry(f["sig"].as_str().unwrap_or("?").to_string()).or_insert(0) += 1;
                log.push_str(&f.to_string());
                log.push('\n');
            }
            let _ = std::fs::write(rdir.join("all_failures.jsonl"), log);
            println!("failure signatures ({} distinct):", counts.len());
            for (s, c) in &counts {
                println!("  {c:>6}  {s}");
            }
        }
        for (sig, f) in violations.iter().take(20) {
            let path = if let Some(p) = f["replay_path"].as_str() {
                root.join(p)
            } else {
                let p = rdir.join(format!("{:016x}.json", fnv_str(sig)));
                let body = json!({"property":id,"phase":f["phase"],"seed":seed,"case_index":f["index"],
                    "signature":sig,"detail":f["detail"],"input":f["input"],
                    "original_input":f["original_input"]});
                let _ = std::fs::write(&p, serde_json::to_string_pretty(&body).unwrap());
                p
            };
            println!("VIOLATION property={} replay={}", id, path.display());
            println!("  signature: {sig}");
            let detail = f["detail"].as_str().unwrap_or("");
            for l in detail.lines().take(12) {
                println!("  | {l}");
            }
        }
        return 1;
    }
    // health
    let mut inconclusive = vec![];
    for h in &g.hangs {
        inconclusive.push(h.clone());
    }
    for h in &g.infra {
        inconclusive.push(h.clone());
    }
    let _ = hang_only;
    let planned: u64 = phases.iter().map(|p| p.cases).sum();
    if evals < planned {
        inconclusive.push(format!("only {evals} of {planned} planned cases were evaluated"));
    }
    if evals > 0 && (discards_total as f64) / (evals as f64) > check.max_discard_fraction() {
        inconclusive.push(format!(
            "generator health: {discards_total} of {evals} cases discarded"
        ));
    }
    for l in check.required_labels(tier) {
        if all_labels.get(l).copied().unwrap_or(0) == 0 {
            inconclusive.push(format!("generator health: label {l} never produced"));
        }
    }
    if keys.len() < 2 {
        inconclusive.push("fewer than 2 distinct non-trivial cases".into());
    }
    if !inconclusive.is_empty() {
        for m in inconclusive {
            eprintln!("INCONCLUSIVE property={id}: {m}");
        }
        return 2;
    }
    0
}

fn shorten(v: &Value) -> Value {
    match v {
        Value::String(s) => Value::String(crate::util::truncate_str(s, 1500)),
        Value::Array(a) => Value::Array(a.iter().take(40).map(shorten).collect()),
        Value::Object(m) => Value::Object(m.iter().map(|(k, v)| (k.clone(), shorten(v))).collect()),
        other => other.clone(),
    }
}
