//! Small shared helpers: hashing, seed derivation, the byte-choice decoder.

pub fn splitmix(mut x: u64) -> u64 {
    x = x.wrapping_add(0x9E3779B97F4A7C15);
    let mut z = x;
    z = (z ^ (z >> 30)).wrapping_mul(0xBF58476D1CE4E5B9);
    z = (z ^ (z >> 27)).wrapping_mul(0x94D049BB133111EB);
    z ^ (z >> 31)
}

pub fn mix(a: u64, b: u64) -> u64 {
    splitmix(a ^ splitmix(b).rotate_left(17))
}

pub fn fnv(bytes: &[u8]) -> u64 {
    let mut h: u64 = 0xcbf29ce484222325;
    for b in bytes {
        h ^= *b as u64;
        h = h.wrapping_mul(0x100000001b3);
    }
    h
}

pub fn fnv_str(s: &str) -> u64 {
    fnv(s.as_bytes())
}

pub fn hex(bytes: &[u8]) -> String {
    let mut s = String::with_capacity(bytes.len() * 2);
    for b in bytes {
        s.push_str(&format!("{:02x}", b));
    }
    s
}

pub fn unhex(s: &str) -> Vec<u8> {
    let b = s.as_bytes();
    let mut out = Vec::with_capacity(b.len() / 2);
    let mut i = 0;
    while i + 1 < b.len() {
        let h = (b[i] as char).to_digit(16).unwrap_or(0) as u8;
        let l = (b[i + 1] as char).to_digit(16).unwrap_or(0) as u8;
        out.push(h << 4 | l);
        i += 2;
    }
    out
}

/// Decoder of a choice-byte string in the style of `arbitrary::Unstructured`.
/// Every choice is monotone in the byte value and 0 is always the simplest
/// alternative; an exhausted input yields 0 for ever, so shrinking the byte
/// string (shorter, smaller bytes) moves towards smaller structures.
pub struct Dec<'a> {
    d: &'a [u8],
    p: usize,
}

impl<'a> Dec<'a> {
    pub fn new(d: &'a [u8]) -> Self {
        Dec { d, p: 0 }
    }
    pub fn consumed(&self) -> usize {
        self.p
    }
    pub fn exhausted(&self) -> bool {
        self.p >= self.d.len()
    }
    pub fn byte(&mut self) -> u8 {
        let v = self.d.get(self.p).copied().unwrap_or(0);
        self.p += 1;
        v
    }
    /// uniform-ish in 0..n (n >= 1); monotone in the input bytes
    pub fn below(&mut self, n: usize) -> usize {
        if n <= 1 {
            return 0;
        }
        if n <= 256 {
            (self.byte() as usize * n) >> 8
        } else {
            let hi = self.byte() as usize;
            let lo = self.byte() as usize;
            (((hi << 8) | lo) * n) >> 16
        }
    }
    pub fn range(&mut self, lo: i64, hi_incl: i64) -> i64 {
        lo + self.below((hi_incl - lo + 1) as usize) as i64
    }
    /// true with probability num/256; byte 0 => false
    pub fn chance(&mut self, num: u32) -> bool {
        (self.byte() as u32) + num >= 256
    }
    pub fn bool(&mut self) -> bool {
        self.byte() >= 128
    }
    /// index into weights; index 0 is reached by byte 0
    pub fn weighted(&mut self, w: &[u32]) -> usize {
        let total: u32 = w.iter().sum();
        if total == 0 {
            return 0;
        }
        let x = (self.byte() as u32 * total) >> 8;
        let mut acc = 0;
        for (i, wi) in w.iter().enumerate() {
            acc += wi;
            if x < acc {
                return i;
            }
        }
        w.len() - 1
    }
    pub fn pick<T: Copy>(&mut self, xs: &[T]) -> T {
        xs[self.below(xs.len())]
    }
    pub fn u64(&mut self) -> u64 {
        let mut v = 0u64;
        for _ in 0..8 {
            v = (v << 8) | self.byte() as u64;
        }
        v
    }
}

pub fn truncate_str(s: &str, max: usize) -> String {
    if s.len() <= max {
        return s.to_string();
    }
    let mut end = max;
    while !s.is_char_boundary(end) {
        end -= 1;
    }
    format!("{}…[{} bytes]", &s[..end], s.len())
}
