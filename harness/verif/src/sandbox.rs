//! Running code of the system under test: panic capture, big-stack threads,
//! per-worker scratch directories.

use std::cell::RefCell;
use std::panic::{self, AssertUnwindSafe};
use std::path::{Path, PathBuf};
use std::sync::Once;

#[derive(Debug, Clone)]
pub struct PanicInfo {
    pub message: String,
    pub file: String,
    pub line: u32,
}

impl PanicInfo {
    /// `<file>|<enclosing fn>|<message up to the first variable datum>`.
    /// Line numbers are deliberately not part of it (they shift with every
    /// edit); the enclosing function is looked up in the source file.
    pub fn signature(&self) -> String {
        let f = self.file.rsplit("/crates/").next().unwrap_or(&self.file);
        format!("{}|{}|{}", f, enclosing_fn(&self.file, self.line), cut_message(&self.message))
    }
}

pub fn cut_message(msg: &str) -> String {
    let first = msg.lines().next().unwrap_or("");
    // "... failed for <name>: <reason>": the reason identifies the defect, the name of the
    // generated function does not (except the runtime helper `missing`, KF-29)
    let owned;
    let first = match first.find(" failed for ").and_then(|i| {
        let rest = &first[i + 12..];
        rest.find(": ").map(|j| (i + 12, i + 12 + j))
    }) {
        Some((a, b)) if &first[a..b] != "missing" => {
            owned = format!("{}_{}", &first[..a], &first[b..]);
            owned.as_str()
        }
        _ => first,
    };
    // "... conflicting bindings for <type parameter>: ..."
    let owned2;
    let first = match first.find(" bindings for ").and_then(|i| {
        let rest = &first[i + 14..];
        rest.find(": ").map(|j| (i + 14, i + 14 + j))
    }) {
        Some((a, b)) => {
            owned2 = format!("{}_{}", &first[..a], &first[b..]);
            owned2.as_str()
        }
        None => first,
    };
    let mut out = String::new();
    for c in first.chars() {
        if c.is_ascii_digit() || matches!(c, '"' | '\'' | '`' | '(' | '[' | '{' | '=' | '<') {
            break;
        }
        out.push(c);
        if out.len() >= 80 {
            break;
        }
    }
    out.trim_end().to_string()
}

/// name of the function whose body contains `line` of `file` (best effort)
pub fn enclosing_fn(file: &str, line: u32) -> String {
    use std::collections::HashMap;
    use std::sync::Mutex;
    static CACHE: Mutex<Option<HashMap<String, Vec<String>>>> = Mutex::new(None);
    let mut g = CACHE.lock().unwrap_or_else(|e| e.into_inner());
    let cache = g.get_or_insert_with(HashMap::new);
    let lines = cache.entry(file.to_string()).or_insert_with(|| {
        std::fs::read_to_string(file)
            .map(|t| t.lines().map(|l| l.to_string()).collect())
            .unwrap_or_default()
    });
    if lines.is_empty() || line == 0 {
        return "?".into();
    }
    let mut i = (line as usize).min(lines.len());
    while i > 0 {
        i -= 1;
        let l = lines[i].trim_start();
        let l = l.strip_prefix("pub(crate) ").or_else(|| l.strip_prefix("pub(super) ")).or_else(|| l.strip_prefix("pub ")).unwrap_or(l);
        let l = l.strip_prefix("const ").unwrap_or(l);
        let l = l.strip_prefix("async ").unwrap_or(l);
        let l = l.strip_prefix("unsafe ").unwrap_or(l);
        if let Some(rest) = l.strip_prefix("fn ") {
            let name: String = rest.chars().take_while(|c| c.is_alphanumeric() || *c == '_').collect();
            if !name.is_empty() {
                return name;
            }
        }
    }
    "?".into()
}

pub fn normalise(msg: &str) -> String {
    let first = msg.lines().next().unwrap_or("");
    let mut out = String::new();
    let mut chars = first.chars().peekable();
    while let Some(c) = chars.next() {
        if c.is_ascii_digit() {
            while chars.peek().map_or(false, |d| d.is_ascii_digit()) {
                chars.next();
            }
            out.push('#');
        } else if c == '"' || c == '`' || c == '\'' {
            // skip to the matching quote (if any, on this line)
            let rest: String = chars.clone().collect();
            if let Some(pos) = rest.find(c) {
                for _ in 0..=rest[..pos].chars().count() {
                    chars.next();
                }
                out.push(c);
                out.push('…');
                out.push(c);
            } else {
                out.push(c);
            }
        } else {
            out.push(c);
        }
        if out.len() > 160 {
            break;
        }
    }
    out
}

thread_local! {
    static LAST_PANIC: RefCell<Option<PanicInfo>> = const { RefCell::new(None) };
    static CAPTURING: RefCell<bool> = const { RefCell::new(false) };
}

static HOOK: Once = Once::new();

pub fn install_hook() {
    HOOK.call_once(|| {
        let prev = panic::take_hook();
        panic::set_hook(Box::new(move |info| {
            let capturing = CAPTURING.with(|c| *c.borrow());
            let message = if let Some(s) = info.payload().downcast_ref::<&str>() {
                s.to_string()
            } else if let Some(s) = info.payload().downcast_ref::<String>() {
                s.clone()
            } else {
                "<non-string panic>".to_string()
            };
            let (file, line) = info
                .location()
                .map(|l| (l.file().to_string(), l.line()))
                .unwrap_or(("?".into(), 0));
            if capturing {
                LAST_PANIC.with(|p| {
                    *p.borrow_mut() = Some(PanicInfo {
                        message,
                        file,
                        line,
                    })
                });
            } else {
                prev(info);
            }
        }));
    });
}

/// Run `f`, turning a panic into `Err(PanicInfo)`.
pub fn guarded<T>(f: impl FnOnce() -> T) -> Result<T, PanicInfo> {
    install_hook();
    CAPTURING.with(|c| *c.borrow_mut() = true);
    LAST_PANIC.with(|p| *p.borrow_mut() = None);
    let r = panic::catch_unwind(AssertUnwindSafe(f));
    CAPTURING.with(|c| *c.borrow_mut() = false);
    match r {
        Ok(v) => Ok(v),
        Err(_) => Err(LAST_PANIC.with(|p| p.borrow_mut().take()).unwrap_or(PanicInfo {
            message: "<unknown panic>".into(),
            file: "?".into(),
            line: 0,
        })),
    }
}

/// Run `f` on a fresh thread with the given stack size (the goml CLI runs on
/// the 8 MiB main thread), capturing panics.
pub fn on_stack<T: Send>(stack: usize, f: impl FnOnce() -> T + Send) -> Result<T, PanicInfo> {
    std::thread::scope(|s| {
        std::thread::Builder::new()
            .stack_size(stack)
            .spawn_scoped(s, move || guarded(f))
            .expect("spawn")
            .join()
            .unwrap_or_else(|_| {
                Err(PanicInfo {
                    message: "<thread join failed>".into(),
                    file: "?".into(),
                    line: 0,
                })
            })
    })
}

pub const CLI_STACK: usize = 8 * 1024 * 1024;

/// A per-worker scratch area on tmpfs.
pub struct Scratch {
    pub root: PathBuf,
    counter: u64,
}

impl Scratch {
    pub fn new(tag: &str) -> Scratch {
        // workers live inside their parent's scratch directory, which the parent removes
        // when the run ends (a killed worker cannot clean up after itself)
        let base = if let Some(b) = std::env::var_os("VERIF_SCRATCH_BASE").map(PathBuf::from).filter(|b| b.is_dir()) {
            b
        } else if Path::new("/dev/shm").is_dir() {
            PathBuf::from("/dev/shm")
        } else {
            std::env::temp_dir()
        };
        let root = base.join(format!("verif-{}-{}", std::process::id(), tag));
        let _ = std::fs::remove_dir_all(&root);
        std::fs::create_dir_all(&root).expect("scratch dir");
        Scratch { root, counter: 0 }
    }
    /// an empty directory that stays empty: single-file programs are compiled
    /// with `<empty>/main.gom` as their (non-existent) path.
    pub fn empty_dir(&self) -> PathBuf {
        let d = self.root.join("empty");
        if !d.is_dir() {
            std::fs::create_dir_all(&d).expect("empty dir");
        }
        d
    }
    /// a fresh directory for a multi-file project
    pub fn fresh_dir(&mut self) -> PathBuf {
        self.counter += 1;
        let d = self.root.join(format!("p{}", self.counter));
        let _ = std::fs::remove_dir_all(&d);
        std::fs::create_dir_all(&d).expect("fresh dir");
        d
    }
    pub fn remove(&self, d: &Path) {
        let _ = std::fs::remove_dir_all(d);
    }
}

impl Drop for Scratch {
    fn drop(&mut self) {
        let _ = std::fs::remove_dir_all(&self.root);
    }
}

/// Write `files` (relative path -> text) under `dir`, creating directories.
pub fn materialise(dir: &Path, files: &[(String, String)]) {
    for (rel, text) in files {
        let p = dir.join(rel);
        if let Some(parent) = p.parent() {
            let _ = std::fs::create_dir_all(parent);
        }
        std::fs::write(&p, text).expect("write project file");
    }
}

/// Run compiler code the way the CLI does. The whole harness process runs on
/// a thread with exactly `CLI_STACK` bytes of stack (see `main`), so this only
/// needs to capture panics.
pub fn cli<T>(f: impl FnOnce() -> T) -> Result<T, PanicInfo> {
    guarded(f)
}

/// Run `f` as the body of the process on a CLI-sized stack.
pub fn run_main(f: impl FnOnce() -> i32 + Send + 'static) -> ! {
    let h = std::thread::Builder::new()
        .stack_size(CLI_STACK)
        .spawn(f)
        .expect("spawn main thread");
    let code = h.join().unwrap_or(2);
    std::process::exit(code)
}
