//! Own model of goml syntax for the C11 round-trip check: a tree type, a
//! minimal-parentheses printer with random trivia, a converter from the
//! compiler's `ast::File`, a canonical rendering and a random generator.
//!
//! The tree mirrors what the AST can distinguish (and nothing more):
//!  * a block is the list of its statements followed by its value; a missing
//!    trailing expression and an explicit `()` are the same tree (`Unit` last);
//!  * `x.m(a)` is `Call(Field(x, m), [a])` (the AST has no method-call node);
//!  * a path whose last segment is a declared enum variant / struct name is a
//!    `Constr`, every other path is a `Path` (lower.rs decides by declaration);
//!  * parenthesised expressions are transparent.

use crate::util::Dec;
use std::collections::{BTreeSet, HashSet};

pub type Path = Vec<String>;

#[derive(Clone, Debug, PartialEq)]
pub enum Ty {
    /// unit bool int8.. string (the keyword)
    Prim(&'static str),
    /// `()` is Tuple([]) (distinct from the keyword `unit` in the AST)
    Tuple(Vec<Ty>),
    Con(Path),
    App(Path, Vec<Ty>),
    Dyn(Path),
    Array(Box<Ty>, usize),
    Func(Vec<Ty>, Box<Ty>),
    Other(String),
}

#[derive(Clone, Debug, PartialEq)]
pub enum Pat {
    Wild,
    Var(String),
    Unit,
    Bool(bool),
    Int(String, &'static str),
    Str(String),
    Constr(Path, Vec<Pat>),
    Struct(Path, Vec<(String, Pat)>),
    Tuple(Vec<Pat>),
}

#[derive(Clone, Debug, PartialEq)]
pub enum E {
    /// digits as written, suffix "" | i8 i16 i32 i64 u8 u16 u32 u64
    Int(String, &'static str),
    /// digits as written (unsuffixed: canonical `{:?}` of the f64), suffix "" | f32 | f64
    Float(String, &'static str),
    Str(String),
    Bool(bool),
    Unit,
    Path(Path),
    Constr(Path, Vec<E>),
    Unary(&'static str, Box<E>),
    Binary(&'static str, Box<E>, Box<E>),
    Field(Box<E>, String),
    Proj(Box<E>, usize),
    Call(Box<E>, Vec<E>),
    Tuple(Vec<E>),
    Array(Vec<E>),
    StructLit(Path, Vec<(String, E)>),
    Closure(Vec<(String, Option<Ty>)>, Box<E>),
    If(Box<E>, Box<E>, Box<E>),
    Match(Box<E>, Vec<(Pat, E)>),
    While(Box<E>, Box<E>),
    Go(Box<E>),
    /// statements then value; never empty, last element is never a Let
    Block(Vec<E>),
    /// only as a non-last element of a Block
    Let(Pat, Option<Ty>, Box<E>),
}

#[derive(Clone, Debug, PartialEq)]
pub struct FnDef {
    pub attrs: Vec<String>,
    pub name: String,
    /// generic name and its trait bounds (empty = no `:`)
    pub generics: Vec<(String, Vec<Path>)>,
    pub params: Vec<(String, Ty)>,
    pub ret: Option<Ty>,
    pub body: E,
}

#[derive(Clone, Debug, PartialEq)]
pub enum Item {
    Fn(FnDef),
    Struct { attrs: Vec<String>, name: String, generics: Vec<String>, fields: Vec<(String, Ty)> },
    Enum { attrs: Vec<String>, name: String, generics: Vec<String>, variants: Vec<(String, Vec<Ty>)> },
    /// method: name, parameter types, return type (`unit` when omitted)
    Trait { attrs: Vec<String>, name: String, methods: Vec<(String, Vec<Ty>, Ty)> },
    Impl { attrs: Vec<String>, generics: Vec<String>, trait_name: Option<Path>, for_ty: Ty, methods: Vec<FnDef> },
    ExternGo { attrs: Vec<String>, pkg: String, sym: Option<String>, name: String, params: Vec<(String, Ty)>, ret: Option<Ty> },
    ExternType { attrs: Vec<String>, name: String },
    ExternBuiltin { attrs: Vec<String>, name: String, params: Vec<(String, Ty)>, ret: Option<Ty> },
}

#[derive(Clone, Debug, PartialEq)]
pub struct File {
    /// "Main" when no package line is written
    pub package: String,
    pub imports: Vec<String>,
    pub items: Vec<Item>,
}

// ---------------------------------------------------------------------------
// canonical rendering (S-expressions)

#[derive(Clone, Debug, PartialEq)]
pub enum Sx {
    A(String),
    L(String, Vec<Sx>),
}

fn a(s: impl Into<String>) -> Sx {
    Sx::A(s.into())
}
fn q(s: &str) -> Sx {
    Sx::A(format!("{:?}", s))
}
fn l(h: &str, c: Vec<Sx>) -> Sx {
    Sx::L(h.to_string(), c)
}

impl Sx {
    pub fn render(&self) -> String {
        let mut s = String::new();
        self.render_into(&mut s);
        s
    }
    fn render_into(&self, out: &mut String) {
        match self {
            Sx::A(s) => out.push_str(s),
            Sx::L(h, c) => {
                out.push('(');
                out.push_str(h);
                for x in c {
                    out.push(' ');
                    x.render_into(out);
                }
                out.push(')');
            }
        }
    }
    /// inverse of `render` (atoms keep their quoted spelling)
    pub fn parse(s: &str) -> Option<Sx> {
        let b: Vec<char> = s.chars().collect();
        let mut pos = 0usize;
        let r = parse_sx(&b, &mut pos, 0)?;
        while pos < b.len() && b[pos] == ' ' {
            pos += 1;
        }
        if pos == b.len() {
            Some(r)
        } else {
            None
        }
    }
    pub fn head(&self) -> &str {
        match self {
            Sx::A(s) => s,
            Sx::L(h, _) => h,
        }
    }
}

fn parse_atom(b: &[char], pos: &mut usize) -> Option<String> {
    let mut s = String::new();
    if *pos < b.len() && b[*pos] == '"' {
        s.push('"');
        *pos += 1;
        loop {
            let c = *b.get(*pos)?;
            s.push(c);
            *pos += 1;
            if c == '\\' {
                s.push(*b.get(*pos)?);
                *pos += 1;
            } else if c == '"' {
                break;
            }
        }
        return Some(s);
    }
    while *pos < b.len() && !matches!(b[*pos], ' ' | '(' | ')') {
        s.push(b[*pos]);
        *pos += 1;
    }
    if s.is_empty() {
        None
    } else {
        Some(s)
    }
}

fn parse_sx(b: &[char], pos: &mut usize, depth: usize) -> Option<Sx> {
    if depth > 2000 {
        return None;
    }
    while *pos < b.len() && b[*pos] == ' ' {
        *pos += 1;
    }
    if *pos >= b.len() {
        return None;
    }
    if b[*pos] == '(' {
        *pos += 1;
        let h = parse_atom(b, pos)?;
        let mut c = vec![];
        loop {
            while *pos < b.len() && b[*pos] == ' ' {
                *pos += 1;
            }
            if *pos >= b.len() {
                return None;
            }
            if b[*pos] == ')' {
                *pos += 1;
                return Some(Sx::L(h, c));
            }
            c.push(parse_sx(b, pos, depth + 1)?);
        }
    }
    parse_atom(b, pos).map(Sx::A)
}

/// coarse class of a node head, used in failure signatures
pub fn head_class(h: &str) -> String {
    match h {
        "+" | "-" | "*" | "/" | "<" | ">" | "<=" | ">=" | "==" | "!=" | "&&" | "||" => "binary".into(),
        "neg" | "not" => "unary".into(),
        _ => {
            if h.starts_with('"') {
                "string".into()
            } else if h.chars().next().map_or(false, |c| c.is_ascii_digit()) {
                "number".into()
            } else {
                h.to_string()
            }
        }
    }
}

/// outermost differing node pair: (coarse signature part, detail)
pub fn first_diff(e: &Sx, act: &Sx, parent: &str) -> Option<(String, String)> {
    let cut = |s: &Sx| crate::util::truncate_str(&s.render(), 300);
    match (e, act) {
        (Sx::A(x), Sx::A(y)) => {
            if x == y {
                None
            } else {
                Some((format!("atom-in-{}", head_class(parent)), format!("in ({parent} …): expected {x} got {y}")))
            }
        }
        (Sx::L(h1, c1), Sx::L(h2, c2)) => {
            if h1 != h2 {
                return Some((
                    format!("{}/{}", head_class(h1), head_class(h2)),
                    format!("expected {}\n     got {}", cut(e), cut(act)),
                ));
            }
            if c1.len() != c2.len() {
                return Some((
                    format!("{}-arity", head_class(h1)),
                    format!("expected {} children: {}\n     got {} children: {}", c1.len(), cut(e), c2.len(), cut(act)),
                ));
            }
            for (x, y) in c1.iter().zip(c2) {
                if let Some(d) = first_diff(x, y, h1) {
                    return Some(d);
                }
            }
            None
        }
        _ => Some((
            format!("{}/{}", head_class(e.head()), head_class(act.head())),
            format!("expected {}\n     got {}", cut(e), cut(act)),
        )),
    }
}

fn path_sx(p: &Path) -> Sx {
    l("path", p.iter().map(|s| a(s.clone())).collect())
}

pub fn ty_sx(t: &Ty) -> Sx {
    match t {
        Ty::Prim(s) => a(*s),
        Ty::Tuple(ts) => l("tuple-ty", ts.iter().map(ty_sx).collect()),
        Ty::Con(p) => l("con", vec![path_sx(p)]),
        Ty::App(p, args) => {
            let mut c = vec![path_sx(p)];
            c.extend(args.iter().map(ty_sx));
            l("app", c)
        }
        Ty::Dyn(p) => l("dyn", vec![path_sx(p)]),
        Ty::Array(t, n) => l("array-ty", vec![ty_sx(t), a(n.to_string())]),
        Ty::Func(ps, r) => l("fn-ty", vec![l("params", ps.iter().map(ty_sx).collect()), ty_sx(r)]),
        Ty::Other(s) => l("other-ty", vec![q(s)]),
    }
}

fn opt_ty_sx(t: &Option<Ty>) -> Sx {
    match t {
        None => a("none"),
        Some(t) => ty_sx(t),
    }
}

pub fn pat_sx(p: &Pat) -> Sx {
    match p {
        Pat::Wild => a("_"),
        Pat::Var(s) => l("pvar", vec![a(s.clone())]),
        Pat::Unit => a("punit"),
        Pat::Bool(b) => l("pbool", vec![a(b.to_string())]),
        Pat::Int(d, s) => l("pint", vec![a(d.clone()), a(if s.is_empty() { "-" } else { s })]),
        Pat::Str(s) => l("pstr", vec![q(s)]),
        Pat::Constr(p, args) => {
            let mut c = vec![path_sx(p)];
            c.extend(args.iter().map(pat_sx));
            l("pconstr", c)
        }
        Pat::Struct(p, fs) => {
            let mut c = vec![path_sx(p)];
            c.extend(fs.iter().map(|(n, p)| l("pfield", vec![a(n.clone()), pat_sx(p)])));
            l("pstruct", c)
        }
        Pat::Tuple(ps) => l("ptuple", ps.iter().map(pat_sx).collect()),
    }
}

pub fn expr_sx(e: &E) -> Sx {
    match e {
        E::Int(d, s) => l("int", vec![a(d.clone()), a(if s.is_empty() { "-" } else { s })]),
        E::Float(d, s) => l("float", vec![a(d.clone()), a(if s.is_empty() { "-" } else { s })]),
        E::Str(s) => l("str", vec![q(s)]),
        E::Bool(b) => a(b.to_string()),
        E::Unit => a("unit"),
        E::Path(p) => path_sx(p),
        E::Constr(p, args) => {
            let mut c = vec![path_sx(p)];
            c.extend(args.iter().map(expr_sx));
            l("constr", c)
        }
        E::Unary(op, x) => l(if *op == "-" { "neg" } else { "not" }, vec![expr_sx(x)]),
        E::Binary(op, x, y) => l(op, vec![expr_sx(x), expr_sx(y)]),
        E::Field(x, f) => l("field", vec![expr_sx(x), a(f.clone())]),
        E::Proj(x, i) => l("proj", vec![expr_sx(x), a(i.to_string())]),
        E::Call(f, args) => {
            let mut c = vec![expr_sx(f)];
            c.extend(args.iter().map(expr_sx));
            l("call", c)
        }
        E::Tuple(xs) => l("tuple", xs.iter().map(expr_sx).collect()),
        E::Array(xs) => l("array", xs.iter().map(expr_sx).collect()),
        E::StructLit(p, fs) => {
            let mut c = vec![path_sx(p)];
            c.extend(fs.iter().map(|(n, e)| l("init", vec![a(n.clone()), expr_sx(e)])));
            l("struct-lit", c)
        }
        E::Closure(ps, b) => l(
            "closure",
            vec![
                l("params", ps.iter().map(|(n, t)| l("param", vec![a(n.clone()), opt_ty_sx(t)])).collect()),
                expr_sx(b),
            ],
        ),
        E::If(c, t, e) => l("if", vec![expr_sx(c), expr_sx(t), expr_sx(e)]),
        E::Match(s, arms) => {
            let mut c = vec![expr_sx(s)];
            c.extend(arms.iter().map(|(p, e)| l("arm", vec![pat_sx(p), expr_sx(e)])));
            l("match", c)
        }
        E::While(c, b) => l("while", vec![expr_sx(c), expr_sx(b)]),
        E::Go(x) => l("go", vec![expr_sx(x)]),
        E::Block(xs) => l("block", xs.iter().map(expr_sx).collect()),
        E::Let(p, t, v) => l("let", vec![pat_sx(p), opt_ty_sx(t), expr_sx(v)]),
    }
}

fn attrs_sx(at: &[String]) -> Sx {
    l("attrs", at.iter().map(|s| q(s)).collect())
}
fn params_sx(ps: &[(String, Ty)]) -> Sx {
    l("params", ps.iter().map(|(n, t)| l("param", vec![a(n.clone()), ty_sx(t)])).collect())
}
fn names_sx(h: &str, ns: &[String]) -> Sx {
    l(h, ns.iter().map(|s| a(s.clone())).collect())
}

pub fn fn_sx(f: &FnDef) -> Sx {
    l(
        "fn",
        vec![
            attrs_sx(&f.attrs),
            a(f.name.clone()),
            l(
                "generics",
                f.generics
                    .iter()
                    .map(|(n, b)| {
                        let mut c = vec![a(n.clone())];
                        c.extend(b.iter().map(path_sx));
                        l("generic", c)
                    })
                    .collect(),
            ),
            params_sx(&f.params),
            opt_ty_sx(&f.ret),
            expr_sx(&f.body),
        ],
    )
}

pub fn item_sx(it: &Item) -> Sx {
    match it {
        Item::Fn(f) => fn_sx(f),
        Item::Struct { attrs, name, generics, fields } => l(
            "struct",
            vec![attrs_sx(attrs), a(name.clone()), names_sx("generics", generics), params_sx(fields)],
        ),
        Item::Enum { attrs, name, generics, variants } => l(
            "enum",
            vec![
                attrs_sx(attrs),
                a(name.clone()),
                names_sx("generics", generics),
                l(
                    "variants",
                    variants
                        .iter()
                        .map(|(n, ts)| {
                            let mut c = vec![a(n.clone())];
                            c.extend(ts.iter().map(ty_sx));
                            l("variant", c)
                        })
                        .collect(),
                ),
            ],
        ),
        Item::Trait { attrs, name, methods } => l(
            "trait",
            vec![
                attrs_sx(attrs),
                a(name.clone()),
                l(
                    "methods",
                    methods
                        .iter()
                        .map(|(n, ps, r)| l("sig", vec![a(n.clone()), l("params", ps.iter().map(ty_sx).collect()), ty_sx(r)]))
                        .collect(),
                ),
            ],
        ),
        Item::Impl { attrs, generics, trait_name, for_ty, methods } => l(
            "impl",
            vec![
                attrs_sx(attrs),
                names_sx("generics", generics),
                match trait_name {
                    None => a("inherent"),
                    Some(p) => l("for-trait", vec![path_sx(p)]),
                },
                ty_sx(for_ty),
                l("methods", methods.iter().map(fn_sx).collect()),
            ],
        ),
        Item::ExternGo { attrs, pkg, sym, name, params, ret } => l(
            "extern-go",
            vec![
                attrs_sx(attrs),
                q(pkg),
                match sym {
                    None => a("none"),
                    Some(s) => q(s),
                },
                a(name.clone()),
                params_sx(params),
                opt_ty_sx(ret),
            ],
        ),
        Item::ExternType { attrs, name } => l("extern-type", vec![attrs_sx(attrs), a(name.clone())]),
        Item::ExternBuiltin { attrs, name, params, ret } => l(
            "extern-builtin",
            vec![attrs_sx(attrs), a(name.clone()), params_sx(params), opt_ty_sx(ret)],
        ),
    }
}

pub fn file_sx(f: &File) -> Sx {
    let mut c = vec![l("package", vec![a(f.package.clone())]), names_sx("imports", &f.imports)];
    c.extend(f.items.iter().map(item_sx));
    l("file", c)
}

pub fn render_file(f: &File) -> String {
    file_sx(f).render()
}

// ---------------------------------------------------------------------------
// converter from the compiler's AST (structural; positions are dropped).
// lower.rs makes `ParenExpr` transparent (it lowers the inner expression), so
// there is no paren node to skip here.

fn path_of(p: &ast::ast::Path) -> Path {
    p.segments().iter().map(|s| s.ident().0.clone()).collect()
}

pub fn ty_from_ast(t: &ast::ast::TypeExpr) -> Ty {
    use ast::ast::TypeExpr as T;
    match t {
        T::TUnit => Ty::Prim("unit"),
        T::TBool => Ty::Prim("bool"),
        T::TInt8 => Ty::Prim("int8"),
        T::TInt16 => Ty::Prim("int16"),
        T::TInt32 => Ty::Prim("int32"),
        T::TInt64 => Ty::Prim("int64"),
        T::TUint8 => Ty::Prim("uint8"),
        T::TUint16 => Ty::Prim("uint16"),
        T::TUint32 => Ty::Prim("uint32"),
        T::TUint64 => Ty::Prim("uint64"),
        T::TFloat32 => Ty::Prim("float32"),
        T::TFloat64 => Ty::Prim("float64"),
        T::TString => Ty::Prim("string"),
        T::TTuple { typs } => Ty::Tuple(typs.iter().map(ty_from_ast).collect()),
        T::TCon { path } => Ty::Con(path_of(path)),
        T::TDyn { trait_path } => Ty::Dyn(path_of(trait_path)),
        T::TApp { ty, args } => match ty.as_ref() {
            T::TCon { path } => Ty::App(path_of(path), args.iter().map(ty_from_ast).collect()),
            other => Ty::Other(format!("{:?}", other)),
        },
        T::TArray { len, elem } => Ty::Array(Box::new(ty_from_ast(elem)), *len),
        T::TFunc { params, ret_ty } => Ty::Func(params.iter().map(ty_from_ast).collect(), Box::new(ty_from_ast(ret_ty))),
    }
}

pub fn pat_from_ast(p: &ast::ast::Pat) -> Pat {
    use ast::ast::Pat as P;
    match p {
        P::PVar { name, .. } => Pat::Var(name.0.clone()),
        P::PUnit { .. } => Pat::Unit,
        P::PBool { value, .. } => Pat::Bool(*value),
        P::PInt { value, .. } => Pat::Int(value.clone(), ""),
        P::PInt8 { value, .. } => Pat::Int(value.clone(), "i8"),
        P::PInt16 { value, .. } => Pat::Int(value.clone(), "i16"),
        P::PInt32 { value, .. } => Pat::Int(value.clone(), "i32"),
        P::PInt64 { value, .. } => Pat::Int(value.clone(), "i64"),
        P::PUInt8 { value, .. } => Pat::Int(value.clone(), "u8"),
        P::PUInt16 { value, .. } => Pat::Int(value.clone(), "u16"),
        P::PUInt32 { value, .. } => Pat::Int(value.clone(), "u32"),
        P::PUInt64 { value, .. } => Pat::Int(value.clone(), "u64"),
        P::PString { value, .. } => Pat::Str(value.clone()),
        P::PConstr { constructor, args, .. } => Pat::Constr(path_of(constructor), args.iter().map(pat_from_ast).collect()),
        P::PStruct { name, fields, .. } => {
            Pat::Struct(path_of(name), fields.iter().map(|(n, p)| (n.0.clone(), pat_from_ast(p))).collect())
        }
        P::PTuple { pats, .. } => Pat::Tuple(pats.iter().map(pat_from_ast).collect()),
        P::PWild { .. } => Pat::Wild,
    }
}

pub fn expr_from_ast(e: &ast::ast::Expr) -> E {
    use ast::ast::Expr as X;
    let b = |e: &ast::ast::Expr| Box::new(expr_from_ast(e));
    let v = |es: &Vec<ast::ast::Expr>| es.iter().map(expr_from_ast).collect::<Vec<_>>();
    match e {
        X::EPath { path, .. } => E::Path(path_of(path)),
        X::EUnit { .. } => E::Unit,
        X::EBool { value, .. } => E::Bool(*value),
        X::EInt { value, .. } => E::Int(value.clone(), ""),
        X::EInt8 { value, .. } => E::Int(value.clone(), "i8"),
        X::EInt16 { value, .. } => E::Int(value.clone(), "i16"),
        X::EInt32 { value, .. } => E::Int(value.clone(), "i32"),
        X::EInt64 { value, .. } => E::Int(value.clone(), "i64"),
        X::EUInt8 { value, .. } => E::Int(value.clone(), "u8"),
        X::EUInt16 { value, .. } => E::Int(value.clone(), "u16"),
        X::EUInt32 { value, .. } => E::Int(value.clone(), "u32"),
        X::EUInt64 { value, .. } => E::Int(value.clone(), "u64"),
        X::EFloat { value, .. } => E::Float(format!("{:?}", value), ""),
        X::EFloat32 { value, .. } => E::Float(value.clone(), "f32"),
        X::EFloat64 { value, .. } => E::Float(value.clone(), "f64"),
        X::EString { value, .. } => E::Str(value.clone()),
        X::EConstr { constructor, args, .. } => E::Constr(path_of(constructor), v(args)),
        X::EStructLiteral { name, fields, .. } => {
            E::StructLit(path_of(name), fields.iter().map(|(n, e)| (n.0.clone(), expr_from_ast(e))).collect())
        }
        X::ETuple { items, .. } => E::Tuple(v(items)),
        X::EArray { items, .. } => E::Array(v(items)),
        X::ELet { pat, annotation, value, .. } => E::Let(pat_from_ast(pat), annotation.as_ref().map(ty_from_ast), b(value)),
        X::EClosure { params, body, .. } => E::Closure(
            params.iter().map(|p| (p.name.0.clone(), p.ty.as_ref().map(ty_from_ast))).collect(),
            b(body),
        ),
        X::EMatch { expr, arms, .. } => {
            E::Match(b(expr), arms.iter().map(|a| (pat_from_ast(&a.pat), expr_from_ast(&a.body))).collect())
        }
        X::EIf { cond, then_branch, else_branch, .. } => E::If(b(cond), b(then_branch), b(else_branch)),
        X::EWhile { cond, body, .. } => E::While(b(cond), b(body)),
        X::EGo { expr, .. } => E::Go(b(expr)),
        X::ECall { func, args, .. } => E::Call(b(func), v(args)),
        X::EUnary { op, expr, .. } => E::Unary(if op.symbol() == "-" { "-" } else { "!" }, b(expr)),
        X::EBinary { op, lhs, rhs, .. } => E::Binary(op.symbol(), b(lhs), b(rhs)),
        X::EProj { tuple, index, .. } => E::Proj(b(tuple), *index),
        X::EField { expr, field, .. } => E::Field(b(expr), field.0.clone()),
        X::EBlock { exprs, .. } => E::Block(v(exprs)),
    }
}

fn attrs_from_ast(a: &[ast::ast::Attribute]) -> Vec<String> {
    a.iter().map(|x| x.text.trim().to_string()).collect()
}

fn params_from_ast(ps: &[(ast::ast::AstIdent, ast::ast::TypeExpr)]) -> Vec<(String, Ty)> {
    ps.iter().map(|(n, t)| (n.0.clone(), ty_from_ast(t))).collect()
}

pub fn fn_from_ast(f: &ast::ast::Fn) -> FnDef {
    FnDef {
        attrs: attrs_from_ast(&f.attrs),
        name: f.name.0.clone(),
        generics: f
            .generics
            .iter()
            .map(|g| {
                let bounds = f
                    .generic_bounds
                    .iter()
                    .filter(|(n, _)| n == g)
                    .flat_map(|(_, ps)| ps.iter().map(path_of))
                    .collect();
                (g.0.clone(), bounds)
            })
            .collect(),
        params: params_from_ast(&f.params),
        ret: f.ret_ty.as_ref().map(ty_from_ast),
        body: expr_from_ast(&f.body),
    }
}

/// number of impl blocks `derive::expand` appends after an item with these attributes
pub fn derive_count(attrs: &[String]) -> usize {
    let mut n = 0;
    for t in ["ToString", "ToJson"] {
        if attrs.iter().any(|a| {
            let a: String = a.chars().filter(|c| !c.is_whitespace()).collect();
            a.strip_prefix("#[derive(")
                .and_then(|r| r.strip_suffix(")]"))
                .map_or(false, |inner| inner.split(',').any(|x| x == t))
        }) {
            n += 1;
        }
    }
    n
}

pub fn item_from_ast(it: &ast::ast::Item) -> Item {
    use ast::ast::Item as I;
    let names = |v: &Vec<ast::ast::AstIdent>| v.iter().map(|x| x.0.clone()).collect::<Vec<_>>();
    match it {
        I::Fn(f) => Item::Fn(fn_from_ast(f)),
        I::StructDef(s) => Item::Struct {
            attrs: attrs_from_ast(&s.attrs),
            name: s.name.0.clone(),
            generics: names(&s.generics),
            fields: params_from_ast(&s.fields),
        },
        I::EnumDef(e) => Item::Enum {
            attrs: attrs_from_ast(&e.attrs),
            name: e.name.0.clone(),
            generics: names(&e.generics),
            variants: e.variants.iter().map(|(n, ts)| (n.0.clone(), ts.iter().map(ty_from_ast).collect())).collect(),
        },
        I::TraitDef(t) => Item::Trait {
            attrs: attrs_from_ast(&t.attrs),
            name: t.name.0.clone(),
            methods: t
                .method_sigs
                .iter()
                .map(|m| (m.name.0.clone(), m.params.iter().map(ty_from_ast).collect(), ty_from_ast(&m.ret_ty)))
                .collect(),
        },
        I::ImplBlock(b) => Item::Impl {
            attrs: attrs_from_ast(&b.attrs),
            generics: names(&b.generics),
            trait_name: b.trait_name.as_ref().map(path_of),
            for_ty: ty_from_ast(&b.for_type),
            methods: b.methods.iter().map(fn_from_ast).collect(),
        },
        I::ExternGo(x) => Item::ExternGo {
            attrs: attrs_from_ast(&x.attrs),
            pkg: x.package_path.clone(),
            sym: if x.explicit_go_symbol { Some(x.go_symbol.clone()) } else { None },
            name: x.goml_name.0.clone(),
            params: params_from_ast(&x.params),
            ret: x.ret_ty.as_ref().map(ty_from_ast),
        },
        I::ExternType(x) => Item::ExternType { attrs: attrs_from_ast(&x.attrs), name: x.goml_name.0.clone() },
        I::ExternBuiltin(x) => Item::ExternBuiltin {
            attrs: attrs_from_ast(&x.attrs),
            name: x.name.0.clone(),
            params: params_from_ast(&x.params),
            ret: x.ret_ty.as_ref().map(ty_from_ast),
        },
    }
}

/// `parse_ast_file` runs derive expansion: every struct/enum carrying
/// `#[derive(ToString|ToJson)]` is followed by one generated impl per target.
/// Those generated impls are skipped (and counted) so that only the items
/// that were written are compared.
pub fn file_from_ast(f: &ast::ast::File) -> (File, usize) {
    let mut items = vec![];
    let mut skip = 0usize;
    let mut skipped = 0usize;
    for it in &f.toplevels {
        if skip > 0 {
            if let ast::ast::Item::ImplBlock(b) = it {
                if b.attrs.is_empty() && b.trait_name.is_none() {
                    skip -= 1;
                    skipped += 1;
                    continue;
                }
            }
            skip = 0;
        }
        let t = item_from_ast(it);
        if let Item::Struct { attrs, .. } | Item::Enum { attrs, .. } = &t {
            skip = derive_count(attrs);
        }
        items.push(t);
    }
    (
        File { package: f.package.0.clone(), imports: f.imports.iter().map(|x| x.0.clone()).collect(), items },
        skipped,
    )
}

// ---------------------------------------------------------------------------
// printer: tree -> tokens -> text with trivia

#[derive(Clone, Copy, PartialEq, Eq, Debug)]
pub enum K {
    Ident,
    Kw,
    /// unsuffixed integer literal / tuple index (a following `.digits` would lex as a float)
    Int,
    /// any other numeric literal
    Num,
    Str,
    /// multi-line string: runs to the end of its line, a newline must follow
    Mls,
    Sym,
}

#[derive(Clone, Debug)]
pub struct Tok {
    pub text: String,
    pub k: K,
    /// whitespace is required before this token for lexical reasons
    pub space_before: bool,
    /// the token is a whole `#[...]` attribute
    pub attr: bool,
}

pub const OR: u8 = 1;
pub const AND: u8 = 2;
pub const EQ: u8 = 3;
pub const CMP: u8 = 4;
pub const ADD: u8 = 5;
pub const MUL: u8 = 6;
pub const PREFIX: u8 = 7;
pub const POSTFIX: u8 = 8;
pub const ATOM: u8 = 9;

pub const BINOPS: [&str; 12] = ["+", "-", "*", "/", "<", ">", "<=", ">=", "==", "!=", "&&", "||"];

/// The documented precedence levels (AGENTS.md / property C11): `||` < `&&` <
/// `== !=` < `< > <= >=` < `+ -` < `* /` < unary `- !` < field access, calls.
pub fn binop_prec(op: &str) -> u8 {
    match op {
        "||" => OR,
        "&&" => AND,
        "==" | "!=" => EQ,
        "<" | ">" | "<=" | ">=" => CMP,
        "+" | "-" => ADD,
        _ => MUL,
    }
}

pub fn prec_of(e: &E) -> u8 {
    match e {
        E::Binary(op, ..) => binop_prec(op),
        E::Unary(..) => PREFIX,
        E::Field(..) | E::Proj(..) | E::Call(..) => POSTFIX,
        _ => ATOM,
    }
}

fn is_block(e: &E) -> bool {
    matches!(e, E::Block(_))
}

/// Forms whose last sub-expression is parsed with `expr(p)` (binding power 0)
/// and therefore swallow any operator that follows: `|x| e`, `go e`,
/// `if c {..} else e` (including `else if`), `while c e`.  (parser/expr.rs:
/// closure_body, T![go], EXPR_IF_ELSE and EXPR_WHILE_BODY all call
/// expect_expr_with_message.)  Block-bodied closures are complete atoms in the
/// implementation, but nothing documents that, so they are parenthesised too.
pub fn right_open(e: &E) -> bool {
    match e {
        E::Closure(..) | E::Go(_) => true,
        E::If(_, _, els) => !is_block(els),
        E::While(_, body) => !is_block(body),
        _ => false,
    }
}

#[derive(Clone, Copy, Default)]
pub struct PrintOpts {
    /// deliberately wrong printer (sensitivity check): never emit the
    /// parentheses required by precedence / right-open forms
    pub omit_parens: bool,
    /// wrap every sub-expression in (redundant) parentheses
    pub full_parens: bool,
    /// never put a `//` comment directly after an attribute (gate)
    pub no_comment_after_attr: bool,
}

pub struct Printer<'a, 'b> {
    pub toks: Vec<Tok>,
    d: &'a mut Dec<'b>,
    pub opts: PrintOpts,
    /// parenthesis pairs that were required by the grammar
    pub needed_parens: u32,
}

impl<'a, 'b> Printer<'a, 'b> {
    pub fn new(d: &'a mut Dec<'b>, opts: PrintOpts) -> Self {
        Printer { toks: vec![], d, opts, needed_parens: 0 }
    }
    fn push(&mut self, text: &str, k: K) {
        self.toks.push(Tok { text: text.to_string(), k, space_before: false, attr: false });
    }
    fn sym(&mut self, s: &str) {
        self.push(s, K::Sym)
    }
    fn kw(&mut self, s: &str) {
        self.push(s, K::Kw)
    }
    fn ident(&mut self, s: &str) {
        self.push(s, K::Ident)
    }
    fn last_kind(&self) -> Option<K> {
        self.toks.last().map(|t| t.k)
    }
    fn wrap_from(&mut self, start: usize) {
        self.toks.insert(start, Tok { text: "(".into(), k: K::Sym, space_before: false, attr: false });
        self.sym(")");
    }
    fn comma_opt(&mut self) {
        if self.d.chance(64) {
            self.sym(",");
        }
    }

    pub fn path(&mut self, p: &Path) {
        for (i, s) in p.iter().enumerate() {
            if i > 0 {
                self.sym("::");
            }
            self.ident(s);
        }
    }

    // ------------------------------------------------------------- types
    pub fn ty(&mut self, t: &Ty) {
        match t {
            Ty::Prim(s) => self.kw(s),
            Ty::Tuple(ts) => {
                self.sym("(");
                for (i, x) in ts.iter().enumerate() {
                    if i > 0 {
                        self.sym(",");
                    }
                    self.ty(x);
                }
                if !ts.is_empty() {
                    self.comma_opt();
                }
                self.sym(")");
            }
            Ty::Con(p) => self.path(p),
            Ty::App(p, args) => {
                self.path(p);
                self.sym("[");
                for (i, x) in args.iter().enumerate() {
                    if i > 0 {
                        self.sym(",");
                    }
                    self.ty(x);
                }
                self.comma_opt();
                self.sym("]");
            }
            Ty::Dyn(p) => {
                self.kw("dyn");
                self.path(p);
            }
            Ty::Array(t, n) => {
                self.sym("[");
                self.ty(t);
                self.sym(";");
                self.push(&n.to_string(), K::Int);
                self.sym("]");
            }
            Ty::Func(ps, r) => {
                // `A -> R` and `(A) -> R` are the same type (lower_ty flattens
                // a tuple on the left of `->`); a tuple or function parameter
                // must stay inside the parameter parentheses.  `->` is right
                // associative (binding power 5,4).
                let atomic = ps.len() == 1 && matches!(ps[0], Ty::Prim(_) | Ty::Con(_) | Ty::App(..) | Ty::Dyn(_) | Ty::Array(..));
                if atomic && self.d.chance(96) {
                    self.ty(&ps[0]);
                } else {
                    self.sym("(");
                    for (i, x) in ps.iter().enumerate() {
                        if i > 0 {
                            self.sym(",");
                        }
                        self.ty(x);
                    }
                    if !ps.is_empty() {
                        self.comma_opt();
                    }
                    self.sym(")");
                }
                self.sym("->");
                self.ty(r);
            }
            Ty::Other(s) => self.ident(s),
        }
    }

    // ---------------------------------------------------------- patterns
    pub fn pat(&mut self, p: &Pat) {
        match p {
            Pat::Wild => self.kw("_"),
            Pat::Var(s) => self.ident(s),
            Pat::Unit => {
                self.sym("(");
                self.sym(")");
            }
            Pat::Bool(b) => self.kw(if *b { "true" } else { "false" }),
            Pat::Int(d, s) => self.push(&format!("{d}{s}"), if s.is_empty() { K::Int } else { K::Num }),
            Pat::Str(s) => self.push(&quote_plain(s), K::Str),
            Pat::Constr(path, args) => {
                self.path(path);
                if !args.is_empty() {
                    self.sym("(");
                    for (i, x) in args.iter().enumerate() {
                        if i > 0 {
                            self.sym(",");
                        }
                        self.pat(x);
                    }
                    self.comma_opt();
                    self.sym(")");
                }
            }
            Pat::Struct(path, fs) => {
                self.path(path);
                self.sym("{");
                for (i, (n, x)) in fs.iter().enumerate() {
                    if i > 0 {
                        self.sym(",");
                    }
                    self.ident(n);
                    let shorthand = matches!(x, Pat::Var(v) if v == n) && self.d.chance(128);
                    if !shorthand {
                        self.sym(":");
                        self.pat(x);
                    }
                }
                if !fs.is_empty() {
                    self.comma_opt();
                }
                self.sym("}");
            }
            Pat::Tuple(ps) => {
                // `(p)` is a one-element tuple pattern (there is no paren pattern)
                self.sym("(");
                for (i, x) in ps.iter().enumerate() {
                    if i > 0 {
                        self.sym(",");
                    }
                    self.pat(x);
                }
                if !ps.is_empty() {
                    self.comma_opt();
                }
                self.sym(")");
            }
        }
    }

    // ------------------------------------------------------- expressions

    /// `min`: lowest precedence level that may appear here without
    /// parentheses; `followed`: an operator that a right-open form would
    /// swallow may follow this expression (it is a left operand, the operand
    /// of a postfix operator, or the head of if/while/match).
    pub fn expr(&mut self, e: &E, min: u8, followed: bool) {
        let need = prec_of(e) < min || (right_open(e) && followed);
        let redundant = self.opts.full_parens && !matches!(e, E::Block(_) | E::Let(..));
        if need && !self.opts.omit_parens {
            self.needed_parens += 1;
        }
        if (need && !self.opts.omit_parens) || redundant {
            self.sym("(");
            self.expr_inner(e, false);
            self.sym(")");
        } else {
            self.expr_inner(e, followed);
        }
    }

    fn args(&mut self, args: &[E]) {
        self.sym("(");
        for (i, x) in args.iter().enumerate() {
            if i > 0 {
                self.sym(",");
            }
            self.expr(x, 0, false);
        }
        if !args.is_empty() {
            self.comma_opt();
        }
        self.sym(")");
    }

    /// a Block in body position, or a bare expression
    fn body(&mut self, e: &E, allow_empty: bool, followed: bool) {
        match e {
            E::Block(b) => self.block(b, allow_empty),
            other => self.expr(other, 0, followed),
        }
    }

    pub fn block(&mut self, b: &[E], allow_empty: bool) {
        self.sym("{");
        let n = b.len();
        for (i, s) in b.iter().enumerate() {
            // block() accepts stray `;` between statements
            if self.d.chance(8) {
                self.sym(";");
            }
            let last = i + 1 == n;
            match s {
                E::Let(p, t, v) => {
                    self.kw("let");
                    self.pat(p);
                    if let Some(t) = t {
                        self.sym(":");
                        self.ty(t);
                    }
                    self.sym("=");
                    self.expr(v, 0, false);
                    self.sym(";");
                }
                E::Unit if last => {
                    // no trailing expression and an explicit `()` are the
                    // same tree.  `{}` directly after a head that ends in an
                    // identifier would be read as a struct literal
                    // (looks_like_struct_literal), so `()` is forced there.
                    let must = n == 1 && !allow_empty;
                    if must || self.d.chance(64) {
                        self.sym("(");
                        self.sym(")");
                    }
                }
                other => {
                    self.expr(other, 0, false);
                    // every non-final expression needs its `;` (there is no
                    // block-like-statement rule in parser/file.rs block())
                    if !last {
                        self.sym(";");
                    }
                }
            }
        }
        self.sym("}");
    }

    fn expr_inner(&mut self, e: &E, followed: bool) {
        match e {
            E::Int(d, s) => self.push(&format!("{d}{s}"), if s.is_empty() { K::Int } else { K::Num }),
            E::Float(d, s) => self.push(&format!("{d}{s}"), K::Num),
            E::Str(s) => {
                if s.contains('\n') {
                    let t = multiline_spelling(s, self.d);
                    self.push(&t, K::Mls);
                } else {
                    self.push(&quote_plain(s), K::Str);
                }
            }
            E::Bool(b) => self.kw(if *b { "true" } else { "false" }),
            E::Unit => {
                self.sym("(");
                self.sym(")");
            }
            E::Path(p) => self.path(p),
            E::Constr(p, args) => {
                self.path(p);
                if !args.is_empty() {
                    self.args(args);
                }
            }
            E::Unary(op, x) => {
                // `--x` / `-(-x)`: the lexer has no `--` token, so nested
                // prefix operators need neither parentheses nor a space;
                // `-1` is Unary(-, 1) (there are no negative literals).
                self.sym(op);
                self.expr(x, PREFIX, followed);
            }
            E::Binary(op, x, y) => {
                let p = binop_prec(op);
                self.expr(x, p, true);
                self.sym(op);
                self.expr(y, p + 1, followed);
            }
            E::Field(x, f) => {
                self.expr(x, POSTFIX, true);
                self.sym(".");
                self.ident(f);
            }
            E::Proj(x, i) => {
                let start = self.toks.len();
                self.expr(x, POSTFIX, true);
                let mut force_space = false;
                if self.last_kind() == Some(K::Int) {
                    // `t.0.1` / `1.0` would lex `0.1` / `1.0` as a float:
                    // lexically forced `(t.0).1`, or `t.0 .1`
                    // (the deliberately wrong printer must not get its
                    // parentheses back through this lexical rule)
                    if self.opts.omit_parens || self.d.chance(96) {
                        force_space = true;
                    } else {
                        self.wrap_from(start);
                    }
                }
                self.sym(".");
                if force_space {
                    if let Some(t) = self.toks.last_mut() {
                        t.space_before = true;
                    }
                }
                self.push(&i.to_string(), K::Int);
            }
            E::Call(f, args) => {
                self.expr(f, POSTFIX, true);
                self.args(args);
            }
            E::Tuple(xs) => {
                self.sym("(");
                for (i, x) in xs.iter().enumerate() {
                    if i > 0 {
                        self.sym(",");
                    }
                    self.expr(x, 0, false);
                }
                // `(a)` is a parenthesised expression: one-element tuples need the comma
                if xs.len() == 1 {
                    self.sym(",");
                } else if !xs.is_empty() {
                    self.comma_opt();
                }
                self.sym(")");
            }
            E::Array(xs) => {
                self.sym("[");
                for (i, x) in xs.iter().enumerate() {
                    if i > 0 {
                        self.sym(",");
                    }
                    self.expr(x, 0, false);
                }
                if !xs.is_empty() {
                    self.comma_opt();
                }
                self.sym("]");
            }
            E::StructLit(p, fs) => {
                self.path(p);
                self.sym("{");
                let mut first_shorthand = false;
                for (i, (n, x)) in fs.iter().enumerate() {
                    if i > 0 {
                        self.sym(",");
                    }
                    self.ident(n);
                    let shorthand = matches!(x, E::Path(v) if v.len() == 1 && &v[0] == n) && self.d.chance(128);
                    if shorthand {
                        if i == 0 {
                            first_shorthand = true;
                        }
                    } else {
                        self.sym(":");
                        self.expr(x, 0, false);
                    }
                }
                // looks_like_struct_literal needs `{ ident :` or `{ ident ,`
                // or `{ }`: a single shorthand field must keep its comma
                if fs.len() == 1 && first_shorthand {
                    self.sym(",");
                } else if !fs.is_empty() {
                    self.comma_opt();
                }
                self.sym("}");
            }
            E::Closure(ps, b) => {
                if ps.is_empty() && !self.d.chance(48) {
                    self.sym("||");
                } else {
                    self.sym("|");
                    for (i, (n, t)) in ps.iter().enumerate() {
                        if i > 0 {
                            self.sym(",");
                        }
                        self.ident(n);
                        if let Some(t) = t {
                            self.sym(":");
                            self.ty(t);
                        }
                    }
                    if !ps.is_empty() {
                        self.comma_opt();
                    }
                    self.sym("|");
                }
                self.body(b, true, false);
            }
            E::If(c, t, els) => {
                self.kw("if");
                self.expr(c, 0, true);
                let ident_end = self.last_kind() == Some(K::Ident);
                self.body(t, !ident_end, false);
                self.kw("else");
                self.body(els, true, false);
            }
            E::While(c, b) => {
                self.kw("while");
                self.expr(c, 0, true);
                let ident_end = self.last_kind() == Some(K::Ident);
                self.body(b, !ident_end, false);
            }
            E::Match(s, arms) => {
                self.kw("match");
                let start = self.toks.len();
                self.expr(s, 0, true);
                if arms.is_empty() && self.last_kind() == Some(K::Ident) {
                    // `match x {}` would read `x {}` as a struct literal
                    self.wrap_from(start);
                }
                self.sym("{");
                let n = arms.len();
                for (i, (p, b)) in arms.iter().enumerate() {
                    self.pat(p);
                    self.sym("=>");
                    let last = i + 1 == n;
                    match b {
                        E::Block(stmts) => {
                            self.block(stmts, true);
                            // match_arm parses a block body with block(p): no
                            // postfix can continue it, the comma is optional
                            if self.d.chance(128) {
                                self.sym(",");
                            }
                        }
                        other => {
                            self.expr(other, 0, false);
                            if !last || self.d.chance(128) {
                                self.sym(",");
                            }
                        }
                    }
                }
                self.sym("}");
            }
            E::Go(x) => {
                self.kw("go");
                self.expr(x, 0, false);
            }
            E::Block(b) => self.block(b, true),
            E::Let(p, t, v) => {
                // only valid inside a block; printed for completeness
                self.kw("let");
                self.pat(p);
                if let Some(t) = t {
                    self.sym(":");
                    self.ty(t);
                }
                self.sym("=");
                self.expr(v, 0, false);
                self.sym(";");
            }
        }
        let _ = followed;
    }

    // -------------------------------------------------------------- items
    fn attrs(&mut self, at: &[String]) {
        for x in at {
            // one token: the AST keeps the attribute's raw text
            self.push(x, K::Sym);
            if let Some(t) = self.toks.last_mut() {
                t.attr = true;
            }
        }
    }

    fn params(&mut self, ps: &[(String, Ty)]) {
        self.sym("(");
        for (i, (n, t)) in ps.iter().enumerate() {
            if i > 0 {
                self.sym(",");
            }
            self.ident(n);
            self.sym(":");
            self.ty(t);
        }
        if !ps.is_empty() {
            self.comma_opt();
        }
        self.sym(")");
    }

    fn names(&mut self, ns: &[String]) {
        if ns.is_empty() {
            return;
        }
        self.sym("[");
        for (i, n) in ns.iter().enumerate() {
            if i > 0 {
                self.sym(",");
            }
            self.ident(n);
        }
        self.comma_opt();
        self.sym("]");
    }

    pub fn fn_def(&mut self, f: &FnDef) {
        self.attrs(&f.attrs);
        self.kw("fn");
        self.ident(&f.name);
        if !f.generics.is_empty() {
            self.sym("[");
            for (i, (n, bounds)) in f.generics.iter().enumerate() {
                if i > 0 {
                    self.sym(",");
                }
                self.ident(n);
                for (j, b) in bounds.iter().enumerate() {
                    self.sym(if j == 0 { ":" } else { "+" });
                    self.path(b);
                }
            }
            self.comma_opt();
            self.sym("]");
        }
        self.params(&f.params);
        if let Some(r) = &f.ret {
            self.sym("->");
            self.ty(r);
        }
        match &f.body {
            E::Block(b) => self.block(b, true),
            other => {
                // a fn body is always a block in the grammar
                self.sym("{");
                self.expr(other, 0, false);
                self.sym("}");
            }
        }
    }

    pub fn item(&mut self, it: &Item) {
        match it {
            Item::Fn(f) => self.fn_def(f),
            Item::Struct { attrs, name, generics, fields } => {
                self.attrs(attrs);
                self.kw("struct");
                self.ident(name);
                self.names(generics);
                self.sym("{");
                for (i, (n, t)) in fields.iter().enumerate() {
                    if i > 0 {
                        self.sym(",");
                    }
                    self.ident(n);
                    self.sym(":");
                    self.ty(t);
                }
                if !fields.is_empty() {
                    self.comma_opt();
                }
                self.sym("}");
            }
            Item::Enum { attrs, name, generics, variants } => {
                self.attrs(attrs);
                self.kw("enum");
                self.ident(name);
                self.names(generics);
                self.sym("{");
                for (i, (n, ts)) in variants.iter().enumerate() {
                    if i > 0 {
                        self.sym(",");
                    }
                    self.ident(n);
                    if !ts.is_empty() {
                        self.sym("(");
                        for (j, t) in ts.iter().enumerate() {
                            if j > 0 {
                                self.sym(",");
                            }
                            self.ty(t);
                        }
                        self.comma_opt();
                        self.sym(")");
                    }
                }
                if !variants.is_empty() {
                    self.comma_opt();
                }
                self.sym("}");
            }
            Item::Trait { attrs, name, methods } => {
                self.attrs(attrs);
                self.kw("trait");
                self.ident(name);
                self.sym("{");
                for (n, ps, r) in methods {
                    self.kw("fn");
                    self.ident(n);
                    self.sym("(");
                    for (j, t) in ps.iter().enumerate() {
                        if j > 0 {
                            self.sym(",");
                        }
                        self.ty(t);
                    }
                    if !ps.is_empty() {
                        self.comma_opt();
                    }
                    self.sym(")");
                    // an omitted return type is `unit` (lower_trait_method)
                    if *r != Ty::Prim("unit") || self.d.chance(96) {
                        self.sym("->");
                        self.ty(r);
                    }
                    // trait_method_list eats an optional `;`
                    if !self.d.chance(48) {
                        self.sym(";");
                    }
                }
                self.sym("}");
            }
            Item::Impl { attrs, generics, trait_name, for_ty, methods } => {
                self.attrs(attrs);
                self.kw("impl");
                self.names(generics);
                if let Some(t) = trait_name {
                    self.path(t);
                    self.kw("for");
                }
                self.ty(for_ty);
                self.sym("{");
                for m in methods {
                    self.fn_def(m);
                }
                self.sym("}");
            }
            Item::ExternGo { attrs, pkg, sym, name, params, ret } => {
                self.attrs(attrs);
                self.kw("extern");
                self.push("\"go\"", K::Str);
                self.push(&format!("\"{pkg}\""), K::Str);
                if let Some(s) = sym {
                    self.push(&format!("\"{s}\""), K::Str);
                }
                self.ident(name);
                self.params(params);
                if let Some(r) = ret {
                    self.sym("->");
                    self.ty(r);
                }
            }
            Item::ExternType { attrs, name } => {
                self.attrs(attrs);
                self.kw("extern");
                // `extern "go" "pkg" type T` lowers to the same ExternType
                // (the AST drops language and package)
                if self.d.chance(64) {
                    self.push("\"go\"", K::Str);
                    self.push("\"time\"", K::Str);
                }
                self.kw("type");
                self.ident(name);
            }
            Item::ExternBuiltin { attrs, name, params, ret } => {
                self.attrs(attrs);
                self.kw("extern");
                self.kw("fn");
                self.ident(name);
                self.params(params);
                if let Some(r) = ret {
                    self.sym("->");
                    self.ty(r);
                }
            }
        }
    }

    pub fn file(&mut self, f: &File) {
        if f.package != "Main" || self.d.chance(64) {
            self.kw("package");
            self.ident(&f.package);
        }
        for i in &f.imports {
            self.kw("import");
            self.ident(i);
        }
        for it in &f.items {
            self.item(it);
        }
    }
}

/// `"…"` spelling of a string without line feeds: raw characters wherever the
/// lexer's Str regex allows them, JSON escapes for `"`, `\` and controls.
pub fn quote_plain(s: &str) -> String {
    let mut o = String::from("\"");
    for c in s.chars() {
        match c {
            '"' => o.push_str("\\\""),
            '\\' => o.push_str("\\\\"),
            '\n' => o.push_str("\\n"),
            '\r' => o.push_str("\\r"),
            '\t' => o.push_str("\\t"),
            '\u{8}' => o.push_str("\\b"),
            '\u{c}' => o.push_str("\\f"),
            c if (c as u32) < 0x20 => o.push_str(&format!("\\u{:04x}", c as u32)),
            c => o.push(c),
        }
    }
    o.push('"');
    o
}

pub fn needs_escape(s: &str) -> bool {
    s.chars().any(|c| c == '"' || c == '\\' || (c as u32) < 0x20)
}

/// multi-line spelling: every line is `\\` + its text; continuation lines may
/// be indented with blanks/tabs (lex_multiline_str); the token ends before
/// the final newline, which `layout` supplies.
pub fn multiline_spelling(s: &str, d: &mut Dec) -> String {
    let mut o = String::new();
    for (i, line) in s.split('\n').enumerate() {
        if i > 0 {
            o.push('\n');
            o.push_str(d.pick(&["", "  ", "\t", "        ", " \t "]));
        }
        o.push_str("\\\\");
        o.push_str(line);
    }
    o
}

fn word_like(k: K) -> bool {
    matches!(k, K::Ident | K::Kw | K::Int | K::Num)
}

const MERGES: [&str; 10] = ["::", "->", "=>", "&&", "||", ">=", "<=", "==", "!=", "//"];

/// would the two tokens lex differently when written without a separator?
pub fn needs_sep(prev: &Tok, next: &Tok) -> bool {
    if next.space_before {
        return true;
    }
    if word_like(prev.k) && word_like(next.k) {
        return true;
    }
    if prev.k == K::Sym && next.k == K::Sym {
        if let (Some(x), Some(y)) = (prev.text.chars().last(), next.text.chars().next()) {
            let pair: String = [x, y].iter().collect();
            if MERGES.contains(&pair.as_str()) {
                return true;
            }
        }
    }
    false
}

const TRIVIA: [&str; 12] = [
    "", " ", "\n", "  ", "\t", " // c\n", "\n    ", "\r\n", "//\n", " //// é \\\\ \"x\" { ( \n", "\n\n", " \r\n\t",
];
const TRIVIA_W: [u32; 12] = [40, 90, 40, 10, 8, 14, 20, 6, 6, 6, 8, 8];

/// Join tokens with random trivia (whitespace, newlines, `//` comments)
/// wherever the lexer allows it; byte 0 = the tightest legal spelling.
pub fn layout(toks: &[Tok], d: &mut Dec, no_comment_after_attr: bool) -> String {
    let mut out = String::new();
    let mut prev: Option<&Tok> = None;
    for t in toks {
        let mut tr = TRIVIA[d.weighted(&TRIVIA_W)].to_string();
        if let Some(p) = prev {
            if p.attr && no_comment_after_attr && tr.contains("//") {
                tr = "\n".to_string();
            }
            if p.k == K::Mls && !tr.starts_with('\n') {
                tr.insert(0, '\n');
            }
            if tr.is_empty() && needs_sep(p, t) {
                tr.push(' ');
            }
            // `/` directly followed by a `//` comment would become `//` + `/…`
            if tr.starts_with('/') && p.text.ends_with('/') {
                tr.insert(0, ' ');
            }
        }
        out.push_str(&tr);
        out.push_str(&t.text);
        prev = Some(t);
    }
    let mut tail = TRIVIA[d.weighted(&TRIVIA_W)].to_string();
    if let Some(p) = prev {
        if p.attr && no_comment_after_attr && tail.contains("//") {
            tail = "\n".to_string();
        }
        if p.k == K::Mls && !tail.starts_with('\n') {
            tail.insert(0, '\n');
        }
        if tail.starts_with('/') && p.text.ends_with('/') {
            tail.insert(0, ' ');
        }
    }
    out.push_str(&tail);
    out
}

pub struct Printed {
    pub text: String,
    pub needed_parens: u32,
}

pub fn print_file(f: &File, d: &mut Dec, opts: PrintOpts) -> Printed {
    let (toks, needed) = {
        let mut p = Printer::new(d, opts);
        p.file(f);
        (std::mem::take(&mut p.toks), p.needed_parens)
    };
    Printed { text: layout(&toks, d, opts.no_comment_after_attr), needed_parens: needed }
}

// ---------------------------------------------------------------------------
// exhaustive operator trees

/// The 20 operators of the exhaustive phases.  Arity = number of expression
/// slots: binary l/r; `.f` `.0` `-` `!` `x()` `x.m()` one operand; `x(y)` =
/// callee + one argument; `x.m(y)` = receiver + one argument.
#[derive(Clone, Copy, Debug, PartialEq)]
pub enum Op {
    Bin(&'static str),
    Field,
    Proj,
    Neg,
    Not,
    Call,
    MCall,
    /// `x()` and `x.m()`
    Call0,
    MCall0,
}

pub const OPS: [Op; 20] = [
    Op::Field,
    Op::Proj,
    Op::Neg,
    Op::Not,
    Op::Call0,
    Op::MCall0,
    Op::Bin("+"),
    Op::Bin("-"),
    Op::Bin("*"),
    Op::Bin("/"),
    Op::Bin("<"),
    Op::Bin(">"),
    Op::Bin("<="),
    Op::Bin(">="),
    Op::Bin("=="),
    Op::Bin("!="),
    Op::Bin("&&"),
    Op::Bin("||"),
    Op::Call,
    Op::MCall,
];

fn arity(op: Op) -> usize {
    match op {
        Op::Field | Op::Proj | Op::Neg | Op::Not | Op::Call0 | Op::MCall0 => 1,
        _ => 2,
    }
}

/// number of trees with exactly n operator nodes
pub fn op_tree_count(n: usize) -> u64 {
    let mut t = vec![1u64; n + 1];
    for k in 1..=n {
        let mut s = 0u64;
        for op in OPS {
            if arity(op) == 1 {
                s += t[k - 1];
            } else {
                for i in 0..k {
                    s += t[i] * t[k - 1 - i];
                }
            }
        }
        t[k] = s;
    }
    t[n]
}

const ATOMS: [&str; 6] = ["a", "b", "c", "d", "e", "g"];

fn atom(next: &mut usize) -> E {
    let n = ATOMS[(*next).min(ATOMS.len() - 1)];
    *next += 1;
    E::Path(vec![n.to_string()])
}

fn build(op: Op, x: E, y: Option<E>) -> E {
    match op {
        Op::Bin(s) => E::Binary(s, Box::new(x), Box::new(y.unwrap_or(E::Unit))),
        Op::Field => E::Field(Box::new(x), "f".into()),
        Op::Proj => E::Proj(Box::new(x), 0),
        Op::Neg => E::Unary("-", Box::new(x)),
        Op::Not => E::Unary("!", Box::new(x)),
        Op::Call => E::Call(Box::new(x), vec![y.unwrap_or(E::Unit)]),
        Op::MCall => E::Call(Box::new(E::Field(Box::new(x), "m".into())), vec![y.unwrap_or(E::Unit)]),
        Op::Call0 => E::Call(Box::new(x), vec![]),
        Op::MCall0 => E::Call(Box::new(E::Field(Box::new(x), "m".into())), vec![]),
    }
}

/// the idx-th tree with n operator nodes (atoms a, b, c … in construction order)
pub fn op_tree(n: usize, mut idx: u64) -> E {
    fn go(n: usize, mut idx: u64, next: &mut usize) -> E {
        if n == 0 {
            return atom(next);
        }
        for op in OPS {
            if arity(op) == 1 {
                let c = op_tree_count(n - 1);
                if idx < c {
                    let x = go(n - 1, idx, next);
                    return build(op, x, None);
                }
                idx -= c;
            } else {
                for i in 0..n {
                    let (cl, cr) = (op_tree_count(i), op_tree_count(n - 1 - i));
                    let c = cl * cr;
                    if idx < c {
                        let x = go(i, idx / cr, next);
                        let y = go(n - 1 - i, idx % cr, next);
                        return build(op, x, Some(y));
                    }
                    idx -= c;
                }
            }
        }
        atom(next)
    }
    idx %= op_tree_count(n).max(1);
    let mut next = 0;
    go(n, idx, &mut next)
}

/// wrap an expression into a one-function file: 0 tail, 1 let value, 2 if head
pub fn wrap_expr(e: E, ctx_kind: u64) -> File {
    let body = match ctx_kind % 3 {
        0 => E::Block(vec![e]),
        1 => E::Block(vec![E::Let(Pat::Var("r".into()), None, Box::new(e)), E::Unit]),
        _ => E::Block(vec![E::If(
            Box::new(e),
            Box::new(E::Block(vec![E::Int("1".into(), "")])),
            Box::new(E::Block(vec![E::Int("2".into(), "")])),
        )]),
    };
    File {
        package: "Main".into(),
        imports: vec![],
        items: vec![Item::Fn(FnDef { attrs: vec![], name: "main".into(), generics: vec![], params: vec![], ret: None, body })],
    }
}

// ---------------------------------------------------------------------------
// shape analysis (labels, non-triviality)

#[derive(Default, Debug)]
pub struct Shapes {
    pub labels: BTreeSet<String>,
    /// two adjacent operators of different binding power, or prefix/postfix adjacency
    pub nontrivial: bool,
    pub nodes: usize,
    /// a call whose callee is not a path / call / field / tuple index
    pub callee_complex: bool,
    /// a prefix operator whose operand's postfix chain has a zero-argument
    /// call or continues after a call (`!f()`, `-f(1).x`)
    pub prefix_call: bool,
    pub has_call: bool,
}

/// see `Shapes::prefix_call`
pub fn prefix_call_hazard(operand: &E) -> bool {
    let mut s = operand;
    let mut outermost = true;
    loop {
        match s {
            E::Call(f, args) => {
                if args.is_empty() || !outermost {
                    return true;
                }
                s = f;
            }
            E::Field(y, _) | E::Proj(y, _) => s = y,
            _ => return false,
        }
        outermost = false;
    }
}

fn op_class(e: &E) -> Option<(&'static str, u8)> {
    match e {
        E::Binary(op, ..) => Some(("binary", binop_prec(op))),
        E::Unary(..) => Some(("prefix", PREFIX)),
        E::Field(..) | E::Proj(..) | E::Call(..) => Some(("postfix", POSTFIX)),
        _ => None,
    }
}

fn adj(sh: &mut Shapes, parent: &E, child: &E, right: bool) {
    let (Some((pc, pp)), Some((cc, cp))) = (op_class(parent), op_class(child)) else { return };
    if pp != cp {
        sh.nontrivial = true;
    }
    let lab = match (pc, cc) {
        ("binary", "binary") => {
            if pp == cp {
                if right { "shape:same-prec-right" } else { "shape:same-prec-left" }
            } else if cp < pp {
                "shape:looser-under-tighter"
            } else {
                "shape:tighter-under-looser"
            }
        }
        ("binary", "prefix") => "shape:binary-prefix",
        ("binary", "postfix") => "shape:binary-postfix",
        ("prefix", "binary") => "shape:prefix-binary",
        ("prefix", "prefix") => "shape:prefix-prefix",
        ("prefix", "postfix") => "shape:prefix-postfix",
        ("postfix", "binary") => "shape:postfix-binary",
        ("postfix", "prefix") => "shape:postfix-prefix",
        _ => "shape:postfix-postfix",
    };
    sh.labels.insert(lab.to_string());
}

pub fn shapes_ty(sh: &mut Shapes, t: &Ty) {
    sh.nodes += 1;
    let lab = match t {
        Ty::Prim(_) => "ty:prim",
        Ty::Tuple(ts) => {
            ts.iter().for_each(|x| shapes_ty(sh, x));
            "ty:tuple"
        }
        Ty::Con(p) => {
            if p.len() > 1 { "ty:path" } else { "ty:named" }
        }
        Ty::App(_, ts) => {
            ts.iter().for_each(|x| shapes_ty(sh, x));
            "ty:generic"
        }
        Ty::Dyn(_) => "ty:dyn",
        Ty::Array(t, _) => {
            shapes_ty(sh, t);
            "ty:array"
        }
        Ty::Func(ps, r) => {
            ps.iter().for_each(|x| shapes_ty(sh, x));
            shapes_ty(sh, r);
            if matches!(**r, Ty::Func(..)) {
                sh.labels.insert("ty:fn-returns-fn".into());
            }
            if ps.iter().any(|p| matches!(p, Ty::Func(..))) {
                sh.labels.insert("ty:fn-takes-fn".into());
            }
            "ty:fn"
        }
        Ty::Other(_) => "ty:other",
    };
    sh.labels.insert(lab.to_string());
}

pub fn shapes_pat(sh: &mut Shapes, p: &Pat) {
    sh.nodes += 1;
    let lab = match p {
        Pat::Wild => "pat:wild",
        Pat::Var(_) => "pat:var",
        Pat::Unit => "pat:unit",
        Pat::Bool(_) => "pat:bool",
        Pat::Int(..) => "pat:int",
        Pat::Str(_) => "pat:string",
        Pat::Constr(_, ps) => {
            ps.iter().for_each(|x| shapes_pat(sh, x));
            "pat:constr"
        }
        Pat::Struct(_, fs) => {
            fs.iter().for_each(|(_, x)| shapes_pat(sh, x));
            "pat:struct"
        }
        Pat::Tuple(ps) => {
            ps.iter().for_each(|x| shapes_pat(sh, x));
            "pat:tuple"
        }
    };
    sh.labels.insert(lab.to_string());
}

pub fn shapes_expr(sh: &mut Shapes, e: &E) {
    sh.nodes += 1;
    let lab: &str = match e {
        E::Int(_, s) => {
            if s.is_empty() { "expr:int" } else { "expr:int-suffixed" }
        }
        E::Float(_, s) => {
            if s.is_empty() { "expr:float" } else { "expr:float-suffixed" }
        }
        E::Str(s) => {
            if s.contains('\n') {
                "expr:multiline-string"
            } else if needs_escape(s) {
                "expr:string-escaped"
            } else {
                "expr:string"
            }
        }
        E::Bool(_) => "expr:bool",
        E::Unit => "expr:unit",
        E::Path(p) => {
            if p.len() > 1 { "expr:path" } else { "expr:ident" }
        }
        E::Constr(_, args) => {
            args.iter().for_each(|x| shapes_expr(sh, x));
            "expr:constr"
        }
        E::Unary(_, x) => {
            adj(sh, e, x, true);
            if prefix_call_hazard(x) {
                sh.prefix_call = true;
                sh.labels.insert("shape:prefix-call-chain".into());
            }
            shapes_expr(sh, x);
            "expr:unary"
        }
        E::Binary(_, x, y) => {
            adj(sh, e, x, false);
            adj(sh, e, y, true);
            shapes_expr(sh, x);
            shapes_expr(sh, y);
            "expr:binary"
        }
        E::Field(x, _) => {
            adj(sh, e, x, false);
            shapes_expr(sh, x);
            "expr:field"
        }
        E::Proj(x, _) => {
            adj(sh, e, x, false);
            if matches!(**x, E::Proj(..) | E::Int(..)) {
                sh.labels.insert("shape:proj-float-hazard".into());
            }
            shapes_expr(sh, x);
            "expr:proj"
        }
        E::Call(f, args) => {
            adj(sh, e, f, false);
            sh.has_call = true;
            if args.is_empty() {
                sh.labels.insert("expr:call-no-args".into());
            }
            if prec_of(f) < POSTFIX || right_open(f) || !matches!(**f, E::Path(_) | E::Call(..) | E::Field(..) | E::Proj(..) | E::Constr(..)) {
                sh.callee_complex = true;
                sh.labels.insert("shape:callee-complex".into());
            }
            if let E::Constr(_, a) = &**f {
                if a.is_empty() {
                    sh.callee_complex = true;
                }
            }
            shapes_expr(sh, f);
            args.iter().for_each(|x| shapes_expr(sh, x));
            if matches!(**f, E::Field(..)) { "expr:method-call" } else { "expr:call" }
        }
        E::Tuple(xs) => {
            xs.iter().for_each(|x| shapes_expr(sh, x));
            "expr:tuple"
        }
        E::Array(xs) => {
            xs.iter().for_each(|x| shapes_expr(sh, x));
            "expr:array"
        }
        E::StructLit(_, fs) => {
            fs.iter().for_each(|(_, x)| shapes_expr(sh, x));
            "expr:struct-lit"
        }
        E::Closure(ps, b) => {
            ps.iter().for_each(|(_, t)| {
                if let Some(t) = t {
                    shapes_ty(sh, t)
                }
            });
            shapes_expr(sh, b);
            "expr:closure"
        }
        E::If(c, t, els) => {
            shapes_expr(sh, c);
            shapes_expr(sh, t);
            shapes_expr(sh, els);
            if matches!(**els, E::If(..)) {
                sh.labels.insert("expr:else-if".into());
            }
            "expr:if"
        }
        E::Match(s, arms) => {
            shapes_expr(sh, s);
            for (p, b) in arms {
                shapes_pat(sh, p);
                shapes_expr(sh, b);
            }
            "expr:match"
        }
        E::While(c, b) => {
            shapes_expr(sh, c);
            shapes_expr(sh, b);
            "expr:while"
        }
        E::Go(x) => {
            shapes_expr(sh, x);
            "expr:go"
        }
        E::Block(xs) => {
            xs.iter().for_each(|x| shapes_expr(sh, x));
            "expr:block"
        }
        E::Let(p, t, v) => {
            shapes_pat(sh, p);
            if let Some(t) = t {
                shapes_ty(sh, t);
                sh.labels.insert("expr:let-annotated".into());
            }
            shapes_expr(sh, v);
            "expr:let"
        }
    };
    sh.labels.insert(lab.to_string());
}

fn shapes_fn(sh: &mut Shapes, f: &FnDef) {
    if !f.generics.is_empty() {
        sh.labels.insert("item:fn-generic".into());
    }
    if f.generics.iter().any(|(_, b)| b.len() > 1) {
        sh.labels.insert("item:fn-bound-set".into());
    }
    f.params.iter().for_each(|(_, t)| shapes_ty(sh, t));
    if let Some(t) = &f.ret {
        shapes_ty(sh, t);
    }
    shapes_expr(sh, &f.body);
}

pub fn shapes_file(f: &File) -> Shapes {
    let mut sh = Shapes::default();
    if f.package != "Main" {
        sh.labels.insert("item:package".into());
    }
    if !f.imports.is_empty() {
        sh.labels.insert("item:import".into());
    }
    for it in &f.items {
        sh.nodes += 1;
        let (lab, attrs): (&str, &Vec<String>) = match it {
            Item::Fn(f) => {
                shapes_fn(&mut sh, f);
                ("item:fn", &f.attrs)
            }
            Item::Struct { attrs, fields, .. } => {
                fields.iter().for_each(|(_, t)| shapes_ty(&mut sh, t));
                ("item:struct", attrs)
            }
            Item::Enum { attrs, variants, generics, .. } => {
                variants.iter().for_each(|(_, ts)| ts.iter().for_each(|t| shapes_ty(&mut sh, t)));
                if !generics.is_empty() {
                    sh.labels.insert("item:enum-generic".into());
                }
                ("item:enum", attrs)
            }
            Item::Trait { attrs, methods, .. } => {
                for (_, ps, r) in methods {
                    ps.iter().for_each(|t| shapes_ty(&mut sh, t));
                    shapes_ty(&mut sh, r);
                }
                ("item:trait", attrs)
            }
            Item::Impl { attrs, trait_name, for_ty, methods, .. } => {
                shapes_ty(&mut sh, for_ty);
                methods.iter().for_each(|m| shapes_fn(&mut sh, m));
                (if trait_name.is_some() { "item:impl-trait" } else { "item:impl-inherent" }, attrs)
            }
            Item::ExternGo { attrs, params, ret, .. } => {
                params.iter().for_each(|(_, t)| shapes_ty(&mut sh, t));
                if let Some(t) = ret {
                    shapes_ty(&mut sh, t);
                }
                ("item:extern-go", attrs)
            }
            Item::ExternType { attrs, .. } => ("item:extern-type", attrs),
            Item::ExternBuiltin { attrs, params, .. } => {
                params.iter().for_each(|(_, t)| shapes_ty(&mut sh, t));
                ("item:extern-builtin", attrs)
            }
        };
        sh.labels.insert(lab.to_string());
        if !attrs.is_empty() {
            sh.labels.insert("item:attr".into());
        }
        if derive_count(attrs) > 0 {
            sh.labels.insert("item:derive".into());
        }
    }
    sh
}

// ---------------------------------------------------------------------------
// random generator (construction only; byte 0 = simplest alternative)

const VALS: [&str; 14] = ["x", "y", "z", "n", "acc", "f", "g", "h", "v", "w", "item", "k2", "a1", "foo_bar"];
const FIELDS: [&str; 8] = ["a", "b", "len", "head", "tail", "val", "fst", "snd"];
const STRUCTS: [&str; 4] = ["Point", "Pair", "Wrap", "Cfg"];
const ENUMS: [&str; 4] = ["Opt", "Color", "Tree", "Res"];
const TRAITS: [&str; 3] = ["Show", "Eq2", "Shape"];
const PKGS: [&str; 3] = ["Lib", "Util", "Math"];
const CTORS: [&str; 10] = ["Some", "None", "Red", "Green", "Leaf", "Node", "ok", "err", "Cons", "Nil"];
const GENERICS: [&str; 3] = ["T", "U", "K"];
const FNS: [&str; 6] = ["main", "run", "helper", "step", "fold_left", "mk"];
const EXTS: [&str; 3] = ["Time", "Conn", "Handle"];
const PRIMS: [&str; 13] = [
    "int32", "bool", "string", "unit", "int8", "int16", "int64", "uint8", "uint16", "uint32", "uint64", "float32", "float64",
];
const INT_SUFFIXES: [&str; 9] = ["", "i32", "i8", "i16", "i64", "u8", "u16", "u32", "u64"];
const STR_SAFE: [&str; 12] = ["", "a", "hello", "x y", "é", "漢字", "😀", "it's", "a/b", "// no comment", "{ }", "\u{7f}\u{a0}"];

pub const GATE_CALLEE: &str = "C11:callee-literal";
pub const GATE_ESCAPE: &str = "C11:string-escape";
pub const GATE_PREFIX_CALL: &str = "C11:prefix-call-chain";
pub const GATE_PAREN_CALLEE: &str = "C11:paren-callee";
pub const GATE_ATTR_COMMENT: &str = "C11:attr-trailing-comment";
pub const GATE_CRLF: &str = "C11:multiline-crlf";

pub struct Gen<'d, 'b> {
    pub d: &'d mut Dec<'b>,
    pub fuel: i32,
    pub closed: HashSet<String>,
    /// gated shapes the generator avoided
    pub hits: Vec<&'static str>,
}

impl<'d, 'b> Gen<'d, 'b> {
    pub fn new(d: &'d mut Dec<'b>, fuel: i32, closed: HashSet<String>) -> Self {
        Gen { d, fuel, closed, hits: vec![] }
    }
    fn gated(&mut self, g: &'static str) -> bool {
        if self.closed.contains(g) {
            self.hits.push(g);
            true
        } else {
            false
        }
    }
    fn s(&mut self, xs: &[&str]) -> String {
        self.d.pick(xs).to_string()
    }
    fn spend(&mut self) -> bool {
        self.fuel -= 1;
        self.fuel >= 0 && !self.d.exhausted()
    }

    fn ns_prefix(&mut self) -> Path {
        match self.d.below(4) {
            0 => vec![],
            1 => vec![self.s(&ENUMS)],
            2 => vec![self.s(&PKGS)],
            _ => vec![self.s(&PKGS), self.s(&ENUMS)],
        }
    }

    pub fn ty(&mut self, depth: u32) -> Ty {
        if !self.spend() || depth > 4 {
            return Ty::Prim(self.d.pick(&PRIMS));
        }
        match self.d.weighted(&[30, 8, 8, 8, 5, 5, 6, 8, 4]) {
            0 => Ty::Prim(self.d.pick(&PRIMS)),
            1 => {
                let name = match self.d.below(4) {
                    0 => self.s(&STRUCTS),
                    1 => self.s(&ENUMS),
                    2 => self.s(&GENERICS),
                    _ => "Self".to_string(),
                };
                Ty::Con(vec![name])
            }
            2 => {
                let n = self.d.below(4);
                Ty::Tuple((0..n).map(|_| self.ty(depth + 1)).collect())
            }
            3 => {
                let p = match self.d.below(4) {
                    0 => vec!["Vec".to_string()],
                    1 => vec!["Ref".to_string()],
                    2 => vec![self.s(&ENUMS)],
                    _ => vec![self.s(&PKGS), self.s(&ENUMS)],
                };
                let n = 1 + self.d.below(2);
                Ty::App(p, (0..n).map(|_| self.ty(depth + 1)).collect())
            }
            4 => Ty::Con(vec![self.s(&PKGS), self.s(&STRUCTS)]),
            5 => {
                if self.d.bool() {
                    Ty::Dyn(vec![self.s(&TRAITS)])
                } else {
                    Ty::Dyn(vec![self.s(&PKGS), self.s(&TRAITS)])
                }
            }
            6 => {
                let t = self.ty(depth + 1);
                Ty::Array(Box::new(t), self.d.below(5))
            }
            7 => {
                let n = self.d.below(4);
                let ps = (0..n).map(|_| self.ty(depth + 1)).collect();
                Ty::Func(ps, Box::new(self.ty(depth + 1)))
            }
            _ => Ty::Tuple(vec![]),
        }
    }

    fn int_lit(&mut self) -> (String, &'static str) {
        let digits = match self.d.below(6) {
            0 => "0".to_string(),
            1 => "1".to_string(),
            2 => self.d.below(256).to_string(),
            3 => "007".to_string(),
            4 => "2147483647".to_string(),
            _ => (self.d.u64() >> self.d.below(60)).to_string(),
        };
        (digits, self.d.pick(&INT_SUFFIXES))
    }

    pub fn pat(&mut self, depth: u32) -> Pat {
        if !self.spend() || depth > 3 {
            return if self.d.bool() { Pat::Var(self.s(&VALS)) } else { Pat::Wild };
        }
        match self.d.weighted(&[25, 15, 4, 5, 8, 5, 12, 12, 8]) {
            0 => Pat::Var(self.s(&VALS)),
            1 => Pat::Wild,
            2 => Pat::Unit,
            3 => Pat::Bool(self.d.bool()),
            4 => {
                let (d, s) = self.int_lit();
                Pat::Int(d, s)
            }
            5 => Pat::Str(self.s(&STR_SAFE)),
            6 => {
                let n = 1 + self.d.below(3);
                Pat::Tuple((0..n).map(|_| self.pat(depth + 1)).collect())
            }
            7 => {
                let mut p = self.ns_prefix();
                p.push(self.s(&CTORS));
                let n = self.d.below(3);
                Pat::Constr(p, (0..n).map(|_| self.pat(depth + 1)).collect())
            }
            _ => {
                let mut p = if self.d.chance(48) { vec![self.s(&PKGS)] } else { vec![] };
                p.push(self.s(&STRUCTS));
                let n = self.d.below(3);
                let fs = (0..n)
                    .map(|_| {
                        let name = self.s(&FIELDS);
                        let pat = if self.d.bool() { Pat::Var(name.clone()) } else { self.pat(depth + 1) };
                        (name, pat)
                    })
                    .collect();
                Pat::Struct(p, fs)
            }
        }
    }

    fn string_value(&mut self, allow_multiline: bool) -> String {
        match self.d.weighted(&[70, if allow_multiline { 16 } else { 0 }, 6]) {
            0 => self.s(&STR_SAFE),
            1 => {
                let n = 2 + self.d.below(3);
                (0..n)
                    .map(|_| self.s(&["", "line", "  indented \"q\"", "back\\slash \\n", "tail  ", "// c", "é😀"]))
                    .collect::<Vec<_>>()
                    .join("\n")
            }
            _ => {
                if self.gated(GATE_ESCAPE) {
                    self.s(&STR_SAFE)
                } else {
                    self.s(&["say \"hi\"", "a\\b", "tab\there", "\u{1}"])
                }
            }
        }
    }

    fn atom_expr(&mut self) -> E {
        match self.d.weighted(&[30, 20, 6, 6, 8, 3, 8, 6]) {
            0 => E::Path(vec![self.s(&VALS)]),
            1 => {
                let (d, s) = self.int_lit();
                E::Int(d, s)
            }
            2 => E::Bool(self.d.bool()),
            3 => E::Unit,
            4 => E::Str(self.string_value(true)),
            5 => {
                // k / 2^m: exactly representable, `{:?}` is its canonical spelling
                let v = self.d.below(4096) as f64 / (1u32 << self.d.below(5)) as f64;
                E::Float(format!("{:?}", v), "")
            }
            6 => {
                let mut p = match self.d.below(3) {
                    0 => vec![self.s(&STRUCTS)],
                    1 => vec![self.s(&PKGS)],
                    _ => vec![self.s(&PKGS), self.s(&TRAITS)],
                };
                p.push(self.s(&VALS));
                E::Path(p)
            }
            _ => {
                let digits = self.s(&["0.5", "1.0", "2.25", "00.125", "3.14159"]);
                E::Float(digits, if self.d.bool() { "f32" } else { "f64" })
            }
        }
    }

    fn exprs(&mut self, max: usize, depth: u32) -> Vec<E> {
        let n = self.d.below(max + 1);
        (0..n).map(|_| self.expr(depth)).collect()
    }

    /// any expression except Block / Let
    pub fn expr(&mut self, depth: u32) -> E {
        if !self.spend() || depth > 7 {
            return self.atom_expr();
        }
        let bx = |e: E| Box::new(e);
        match self.d.weighted(&[40, 36, 10, 8, 5, 16, 8, 6, 5, 4, 5, 7, 8, 7, 3, 3]) {
            0 => self.atom_expr(),
            1 => {
                let op = self.d.pick(&BINOPS);
                let l = self.expr(depth + 1);
                let r = self.expr(depth + 1);
                E::Binary(op, bx(l), bx(r))
            }
            2 => {
                let op = if self.d.bool() { "!" } else { "-" };
                let x = self.expr(depth + 1);
                if prefix_call_hazard(&x) && self.gated(GATE_PREFIX_CALL) {
                    x
                } else {
                    E::Unary(op, bx(x))
                }
            }
            3 => {
                let x = self.expr(depth + 1);
                E::Field(bx(x), self.s(&FIELDS))
            }
            4 => {
                let x = self.expr(depth + 1);
                E::Proj(bx(x), self.d.below(4))
            }
            5 => {
                // call: simple callee, call of call, tuple-index callee, or a
                // callee that needs parentheses / is not a path (gated)
                let callee = match self.d.weighted(&[66, 16, 10, 8]) {
                    0 => E::Path(vec![self.s(&VALS)]),
                    1 => {
                        let f = E::Path(vec![self.s(&VALS)]);
                        E::Call(bx(f), self.exprs(2, depth + 1))
                    }
                    2 => E::Proj(bx(E::Path(vec![self.s(&VALS)])), self.d.below(3)),
                    _ => {
                        if self.gated(GATE_CALLEE) {
                            E::Path(vec![self.s(&VALS)])
                        } else {
                            self.expr(depth + 1)
                        }
                    }
                };
                // a generated callee can still be a zero-argument constructor etc.
                let callee = if self.closed.contains(GATE_CALLEE) && callee_is_complex(&callee) {
                    self.hits.push(GATE_CALLEE);
                    E::Path(vec![self.s(&VALS)])
                } else {
                    callee
                };
                let args = self.exprs(3, depth + 1);
                match callee {
                    // `Some(a)(b)` aside, a constructor applied to arguments
                    // IS the constructor node (`None()` = `None`)
                    E::Constr(p, a) if a.is_empty() => E::Constr(p, args),
                    callee => E::Call(bx(callee), args),
                }
            }
            6 => {
                let x = self.expr(depth + 1);
                let m = self.s(&FIELDS);
                E::Call(bx(E::Field(bx(x), m)), self.exprs(2, depth + 1))
            }
            7 => {
                let mut p = self.ns_prefix();
                p.push(self.s(&CTORS));
                E::Constr(p, self.exprs(2, depth + 1))
            }
            8 => {
                let n = 1 + self.d.below(3);
                E::Tuple((0..n).map(|_| self.expr(depth + 1)).collect())
            }
            9 => E::Array(self.exprs(3, depth + 1)),
            10 => {
                let mut p = if self.d.chance(48) { vec![self.s(&PKGS)] } else { vec![] };
                p.push(self.s(&STRUCTS));
                let n = self.d.below(4);
                let fs = (0..n)
                    .map(|_| {
                        let name = self.s(&FIELDS);
                        let v = if self.d.chance(80) { E::Path(vec![name.clone()]) } else { self.expr(depth + 1) };
                        (name, v)
                    })
                    .collect();
                E::StructLit(p, fs)
            }
            11 => {
                let n = self.d.below(4);
                let ps = (0..n)
                    .map(|_| {
                        let name = self.s(&VALS);
                        let t = if self.d.chance(96) { Some(self.ty(2)) } else { None };
                        (name, t)
                    })
                    .collect();
                E::Closure(ps, bx(self.body(depth + 1)))
            }
            12 => {
                let c = self.expr(depth + 1);
                let t = if self.d.chance(16) {
                    self.bare_branch()
                } else {
                    self.block(depth + 1)
                };
                let els = match self.d.weighted(&[55, 30, 15]) {
                    0 => self.block(depth + 1),
                    1 => {
                        let c2 = self.expr(depth + 1);
                        let t2 = self.block(depth + 1);
                        let e2 = self.block(depth + 1);
                        E::If(bx(c2), bx(t2), bx(e2))
                    }
                    _ => self.expr(depth + 1),
                };
                E::If(bx(c), bx(t), bx(els))
            }
            13 => {
                let s = self.expr(depth + 1);
                let n = self.d.weighted(&[4, 30, 40, 20, 6]);
                let arms = (0..n)
                    .map(|_| {
                        let p = self.pat(0);
                        (p, self.body(depth + 1))
                    })
                    .collect();
                E::Match(bx(s), arms)
            }
            14 => {
                let c = self.expr(depth + 1);
                let b = if self.d.chance(16) { self.bare_branch() } else { self.block(depth + 1) };
                E::While(bx(c), bx(b))
            }
            _ => E::Go(bx(self.expr(depth + 1))),
        }
    }

    /// a then-branch / while body without braces is only printable when its
    /// first token cannot continue the condition: identifier or literal
    fn bare_branch(&mut self) -> E {
        match self.d.below(3) {
            0 => E::Int(self.d.below(10).to_string(), ""),
            1 => E::Path(vec![self.s(&VALS)]),
            _ => E::Bool(self.d.bool()),
        }
    }

    /// closure / match-arm body: a block or a bare expression
    fn body(&mut self, depth: u32) -> E {
        if self.d.chance(110) {
            self.block(depth)
        } else {
            self.expr(depth)
        }
    }

    pub fn block(&mut self, depth: u32) -> E {
        self.fuel -= 1;
        let n = self.d.weighted(&[40, 30, 20, 10]);
        let mut v = vec![];
        for _ in 0..n {
            if self.d.chance(150) {
                let p = if self.d.chance(160) { Pat::Var(self.s(&VALS)) } else { self.pat(0) };
                let t = if self.d.chance(80) { Some(self.ty(1)) } else { None };
                v.push(E::Let(p, t, Box::new(self.expr(depth + 1))));
            } else {
                v.push(self.expr(depth + 1));
            }
        }
        if self.d.chance(60) {
            v.push(E::Unit);
        } else {
            v.push(self.expr(depth + 1));
        }
        E::Block(v)
    }

    fn params(&mut self, max: usize) -> Vec<(String, Ty)> {
        let n = self.d.below(max + 1);
        (0..n)
            .map(|_| {
                let name = self.s(&VALS);
                (name, self.ty(1))
            })
            .collect()
    }

    fn plain_attrs(&mut self) -> Vec<String> {
        if self.d.chance(24) {
            vec![self.s(&["#[inline]", "#[test]", "#[cfg(feature = \"x\")]", "#![allow(unused)]", "#[a::b(c, [d])]"])]
        } else {
            vec![]
        }
    }

    /// `with_attrs`: methods inside an impl block cannot carry attributes
    /// (impl_block_with_marker only accepts `fn`)
    pub fn fn_def(&mut self, with_attrs: bool) -> FnDef {
        let names = self.generic_names();
        let generics = names
            .into_iter()
            .map(|name| {
                let nb = self.d.weighted(&[50, 30, 20]);
                let bounds = (0..nb)
                    .map(|_| if self.d.chance(200) { vec![self.s(&TRAITS)] } else { vec![self.s(&PKGS), self.s(&TRAITS)] })
                    .collect();
                (name, bounds)
            })
            .collect();
        FnDef {
            attrs: if with_attrs { self.plain_attrs() } else { vec![] },
            name: self.s(&FNS),
            generics,
            params: self.params(3),
            ret: if self.d.chance(150) { Some(self.ty(0)) } else { None },
            body: self.block(0),
        }
    }

    /// distinct names (bounds are attached to a generic by name in the AST)
    fn generic_names(&mut self) -> Vec<String> {
        let n = self.d.weighted(&[70, 20, 10]);
        let start = self.d.below(GENERICS.len());
        (0..n).map(|i| GENERICS[(start + i) % GENERICS.len()].to_string()).collect()
    }

    pub fn item(&mut self) -> Item {
        self.fuel -= 1;
        match self.d.weighted(&[50, 10, 10, 8, 10, 5, 3, 3]) {
            0 => Item::Fn(self.fn_def(true)),
            1 => {
                let generics = self.generic_names();
                let mut attrs = self.plain_attrs();
                if generics.is_empty() && self.d.chance(48) {
                    attrs.push(self.s(&["#[derive(ToString)]", "#[derive(ToJson)]", "#[derive(ToString, ToJson)]"]));
                }
                let n = self.d.below(4);
                let fields = (0..n)
                    .map(|_| {
                        let name = self.s(&FIELDS);
                        (name, self.ty(1))
                    })
                    .collect();
                Item::Struct { attrs, name: self.s(&STRUCTS), generics, fields }
            }
            2 => {
                let generics = self.generic_names();
                let mut attrs = self.plain_attrs();
                if generics.is_empty() && self.d.chance(48) {
                    attrs.push(self.s(&["#[derive(ToString)]", "#[derive(ToJson)]"]));
                }
                let n = self.d.weighted(&[4, 30, 40, 26]);
                let variants = (0..n)
                    .map(|_| {
                        let name = self.s(&CTORS);
                        let k = self.d.below(3);
                        (name, (0..k).map(|_| self.ty(1)).collect())
                    })
                    .collect();
                Item::Enum { attrs, name: self.s(&ENUMS), generics, variants }
            }
            3 => {
                let n = self.d.below(4);
                let methods = (0..n)
                    .map(|_| {
                        let name = self.s(&FIELDS);
                        let k = self.d.below(3);
                        let mut ps = vec![Ty::Con(vec!["Self".to_string()])];
                        ps.extend((0..k).map(|_| self.ty(1)));
                        let r = if self.d.chance(100) { Ty::Prim("unit") } else { self.ty(1) };
                        (name, ps, r)
                    })
                    .collect();
                Item::Trait { attrs: self.plain_attrs(), name: self.s(&TRAITS), methods }
            }
            4 => {
                let generics = self.generic_names();
                let trait_name = match self.d.weighted(&[45, 40, 15]) {
                    0 => None,
                    1 => Some(vec![self.s(&TRAITS)]),
                    _ => Some(vec![self.s(&PKGS), self.s(&TRAITS)]),
                };
                let for_ty = match self.d.below(5) {
                    0 => Ty::Con(vec![self.s(&STRUCTS)]),
                    1 => Ty::Prim(self.d.pick(&PRIMS)),
                    2 => Ty::App(vec!["Vec".into()], vec![Ty::Con(vec![self.s(&GENERICS)])]),
                    3 => Ty::App(vec![self.s(&ENUMS)], vec![self.ty(2)]),
                    _ => Ty::Tuple(vec![self.ty(2), self.ty(2)]),
                };
                let n = self.d.below(3);
                let methods = (0..n).map(|_| self.fn_def(false)).collect();
                Item::Impl { attrs: self.plain_attrs(), generics, trait_name, for_ty, methods }
            }
            5 => Item::ExternGo {
                attrs: self.plain_attrs(),
                pkg: self.s(&["fmt", "strings", "math/rand", "os"]),
                sym: if self.d.bool() { Some(self.s(&["Println", "Sprintf", "Intn"])) } else { None },
                name: self.s(&FNS),
                params: self.params(3),
                ret: if self.d.bool() { Some(self.ty(1)) } else { None },
            },
            6 => Item::ExternType { attrs: self.plain_attrs(), name: self.s(&EXTS) },
            _ => Item::ExternBuiltin {
                attrs: vec!["#[builtin]".to_string()],
                name: self.s(&FNS),
                params: self.params(3),
                ret: if self.d.bool() { Some(self.ty(1)) } else { None },
            },
        }
    }

    pub fn file(&mut self) -> File {
        let package = if self.d.chance(40) { self.s(&PKGS) } else { "Main".to_string() };
        let ni = self.d.weighted(&[80, 14, 6]);
        let imports = (0..ni).map(|_| self.s(&PKGS)).collect();
        let mut items = vec![self.item()];
        while self.fuel > 0 && !self.d.exhausted() && items.len() < 12 && self.d.chance(200) {
            items.push(self.item());
        }
        let mut f = File { package, imports, items };
        declare_missing_ctors(&mut f, self.d);
        f
    }
}

/// a callee that can never be a function value (literal, tuple, array,
/// struct literal, loop, go): `0(x)` is rejected by lowering and `0()` loses
/// its call; every other callee (also parenthesised operators, if, match,
/// closures) must round-trip.
pub fn callee_is_complex(f: &E) -> bool {
    match f {
        E::Int(..)
        | E::Float(..)
        | E::Str(_)
        | E::Bool(_)
        | E::Unit
        | E::Tuple(_)
        | E::Array(_)
        | E::StructLit(..)
        | E::While(..)
        | E::Go(_)
        | E::Let(..) => true,
        E::Constr(_, a) => a.is_empty(),
        _ => false,
    }
}

fn ctors_in_pat(p: &Pat, out: &mut BTreeSet<String>) {
    match p {
        Pat::Constr(path, args) => {
            if let Some(l) = path.last() {
                out.insert(l.clone());
            }
            args.iter().for_each(|x| ctors_in_pat(x, out));
        }
        Pat::Struct(_, fs) => fs.iter().for_each(|(_, x)| ctors_in_pat(x, out)),
        Pat::Tuple(ps) => ps.iter().for_each(|x| ctors_in_pat(x, out)),
        _ => {}
    }
}

fn ctors_in_expr(e: &E, out: &mut BTreeSet<String>) {
    let mut go = |x: &E| ctors_in_expr(x, out);
    match e {
        E::Constr(p, args) => {
            args.iter().for_each(&mut go);
            if let Some(l) = p.last() {
                out.insert(l.clone());
            }
        }
        E::Unary(_, x) | E::Field(x, _) | E::Proj(x, _) | E::Go(x) => go(x),
        E::Binary(_, x, y) | E::While(x, y) => {
            go(x);
            go(y)
        }
        E::Call(f, xs) => {
            go(f);
            xs.iter().for_each(go)
        }
        E::Tuple(xs) | E::Array(xs) | E::Block(xs) => xs.iter().for_each(go),
        E::StructLit(_, fs) => fs.iter().for_each(|(_, x)| go(x)),
        E::Closure(_, b) => go(b),
        E::If(c, t, e2) => {
            go(c);
            go(t);
            go(e2)
        }
        E::Match(s, arms) => {
            go(s);
            for (p, b) in arms {
                go(b);
                let _ = p;
            }
            for (p, _) in arms {
                ctors_in_pat(p, out);
            }
        }
        E::Let(p, _, v) => {
            ctors_in_expr(v, out);
            ctors_in_pat(p, out);
        }
        _ => {}
    }
}

/// lower.rs decides "constructor or plain path" by the enum variants and
/// struct names declared in the same file: make sure every constructor the
/// tree uses is declared (by an extra enum at a random position).
pub fn declare_missing_ctors(f: &mut File, d: &mut Dec) {
    let mut used = BTreeSet::new();
    let mut declared = BTreeSet::new();
    for it in &f.items {
        match it {
            Item::Fn(x) => ctors_in_expr(&x.body, &mut used),
            Item::Impl { methods, .. } => methods.iter().for_each(|m| ctors_in_expr(&m.body, &mut used)),
            Item::Enum { variants, .. } => variants.iter().for_each(|(n, _)| {
                declared.insert(n.clone());
            }),
            Item::Struct { name, .. } => {
                declared.insert(name.clone());
            }
            _ => {}
        }
    }
    let missing: Vec<String> = used.difference(&declared).cloned().collect();
    if missing.is_empty() {
        return;
    }
    let item = Item::Enum {
        attrs: vec![],
        name: "Decls".into(),
        generics: vec![],
        variants: missing.into_iter().map(|n| (n, vec![])).collect(),
    };
    let at = d.below(f.items.len() + 1);
    f.items.insert(at, item);
}
