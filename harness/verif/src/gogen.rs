//! Programs with `go`: generator, schedule enumeration with the reference
//! interpreter, and the comparison with miniGo under the same schedules
//! (part of C09).

use crate::behave;
use crate::driver::*;
use crate::gen::model::*;
use crate::gen::render::render;
use crate::goml::{self, CompileRes};
use crate::refsem::{self, End, FailKind};
use crate::util::*;
use serde_json::{json, Value};

struct G<'a, 'd> {
    d: &'a mut Dec<'d>,
    p: GProg,
    refs: Vec<VarId>,
    spawns: u32,
    uniq: u32,
}

fn i32lit(v: i128) -> Expr {
    Expr::Int(IK::I32, v, false)
}

impl<'a, 'd> G<'a, 'd> {
    fn var(&mut self, name: String, ty: Ty) -> VarId {
        self.p.vars.push(VarInfo { spelling: name, ty });
        (self.p.vars.len() - 1) as VarId
    }
    fn rget(&self, r: VarId) -> Expr {
        Expr::Call(Callee::Builtin(Builtin::RefGet), vec![Expr::Var(r)])
    }
    fn rset(&self, r: VarId, v: Expr) -> Expr {
        Expr::Call(Callee::Builtin(Builtin::RefSet), vec![Expr::Var(r), v])
    }
    fn some_ref(&mut self) -> VarId {
        self.refs[self.d.below(self.refs.len())]
    }
    fn int_expr(&mut self, depth: u32) -> Expr {
        match self.d.below(if depth == 0 { 2 } else { 4 }) {
            0 => i32lit(self.d.below(5) as i128),
            1 => {
                let r = self.some_ref();
                self.rget(r)
            }
            2 => {
                let a = self.int_expr(depth - 1);
                let b = self.int_expr(depth - 1);
                Expr::Bin(BinOp::Add, Box::new(a), Box::new(b))
            }
            _ => {
                let a = self.int_expr(depth - 1);
                Expr::Bin(BinOp::Mul, Box::new(a), Box::new(i32lit(2)))
            }
        }
    }
    fn stmt(&mut self, who: &str, depth: u32) -> Stmt {
        self.uniq += 1;
        let tag = format!("{}{}:", who, self.uniq);
        match self.d.below(if depth > 0 && self.spawns < 3 { 6 } else { 5 }) {
            0 | 1 => {
                let r = self.some_ref();
                let v = self.int_expr(1);
                Stmt::Expr(self.rset(r, v), self.d.bool())
            }
            2 => {
                let e = self.int_expr(1);
                Stmt::Expr(
                    Expr::Call(
                        Callee::Builtin(Builtin::Println),
                        vec![Expr::Bin(
                            BinOp::Add,
                            Box::new(Expr::Str(tag)),
                            Box::new(Expr::Call(Callee::Builtin(Builtin::IntToString(IK::I32)), vec![e])),
                        )],
                    ),
                    false,
                )
            }
            3 => {
                // read-modify-write through a local: classic lost update
                let r = self.some_ref();
                let x = self.var(format!("x{}", self.uniq), Ty::i32());
                let set = self.rset(r, Expr::Bin(BinOp::Add, Box::new(Expr::Var(x)), Box::new(i32lit(1))));
                Stmt::Expr(
                    Expr::Match(
                        Box::new(self.rget(r)),
                        vec![(Pat::Var(x), Expr::Block(vec![Stmt::Expr(set, false)], Some(Box::new(Expr::Unit))))],
                    ),
                    false,
                )
            }
            4 => {
                let r = self.some_ref();
                let c = Expr::Bin(BinOp::Gt, Box::new(self.rget(r)), Box::new(i32lit(self.d.below(3) as i128)));
                let a = self.stmt(who, 0);
                let b = self.stmt(who, 0);
                Stmt::Expr(
                    Expr::If(
                        Box::new(c),
                        Box::new(Expr::Block(vec![a], Some(Box::new(Expr::Unit)))),
                        Box::new(Expr::Block(vec![b], Some(Box::new(Expr::Unit)))),
                    ),
                    false,
                )
            }
            _ => self.spawn(depth - 1),
        }
    }
    fn spawn(&mut self, depth: u32) -> Stmt {
        self.spawns += 1;
        let who = format!("g{}_", self.spawns);
        // `go f` with a top-level function instead of a closure literal: it captures nothing,
        // so it can only print
        if self.d.chance(60) {
            let idx = self.p.fns.len() + 1; // main is pushed last, at index 0 + helpers: fixed up below
            let _ = idx;
            let n = 1 + self.d.below(2);
            let mut body = vec![];
            for k in 0..n {
                body.push(Stmt::Expr(
                    Expr::Call(Callee::Builtin(Builtin::Println), vec![Expr::Str(format!("{who}w{k}"))]),
                    false,
                ));
            }
            self.p.fns.push(FnDef { owner: None, bounds: vec![],
                name: format!("worker{}", self.spawns),
                tparams: 0,
                params: vec![],
                ret: Ty::Unit,
                body: Expr::Block(body, Some(Box::new(Expr::Unit))),
            });
            let f = self.p.fns.len() - 1;
            return Stmt::Expr(Expr::Go(Box::new(Expr::FnRef(f))), true);
        }
        let n = 1 + self.d.below(2);
        let mut body = vec![];
        for _ in 0..n {
            let s = self.stmt(&who, depth);
            body.push(s);
        }
        Stmt::Expr(
            Expr::Go(Box::new(Expr::Closure(vec![], Box::new(Expr::Block(body, Some(Box::new(Expr::Unit))))))),
            true,
        )
    }
}

pub fn gen_go_program(d: &mut Dec) -> GProg {
    let mut g = G {
        d,
        p: GProg::default(),
        refs: vec![],
        spawns: 0,
        uniq: 0,
    };
    let mut stmts = vec![];
    let nrefs = 1 + g.d.below(2);
    for i in 0..nrefs {
        let r = g.var(format!("r{}", i), Ty::Ref(Box::new(Ty::i32())));
        g.refs.push(r);
        stmts.push(Stmt::Let(
            Pat::Var(r),
            None,
            Expr::Call(Callee::Builtin(Builtin::RefNew), vec![i32lit(i as i128 * 10)]),
        ));
    }
    let n = 1 + g.d.below(3);
    let mut spawned_any = false;
    for i in 0..n {
        if (i == 0 || g.d.chance(110)) && g.spawns < 3 {
            let s = g.spawn(1);
            stmts.push(s);
            spawned_any = true;
        } else {
            let s = g.stmt("m", 0);
            stmts.push(s);
        }
    }
    if !spawned_any {
        let s = g.spawn(1);
        stmts.push(s);
    }
    let last = g.stmt("m", 0);
    stmts.push(last);
    g.p.fns.push(FnDef { owner: None, bounds: vec![],
        name: "main".into(),
        tparams: 0,
        params: vec![],
        ret: Ty::Unit,
        body: Expr::Block(stmts, Some(Box::new(Expr::Unit))),
    });
    g.p.main = g.p.fns.len() - 1;
    g.p
}

fn end_str(e: &Result<End, String>) -> String {
    match e {
        Ok(e) => behave::end_to_string(e),
        Err(m) => format!("skip:{m}"),
    }
}

/// stateless DFS over the schedule tree using the reference interpreter
pub fn enumerate_schedules(p: &GProg, cap: usize) -> (Vec<Value>, bool) {
    let mut out = vec![];
    let mut prefix: Vec<u8> = vec![];
    let mut complete = true;
    loop {
        let r = refsem::run_sched(p, &prefix, 200_000);
        let cps = r.choice_points.clone();
        out.push(json!({"sched": prefix.clone(), "stdout": String::from_utf8_lossy(&r.stdout),
            "end": end_str(&r.end), "choice_points": cps, "spawned": r.spawned}));
        // next schedule: increment the last position that still has room
        let mut chosen: Vec<u8> = (0..cps.len()).map(|i| prefix.get(i).copied().unwrap_or(0)).collect();
        let mut i = chosen.len();
        let mut advanced = false;
        while i > 0 {
            i -= 1;
            if chosen[i] + 1 < cps[i] {
                chosen[i] += 1;
                chosen.truncate(i + 1);
                prefix = chosen.clone();
                advanced = true;
                break;
            }
        }
        if !advanced {
            break;
        }
        if out.len() >= cap {
            complete = false;
            break;
        }
    }
    (out, complete)
}

pub fn make_go_case(bytes: &[u8], cap: usize) -> Case {
    let mut d = Dec::new(bytes);
    let p = gen_go_program(&mut d);
    let text = render(&p);
    let (schedules, complete) = enumerate_schedules(&p, cap);
    let outputs: std::collections::BTreeSet<String> =
        schedules.iter().map(|s| s["stdout"].as_str().unwrap_or("").to_string()).collect();
    Case::new(json!({"go": true, "text": text, "schedules": schedules, "all_schedules": complete,
        "distinct_outputs": outputs.len()}))
}

pub fn judge_go_case(input: &Value, ctx: &mut Ctx) -> CaseOut {
    let text = input["text"].as_str().unwrap_or("");
    let key = fnv_str(text);
    let scheds = input["schedules"].as_array().cloned().unwrap_or_default();
    let mut labels = vec!["go".to_string()];
    if input["all_schedules"].as_bool() == Some(true) {
        labels.push("go:all-schedules".into());
    } else {
        labels.push("go:schedules-capped".into());
    }
    if input["distinct_outputs"].as_u64().unwrap_or(0) >= 2 {
        labels.push("go:schedule-dependent-output".into());
    }
    let nt = scheds.len() >= 2;
    let go = match goml::compile_single(ctx, text) {
        CompileRes::Ok(_, go) => go,
        CompileRes::Panic(_) => return CaseOut::discard("compiler-panic"),
        CompileRes::Err(e) => return CaseOut::discard(&format!("rejected:{}", goml::error_stage(&e))),
    };
    let prog = match behave::go_check(&go) {
        behave::GoCheck::Ok(p) => p,
        behave::GoCheck::Unsupported(u) => return CaseOut::discard(&format!("minigo:{u}")),
        behave::GoCheck::Rejected(errs) => return CaseOut::discard(&format!("go-rejected:{}", errs[0].rule)),
    };
    for s in &scheds {
        let sched: Vec<u8> = s["sched"]
            .as_array()
            .map(|a| a.iter().map(|x| x.as_u64().unwrap_or(0) as u8).collect())
            .unwrap_or_default();
        let want_end = s["end"].as_str().unwrap_or("");
        if want_end.starts_with("skip:") {
            continue;
        }
        let mut opts = behave::go_opts();
        opts.sched = sched.clone();
        opts.max_steps = 2_000_000;
        let r = minigo::run(&prog, &opts);
        let got_end = match &r.end {
            minigo::End::Exit0 => "Normal".to_string(),
            minigo::End::Panic(minigo::PanicKind::DivideByZero, _) => behave::end_to_string(&End::Failed(FailKind::DivZero)),
            minigo::End::Panic(minigo::PanicKind::IndexOutOfRange, _) => behave::end_to_string(&End::Failed(FailKind::Index)),
            minigo::End::Panic(minigo::PanicKind::Explicit, _) => behave::end_to_string(&End::Failed(FailKind::Missing)),
            minigo::End::StepLimit | minigo::End::OutputLimit => return CaseOut::discard("minigo:step-limit"),
            minigo::End::Unsupported(u) => return CaseOut::discard(&format!("minigo-run:{}", u.split(' ').next().unwrap_or(""))),
            other => format!("{:?}", other),
        };
        let want_cps: Vec<u8> = s["choice_points"]
            .as_array()
            .map(|a| a.iter().map(|x| x.as_u64().unwrap_or(0) as u8).collect())
            .unwrap_or_default();
        let want_out = s["stdout"].as_str().unwrap_or("");
        let want_spawned = s["spawned"].as_u64().unwrap_or(0) as u32;
        let problem = if r.spawned != want_spawned {
            Some(("C09|go|activation-count", format!("source starts {want_spawned} activations, the Go program {}", r.spawned)))
        } else if r.choice_points != want_cps {
            Some((
                "C09|go|visible-actions",
                format!("choice points differ: source {:?}, Go {:?} (an effect was added, dropped or reordered)", want_cps, r.choice_points),
            ))
        } else if r.stdout != want_out.as_bytes() || got_end != want_end {
            Some((
                "C09|go|output",
                format!(
                    "expected {:?} ending {want_end}, got {:?} ending {got_end}",
                    want_out,
                    String::from_utf8_lossy(&r.stdout)
                ),
            ))
        } else {
            None
        };
        if let Some((sig, detail)) = problem {
            return CaseOut::fail(
                sig.to_string(),
                format!("under schedule {:?}: {detail}\n--- goml source\n{text}", sched),
                key,
            )
            .labelled(labels);
        }
    }
    CaseOut::pass(nt, key).labelled(labels)
}
