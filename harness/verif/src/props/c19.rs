//! C19 — generated names are unique and never capture Go or runtime names.

use crate::behave::{self, Expected, GoCheck, Verdict};
use crate::driver::*;
use crate::gen::build::{gen_program, Focus, GenCfg};
use crate::gen::render::render;
use crate::goml::{self, CompileRes};
use crate::util::*;
use compiler::go::goast::{go_type_name_for, ref_struct_name};
use compiler::go::mangle::go_ident;
use compiler::go::runtime::array_helper_fn_name;
use compiler::names::{inherent_method_fn_name, trait_impl_fn_name};
use compiler::tast::{TastIdent, Ty as TTy};
use serde_json::{json, Value};
use std::collections::HashMap;

pub struct C19;

// ------------------------------------------------------ name-function tables

/// every goml identifier over {A,B,a,b,_,1} of length <= n (first char a letter)
fn idents(n: usize) -> Vec<String> {
    let first = ['A', 'B', 'a', 'b'];
    let rest = ['A', 'B', 'a', 'b', '_', '1'];
    let mut out: Vec<String> = first.iter().map(|c| c.to_string()).collect();
    let mut cur = out.clone();
    for _ in 1..n {
        let mut next = vec![];
        for s in &cur {
            for c in rest {
                let mut t = s.clone();
                t.push(c);
                next.push(t);
            }
        }
        out.extend(next.iter().cloned());
        cur = next;
    }
    out
}

fn st(n: &str) -> TTy {
    TTy::TStruct { name: n.to_string() }
}

struct ClassResult {
    entities: u64,
    collision: Option<(String, String, String)>,
}

fn find_collision(items: impl Iterator<Item = (String, String)>) -> ClassResult {
    let mut seen: HashMap<String, String> = HashMap::new();
    let mut n = 0u64;
    let mut collision = None;
    for (entity, go_name) in items {
        n += 1;
        if let Some(prev) = seen.get(&go_name) {
            if *prev != entity && collision.is_none() {
                collision = Some((prev.clone(), entity.clone(), go_name.clone()));
            }
        } else {
            seen.insert(go_name, entity);
        }
    }
    ClassResult { entities: n, collision }
}

const CLASSES: [&str; 10] = [
    "fn-type-helper-names",
    "deep-type-names",
    "type-names",
    "tuple-struct-names",
    "ref-struct-names",
    "array-helper-names",
    "trait-impl-fn-names",
    "inherent-method-fn-names",
    "fn-vs-keyword",
    "user-type-vs-generated",
];

/// a pseudo-random structured type (depth <= 5) over a small base: builtin leaves, a user type, a
/// type of another package, instances of a generic enum; tuples of 2-3 components, Vec, Ref, arrays, functions
fn deep_type(x: &mut u64, depth: u32) -> TTy {
    let mut next = |n: u64| -> u64 {
        *x = mix(*x, 0x9e37_79b9_7f4a_7c15);
        *x % n
    };
    let leaf = depth == 0 || next(4) == 0;
    if leaf {
        return match next(6) {
            0 => TTy::TInt32,
            1 => TTy::TBool,
            2 => TTy::TString,
            3 => st("P"),
            4 => st("Lib::Color"),
            // instances of a generic enum as monomorphisation names them
            _ => TTy::TEnum { name: ["Opt__int32", "Opt__(int32,string)", "Opt__Vec[int32]"][next(3) as usize].to_string() },
        };
    }
    match next(8) {
        0 | 1 | 2 => {
            let n = 2 + next(2) as usize;
            TTy::TTuple { typs: (0..n).map(|_| deep_type(x, depth - 1)).collect() }
        }
        3 | 4 => TTy::TVec { elem: Box::new(deep_type(x, depth - 1)) },
        5 => TTy::TRef { elem: Box::new(deep_type(x, depth - 1)) },
        6 => TTy::TArray { len: 1 + next(2) as usize, elem: Box::new(deep_type(x, depth - 1)) },
        _ => TTy::TFunc { params: vec![deep_type(x, depth - 1)], ret_ty: Box::new(deep_type(x, depth - 1)) },
    }
}

fn legal_go_identifier(g: &str) -> bool {
    g.chars().next().map_or(false, |c| c.is_ascii_alphabetic() || c == '_') && g.chars().all(|c| c.is_ascii_alphanumeric() || c == '_')
}

fn run_class(class: &str, big: bool) -> ClassResult {
    let ids3 = idents(if big { 4 } else { 3 });
    let ids2 = idents(3);
    match class {
        // the struct name of a tuple type whatever its components: a legal Go identifier, and
        // two distinct tuple types never share one
        "deep-type-names" => {
            let mut x = 0x5eed_u64;
            let n = if big { 600_000 } else { 120_000 };
            let mut seen: HashMap<String, String> = HashMap::new();
            let mut res = ClassResult { entities: 0, collision: None };
            for _ in 0..n {
                let comps = 2 + (mix(x, 7) % 2) as usize;
                let t = TTy::TTuple { typs: (0..comps).map(|_| deep_type(&mut x, 4)).collect() };
                let g = go_type_name_for(&t);
                let shown = format!("{:?}", t);
                res.entities += 1;
                if res.collision.is_some() {
                    continue;
                }
                if !legal_go_identifier(&g) {
                    res.collision = Some((format!("tuple type {shown}"), "(no other entity: the name is not a Go identifier)".into(), g));
                } else if let Some(prev) = seen.get(&g) {
                    if *prev != shown {
                        res.collision = Some((format!("tuple type {prev}"), format!("tuple type {shown}"), g));
                    }
                } else {
                    seen.insert(g, shown);
                }
            }
            res
        }
        // Ref cells, array helpers and trait-impl functions for small FUNCTION types: `() -> T`, `(unit) -> T`,
        // `(unit, unit) -> T`, `(T) -> unit` ... are pairwise different types and need different names
        // (inside tuples this is KF-30; for these helpers the names are distinct on the unchanged tree)
        "fn-type-helper-names" => {
            let leaves = [TTy::TUnit, TTy::TInt32, TTy::TBool, TTy::TString];
            let mut fts: Vec<TTy> = vec![];
            for r in &leaves {
                fts.push(TTy::TFunc { params: vec![], ret_ty: Box::new(r.clone()) });
                for a in &leaves {
                    fts.push(TTy::TFunc { params: vec![a.clone()], ret_ty: Box::new(r.clone()) });
                    for b in &leaves[..2] {
                        fts.push(TTy::TFunc { params: vec![a.clone(), b.clone()], ret_ty: Box::new(r.clone()) });
                    }
                }
            }
            let mut all: Vec<(String, String)> = vec![];
            for t in &fts {
                all.push((format!("Ref[{:?}]", t), format!("ref:{}", ref_struct_name(t))));
                all.push((format!("[{:?}; 2]", t), format!("arr:{}", array_helper_fn_name("array_get", &TTy::TArray { len: 2, elem: Box::new(t.clone()) }))));
                all.push((format!("impl Tr for {:?} :: m", t), format!("impl:{}", go_ident(&trait_impl_fn_name(&TastIdent::new("Tr"), t, "m")))));
            }
            find_collision(all.into_iter())
        }
        // distinct user type names keep distinct, legal Go names
        "type-names" => find_collision(ids3.iter().map(|n| (format!("type {n}"), go_type_name_for(&st(n))))),
        "tuple-struct-names" => find_collision(ids2.iter().flat_map(|a| {
            ids2.iter().map(move |b| {
                (
                    format!("({a}, {b})"),
                    go_type_name_for(&TTy::TTuple { typs: vec![st(a), st(b)] }),
                )
            })
        })),
        "ref-struct-names" => find_collision(ids3.iter().map(|n| (format!("Ref[{n}]"), ref_struct_name(&st(n))))),
        "array-helper-names" => find_collision(ids2.iter().flat_map(|a| {
            [1usize, 2, 12].into_iter().map(move |len| {
                (
                    format!("[{a}; {len}]"),
                    array_helper_fn_name("array_get", &TTy::TArray { len, elem: Box::new(st(a)) }),
                )
            })
        })),
        "trait-impl-fn-names" => {
            let small = idents(2);
            find_collision(small.iter().flat_map(|tr| {
                let small2 = idents(2);
                small2
                    .into_iter()
                    .map(move |ty| {
                        (
                            format!("impl {tr} for {ty} :: m"),
                            go_ident(&trait_impl_fn_name(&TastIdent::new(tr), &st(&ty), "m")),
                        )
                    })
                    .collect::<Vec<_>>()
            }))
        }
        "inherent-method-fn-names" => {
            let small = idents(2);
            find_collision(small.iter().flat_map(|ty| {
                let ms = idents(2);
                ms.into_iter()
                    .map(move |m| (format!("impl {ty} :: {m}"), go_ident(&inherent_method_fn_name(&st(ty), &m))))
                    .collect::<Vec<_>>()
            }))
        }
        // user function names never come out as Go keywords / predeclared names
        "fn-vs-keyword" => {
            let reserved = [
                "break", "default", "func", "interface", "select", "case", "defer", "go", "map", "struct", "chan",
                "else", "goto", "package", "switch", "const", "fallthrough", "if", "range", "type", "continue", "for",
                "import", "return", "var", "len", "append", "cap", "panic", "println", "print", "nil", "any", "new",
                "make", "copy", "error", "iota", "int", "byte", "rune", "uint", "fmt",
            ];
            let mut bad = None;
            let mut n = 0;
            for r in reserved {
                n += 1;
                let g = go_ident(r);
                if g == r && bad.is_none() {
                    bad = Some((format!("user item `{r}`"), format!("Go's `{r}`"), g));
                }
            }
            // and escaping is injective over the small identifier set
            let mut res = find_collision(ids3.iter().chain(reserved.iter().map(|s| s.to_string()).collect::<Vec<_>>().iter()).map(|n| (format!("fn {n}"), go_ident(n))));
            res.entities += n;
            if res.collision.is_none() {
                res.collision = bad;
            }
            res
        }
        // a user type can be called like a generated helper type
        _ => {
            let generated = [
                ("tuple (int32, int32)", go_type_name_for(&TTy::TTuple { typs: vec![TTy::TInt32, TTy::TInt32] })),
                ("Ref[int32]", ref_struct_name(&TTy::TInt32)),
            ];
            let mut res = ClassResult { entities: 0, collision: None };
            for (what, g) in generated {
                res.entities += 1;
                // is the generated name spellable as a goml identifier?
                let spellable = g.chars().next().map_or(false, |c| c.is_ascii_alphabetic())
                    && g.chars().all(|c| c.is_ascii_alphanumeric() || c == '_');
                if spellable && go_type_name_for(&st(&g)) == g && res.collision.is_none() {
                    res.collision = Some((what.to_string(), format!("user type `{g}`"), g));
                }
            }
            res
        }
    }
}

// -------------------------------------------------------- directed programs

/// (id, gate, items, main body, expected stdout)
const DIRECTED: [(&str, &str, &str, &str, &str); 29] = [
    // trait objects made from function types that differ only in `()` / `(unit)`, and from Vec / Ref / array types: the
    // vtable constructors and wrappers are named after the receiver type
    ("dyn-for-structural-types", "", "trait Show { fn show(Self) -> string; }\nimpl Show for () -> int32 { fn show(self: () -> int32) -> string { \"thunk \" + int32_to_string(self()) } }\nimpl Show for (unit) -> int32 { fn show(self: (unit) -> int32) -> string { \"unit-fn \" + int32_to_string(self(())) } }\nimpl Show for (int32) -> int32 { fn show(self: (int32) -> int32) -> string { \"int-fn \" + int32_to_string(self(1)) } }\nimpl Show for Vec[int32] { fn show(self: Vec[int32]) -> string { \"vec \" + int32_to_string(vec_len(self)) } }\nimpl Show for Ref[int32] { fn show(self: Ref[int32]) -> string { \"ref \" + int32_to_string(ref_get(self)) } }\nimpl Show for [int32; 2] { fn show(self: [int32; 2]) -> string { \"arr \" + int32_to_string(array_get(self, 1)) } }\nfn seven() -> int32 { 7 }\nfn eight(u: unit) -> int32 { 8 }\nfn nine(x: int32) -> int32 { x + 8 }\nfn use_it(x: dyn Show) -> string { Show::show(x) }", "let a: dyn Show = seven; let b: dyn Show = eight; let c: dyn Show = nine; let v: Vec[int32] = vec_push(vec_new(), 4); let d: dyn Show = v; let r: Ref[int32] = ref(5); let e: dyn Show = r; let arr: [int32; 2] = [1, 6]; let f: dyn Show = arr; let _ = string_println(use_it(a)); let _ = string_println(use_it(b)); let _ = string_println(use_it(c)); let _ = string_println(use_it(d)); let _ = string_println(use_it(e)); let _ = string_println(use_it(f));", "thunk 7\nunit-fn 8\nint-fn 9\nvec 1\nref 5\narr 6\n"),
    ("dyn-trait-predeclared-name", "", "trait error { fn m(Self) -> int32; }\nstruct Q { a: int32 }\nimpl error for Q { fn m(self: Q) -> int32 { self.a } }\nfn through(d: dyn error) -> int32 { error::m(d) }", "let q = Q { a: 5 }; let _ = string_println(int32_to_string(through(q)));", "5\n"),
    // a second package (after the marker line): the same variant name in enums of two packages, and a trait of another package used as dyn
    ("two-packages-same-variant", "", "package Main\nimport Net\nenum Door { Open, Closed(string) }\nstruct Q { a: int32 }\nimpl Net::Show for Q { fn show(self: Q) -> int32 { self.a } }\nfn through(d: dyn Net::Show) -> int32 { Net::Show::show(d) }\n//>> FILE Net/lib.gom\npackage Net\nenum Status { Up, Closed(int32) }\ntrait Show { fn show(Self) -> int32; }\nfn code(s: Status) -> int32 { match s { Status::Up => 0, Status::Closed(n) => n } }\n//>> END", "let d = Door::Closed(\"x\"); let s = Net::Status::Closed(3); let _ = match d { Door::Open => string_println(\"o\"), Door::Closed(t) => string_println(t) }; let _ = string_println(int32_to_string(Net::code(s))); let q = Q { a: 7 }; let _ = string_println(int32_to_string(through(q)));", "x\n3\n7\n"),
    ("dyn-method-keyword", "", "trait Sh { fn range(Self) -> int32; fn len(Self) -> int32; }\nstruct Q { a: int32 }\nimpl Sh for Q { fn range(self: Q) -> int32 { self.a } fn len(self: Q) -> int32 { self.a + 1 } }\nfn through(d: dyn Sh) -> int32 { Sh::range(d) + Sh::len(d) }", "let q = Q { a: 3 }; let _ = string_println(int32_to_string(through(q)));", "7\n"),
    ("inherent-method-keyword", "", "struct Q { a: int32 }\nimpl Q { fn select(self: Q) -> int32 { self.a } fn init(self: Q) -> int32 { self.a * 2 } }", "let q = Q { a: 3 }; let _ = string_println(int32_to_string(q.select() + Q::init(q)));", "9\n"),
    ("fn-len", "", "fn len(x: int32) -> int32 { x + 100 }", "let _ = string_println(int32_to_string(len(1) + string_len(\"abc\")));", "104\n"),
    ("fn-append", "", "fn append(x: int32, y: int32) -> int32 { x + y }", "let v: Vec[int32] = vec_new(); let v = vec_push(v, append(1, 2)); let _ = string_println(int32_to_string(vec_get(v, 0)));", "3\n"),
    ("fn-panic-println", "", "fn panic(x: int32) -> int32 { x }\nfn println(x: int32) -> int32 { x }", "let _ = string_println(int32_to_string(panic(1) + println(2)));", "3\n"),
    ("fn-nil-any-fmt", "", "fn nil(x: int32) -> int32 { x }\nfn any(x: int32) -> int32 { x }\nfn fmt(x: int32) -> int32 { x }", "let _ = string_println(int32_to_string(nil(3) + any(4) + fmt(5)));", "12\n"),
    ("fn-keywords", "", "fn var(x: int32) -> int32 { x }\nfn func(x: int32) -> int32 { x }\nfn chan(x: int32) -> int32 { x }\nfn range(x: int32) -> int32 { x }", "let _ = string_println(int32_to_string(var(1) + func(2) + chan(3) + range(4)));", "10\n"),
    ("fn-init", "names:go-init", "fn init(x: int32) -> int32 { x }", "let _ = string_println(int32_to_string(init(7)));", "7\n"),
    ("fn-missing", "names:runtime-helper", "fn missing(x: string) -> int32 { 5 }", "let _ = string_println(int32_to_string(missing(\"x\")));", "5\n"),
    ("fn-main0", "names:entry-wrapper", "fn main0(x: int32) -> int32 { x }", "let _ = string_println(int32_to_string(main0(7)));", "7\n"),
    ("fn-temp-like", "names:temp-like", "fn t3(x: int32) -> int32 { x * 2 }", "let a = t3(1) + t3(2) + t3(3) + t3(4); let _ = string_println(int32_to_string(a));", "20\n"),
    ("locals-predeclared", "", "", "let len = 1; let nil = 2; let append = 3; let _ = string_println(int32_to_string(len + nil + append + string_len(\"ab\")));", "8\n"),
    ("locals-temp-like", "", "", "let t1 = 1; let ret0 = 2; let mtmp0 = 3; let x0 = 4; let _ = string_println(int32_to_string(t1 + ret0 + mtmp0 + x0));", "10\n"),
    ("types-predeclared", "", "struct error { a: int32 }\nstruct any { a: int32 }", "let e = error { a: 1 }; let f = any { a: 2 }; let _ = string_println(int32_to_string(e.a + f.a));", "3\n"),
    ("type-like-tuple", "names:generated-type", "struct Tuple2_int32_int32 { a: int32 }", "let t = (1, 2); let s = Tuple2_int32_int32 { a: 3 }; let _ = string_println(int32_to_string(t.0 + s.a));", "4\n"),
    ("type-like-ref", "names:generated-type", "struct ref_int32_x { a: int32 }", "let r = ref(1); let s = ref_int32_x { a: 3 }; let _ = string_println(int32_to_string(ref_get(r) + s.a));", "4\n"),
    ("type-like-closure-env", "names:generated-type", "struct closure_env_f_0 { a: int32 }", "let k = 1; let f = |x: int32| x + k; let s = closure_env_f_0 { a: 2 }; let _ = string_println(int32_to_string(f(1) + s.a));", "4\n"),
    ("ref-case-fold", "names:ref-case-fold", "struct A { x: int32 }\nstruct a { y: int32 }", "let r = ref(A { x: 1 }); let q = ref(a { y: 2 }); let _ = string_println(int32_to_string(ref_get(r).x + ref_get(q).y));", "3\n"),
    ("variant-like-struct", "", "struct B { x: int32 }\nenum E { A, Bv(int32) }", "let e = Bv(1); let b = B { x: 2 }; let _ = match e { A => string_println(\"a\"), Bv(n) => string_println(int32_to_string(n + b.x)) };", "3\n"),
    ("same-variant-two-enums", "", "enum E { A, X(int32) }\nenum F { Y, X(int32) }", "let e = E::X(1); let f = F::X(2); let _ = match e { E::A => string_println(\"a\"), E::X(n) => string_println(int32_to_string(n)) }; let _ = match f { F::Y => string_println(\"y\"), F::X(n) => string_println(int32_to_string(n)) };", "1\n2\n"),
    ("fn-like-instance", "names:mono-instance", "fn f[T](x: T) -> T { x }\nfn f__T_int32(x: int32) -> int32 { x + 50 }", "let _ = string_println(int32_to_string(f(1) + f__T_int32(2)));", "53\n"),
    ("tuple-underscore", "names:underscore-join", "struct A_B { x: int32 }\nstruct C { x: int32 }\nstruct A { x: int32 }\nstruct B_C { x: int32 }", "let t = (A_B { x: 1 }, C { x: 2 }); let u = (A { x: 3 }, B_C { x: 4 }); let _ = string_println(int32_to_string(t.0.x + u.1.x));", "5\n"),
    ("trait-impl-underscore", "names:underscore-join", "trait Show { fn m(Self) -> int32; }\ntrait Show_A { fn m(Self) -> int32; }\nstruct A_B { x: int32 }\nstruct B { x: int32 }\nimpl Show for A_B { fn m(self: A_B) -> int32 { 1 } }\nimpl Show_A for B { fn m(self: B) -> int32 { 2 } }", "let _ = string_println(int32_to_string(Show::m(A_B { x: 0 }) + Show_A::m(B { x: 0 })));", "3\n"),
    ("fields-keywords", "", "struct S { func: int32, range: int32, var: int32, map: int32 }", "let s = S { func: 1, range: 2, var: 3, map: 4 }; let _ = string_println(int32_to_string(s.func + s.range + s.var + s.map));", "10\n"),
    ("fn-builtin-like", "", "fn cap(x: int32) -> int32 { x }\nfn copy(x: int32) -> int32 { x }\nfn new(x: int32) -> int32 { x }\nfn make(x: int32) -> int32 { x }", "let _ = string_println(int32_to_string(cap(1) + copy(2) + new(3) + make(4)));", "10\n"),
    ("array-of-named", "", "struct A { x: int32 }", "let arr = [A { x: 1 }, A { x: 2 }]; let b = array_set(arr, 0, A { x: 5 }); let _ = string_println(int32_to_string(array_get(b, 0).x + array_get(b, 1).x));", "7\n"),
];

fn judge_program(text: &str, expected_stdout: Option<&str>, expected: Option<&Expected>, key: u64, labels: Vec<String>, nt: bool, ctx: &mut Ctx) -> CaseOut {
    judge_program_files(text, None, expected_stdout, expected, key, labels, nt, ctx)
}

/// Two or three packages declare types of the same name (enums sharing variant names, structs),
/// every package builds, matches and shows its own; a generic enum of Main is instantiated at the
/// same-named types of two packages. All of these are distinct entities: the Go must build
/// (no redeclared type, no switch on the wrong struct) and print what the source says.
fn make_twin_types(bytes: &[u8]) -> Case {
    let mut d = Dec::new(bytes);
    let tname = ["Color", "Point", "Shape", "T"][d.below(4)];
    let three = d.bool();
    let generic = d.bool();
    let pkgs: Vec<&str> = if three { vec!["Geo", "Ui", "Main"] } else { vec!["Geo", "Main"] };
    let mut files: Vec<(String, String)> = vec![];
    let mut want = String::new();
    let mut main = String::from("package Main\n");
    for p in &pkgs {
        if *p != "Main" {
            main.push_str(&format!("import {p}\n"));
        }
    }
    main.push('\n');
    let mut main_body = String::new();
    let mut labels = vec![format!("twin:{}", if three { "three-packages" } else { "two-packages" })];
    for (k, p) in pkgs.iter().enumerate() {
        // an enum with the shared variant names Red / Green, and a struct of the same name in the next family
        let is_enum = d.chance(170);
        let tag = k as i32 + 1;
        let mut text = String::new();
        let q = if *p == "Main" { String::new() } else { format!("{p}::") };
        if is_enum {
            labels.push("twin:enum".into());
            text.push_str(&format!("enum {tname} {{ Red, Green(int32), Only{p}(string) }}\n"));
            text.push_str(&format!(
                "fn show_{l}(c: {tname}) -> string {{\n    match c {{\n        {tname}::Red => \"{p}.Red\",\n        {tname}::Green(n) => \"{p}.Green\" + int32_to_string(n),\n        {tname}::Only{p}(s) => \"{p}.Only\" + s,\n    }}\n}}\n",
                l = p.to_lowercase()
            ));
            text.push_str(&format!("fn mk_{l}(n: int32) -> {tname} {{ if n > {tag} {{ {tname}::Green(n) }} else {{ {tname}::Red }} }}\n", l = p.to_lowercase()));
            main_body.push_str(&format!("    let _ = string_println({q}show_{l}({q}mk_{l}(0)));\n", l = p.to_lowercase()));
            main_body.push_str(&format!("    let _ = string_println({q}show_{l}({q}mk_{l}(9)));\n", l = p.to_lowercase()));
            main_body.push_str(&format!("    let _ = string_println({q}show_{l}({q}{tname}::Only{p}(\"x\")));\n", l = p.to_lowercase()));
            want.push_str(&format!("{p}.Red\n{p}.Green9\n{p}.Onlyx\n"));
        } else {
            labels.push("twin:struct".into());
            text.push_str(&format!("struct {tname} {{ a: int32, tag: int32 }}\n"));
            text.push_str(&format!("fn show_{l}(c: {tname}) -> string {{ \"{p}.\" + int32_to_string(c.a + c.tag) }}\n", l = p.to_lowercase()));
            text.push_str(&format!("fn mk_{l}(n: int32) -> {tname} {{ {tname} {{ a: n, tag: {tag} }} }}\n", l = p.to_lowercase()));
            main_body.push_str(&format!("    let _ = string_println({q}show_{l}({q}mk_{l}(10)));\n", l = p.to_lowercase()));
            want.push_str(&format!("{p}.{}\n", 10 + tag));
        }
        if *p == "Main" {
            main.push_str(&text);
        } else {
            files.push((format!("{p}/lib.gom"), format!("package {p}\n\n{text}")));
        }
    }
    if generic {
        // one generic enum at the same-named types of two packages
        labels.push("twin:generic-instances".into());
        main.push_str("enum Maybe[T] { Just(T), Nothing }\n");
        main.push_str("fn has[T](m: Maybe[T]) -> string { match m { Maybe::Just(_) => \"just\", Maybe::Nothing => \"nothing\" } }\n");
        for p in &pkgs {
            let q = if *p == "Main" { String::new() } else { format!("{p}::") };
            let l = p.to_lowercase();
            main_body.push_str(&format!("    let m_{l}: Maybe[{q}{tname}] = Maybe::Just({q}mk_{l}(1));\n    let n_{l}: Maybe[{q}{tname}] = Maybe::Nothing;\n"));
            main_body.push_str(&format!("    let _ = string_println(has(m_{l}) + has(n_{l}));\n"));
            want.push_str("justnothing\n");
        }
    }
    main.push_str(&format!("fn main() {{\n{main_body}    ()\n}}\n"));
    files.push(("main.gom".into(), main));
    let text: String = files.iter().map(|(p, t)| format!("// ---- {p}\n{t}")).collect();
    Case::new(json!({"twin": true, "text": text, "files": goml::files_to_json(&files), "stdout": want, "labels": labels}))
}

#[allow(clippy::too_many_arguments)]
fn judge_program_files(text: &str, files: Option<&Value>, expected_stdout: Option<&str>, expected: Option<&Expected>, key: u64, labels: Vec<String>, nt: bool, ctx: &mut Ctx) -> CaseOut {
    let res = match files {
        Some(f) => goml::compile_project(ctx, &goml::files_from_json(f)),
        None => goml::compile_single(ctx, text),
    };
    match res {
        CompileRes::Panic(pn) => CaseOut::fail(
            format!("C19|panic|{}", pn.signature()),
            format!("panic at {}:{}: {}\n--- goml source\n{text}", pn.file, pn.line, pn.message),
            key,
        )
        .labelled(labels),
        CompileRes::Err(e) => {
            let msgs = goml::diag_messages(e.diagnostics());
            let first = msgs.first().cloned().unwrap_or_default();
            if first.contains("non-exhaustive match on integer literal") {
                return CaseOut::discard("rejected:int-match-without-catch-all (documented)");
            }
            // goml may legitimately refuse a name (that is a fine way to keep names apart)
            CaseOut::discard(&format!("rejected:{}", goml::error_stage(&e)))
        }
        CompileRes::Ok(_, go) => {
            let prog = match behave::go_check(&go) {
                GoCheck::Ok(p) => p,
                GoCheck::Unsupported(u) => return CaseOut::discard(&format!("minigo:{u}")),
                GoCheck::Rejected(errs) => {
                    return CaseOut::fail(
                        format!("C19|go-rejected|{}", errs[0].rule),
                        format!("{}\n--- goml source\n{text}", behave::describe_go_errors(&errs, &go)),
                        key,
                    )
                    .labelled(labels)
                }
            };
            if let Some(want) = expected_stdout {
                let r = minigo::run(&prog, &behave::go_opts());
                if r.end != minigo::End::Exit0 || r.stdout != want.as_bytes() {
                    return CaseOut::fail(
                        "C19|behaviour".into(),
                        format!(
                            "expected stdout {:?}, got {:?} ending {:?}\n--- goml source\n{text}",
                            want,
                            String::from_utf8_lossy(&r.stdout),
                            r.end
                        ),
                        key,
                    )
                    .labelled(labels);
                }
                return CaseOut::pass(nt, key).labelled(labels);
            }
            match behave::compare_expected(expected.unwrap(), &go, "C19") {
                Verdict::Agree => CaseOut::pass(nt, key).labelled(labels),
                Verdict::Skip(why) => CaseOut::discard(&why),
                Verdict::Fail(sig, detail) => CaseOut::fail(sig, format!("{detail}\n--- goml source\n{text}"), key).labelled(labels),
            }
        }
    }
}

impl Check for C19 {
    fn id(&self) -> &'static str {
        "C19"
    }
    fn phases(&self, tier: Tier) -> Vec<PhaseSpec> {
        vec![
            PhaseSpec { name: "mangle", cases: CLASSES.len() as u64, max_bytes: 0, exhaustive: true },
            PhaseSpec { name: "directed", cases: DIRECTED.len() as u64, max_bytes: 0, exhaustive: true },
            PhaseSpec { name: "twin-types", cases: tier.pick(600, 8_000), max_bytes: 24, exhaustive: false },
            PhaseSpec { name: "renamed-small", cases: tier.pick(40_000, 300_000), max_bytes: 200, exhaustive: false },
            PhaseSpec { name: "renamed", cases: tier.pick(60_000, 500_000), max_bytes: 500, exhaustive: false },
        ]
    }
    fn make(&self, phase: &str, index: u64, bytes: &[u8], ctx: &mut Ctx) -> Case {
        match phase {
            "mangle" => Case::new(json!({"class": CLASSES[index as usize], "big": ctx.tier == Tier::Thorough})),
            "twin-types" => make_twin_types(bytes),
            "directed" => {
                let (id, gate, items, body, want) = DIRECTED[index as usize];
                let gated = !gate.is_empty() && ctx.gated(gate);
                // further package files sit between `//>> FILE <path>` and `//>> END`
                let mut main_items = String::new();
                let mut files: Vec<(String, String)> = vec![];
                let mut cur: Option<(String, String)> = None;
                for l in items.lines() {
                    if let Some(p) = l.strip_prefix("//>> FILE ") {
                        cur = Some((p.trim().to_string(), String::new()));
                    } else if l.starts_with("//>> END") {
                        if let Some(f) = cur.take() {
                            files.push(f);
                        }
                    } else if let Some((_, t)) = cur.as_mut() {
                        t.push_str(l);
                        t.push('\n');
                    } else {
                        main_items.push_str(l);
                        main_items.push('\n');
                    }
                }
                let text = format!("{main_items}\nfn main() {{\n{body}\n ()\n}}\n");
                let mut v = json!({"directed": id, "gate": gate, "gated": gated, "text": text, "stdout": want});
                if !files.is_empty() {
                    files.push(("main.gom".to_string(), text.clone()));
                    v["files"] = goml::files_to_json(&files);
                }
                Case::new(v)
            }
            _ => {
                let mut d = Dec::new(bytes);
                let mut cfg = GenCfg::full(if phase == "renamed-small" { 18 } else { 60 });
                cfg.hostile_names = true;
                cfg.focus = [Focus::None, Focus::Generics, Focus::Closures, Focus::Scopes, Focus::Traits][(index % 5) as usize];
                // traits, methods and trait objects with names the back end must escape
                cfg.traits = cfg.focus == Focus::Traits || (index / 5) % 3 == 0;
                // results that are computed and dropped: a call of a user function must stay whatever it is called
                cfg.discards = true;
                let p = gen_program(&mut d, cfg, ctx);
                let text = render(&p);
                let expected = Expected::of(&p).to_json();
                Case::new(json!({"text": text, "expected": expected,
                    "labels": p.labels.iter().cloned().collect::<Vec<_>>()}))
            }
        }
    }
    fn judge(&self, _phase: &str, case: &Case, ctx: &mut Ctx) -> CaseOut {
        let input: &Value = &case.input;
        if let Some(class) = input["class"].as_str() {
            let r = run_class(class, input["big"].as_bool().unwrap_or(false));
            let labels = vec![format!("mangle:{class}"), "mangle".to_string()];
            return match r.collision {
                Some((a, b, g)) => CaseOut::fail(
                    format!("C19|collision|{class}"),
                    format!("distinct entities {a} and {b} both get the Go identifier `{g}` ({} entities enumerated)", r.entities),
                    fnv_str(class),
                )
                .labelled(labels),
                None => CaseOut::pass(true, fnv_str(class)).labelled(labels),
            };
        }
        let text = input["text"].as_str().unwrap_or("");
        let key = fnv_str(text);
        if input.get("twin").is_some() {
            let mut labels: Vec<String> = input["labels"].as_array().map(|a| a.iter().filter_map(|x| x.as_str().map(String::from)).collect()).unwrap_or_default();
            labels.push("twin-types".into());
            return judge_program_files(text, Some(&input["files"]), input["stdout"].as_str(), None, key, labels, true, ctx);
        }
        if let Some(id) = input["directed"].as_str() {
            if input["gated"].as_bool() == Some(true) {
                return CaseOut::discard(&format!("gated:{}", input["gate"].as_str().unwrap_or("")));
            }
            let labels = vec![format!("directed:{id}"), "directed".to_string()];
            let files = if input["files"].is_object() { Some(&input["files"]) } else { None };
            return judge_program_files(text, files, input["stdout"].as_str(), None, key, labels, true, ctx);
        }
        let labels: Vec<String> = input["labels"]
            .as_array()
            .map(|a| a.iter().filter_map(|x| x.as_str().map(|s| s.to_string())).collect())
            .unwrap_or_default();
        let nt = labels.iter().any(|l| l == "names:hostile-item" || l == "names:hostile-field");
        let expected = Expected::from_json(&input["expected"]);
        judge_program(text, None, Some(&expected), key, labels, nt, ctx)
    }
    fn setup(&self, _ctx: &mut Ctx) -> Result<Value, String> {
        behave::calibrate()
    }
    fn rule(&self) -> String {
        "mangle: the compiler's own name-encoding functions (go_ident, go_type_name_for, ref_struct_name, array_helper_fn_name, trait_impl_fn_name, inherent_method_fn_name) are called on EVERY identifier over {A,B,a,b,_,1} of length <= 3 (4 thorough) and on every pair / (trait,type) / (type,method) / (type,length) combination of the length <= 2 (3) identifiers (about 10^3..10^6 entities per class); two distinct entities with one Go identifier, or a user name that comes out as a Go keyword or predeclared name, is a violation. directed: 29 hand-built programs, one per collision family (user function named like a Go builtin, keyword, runtime helper, compiler temporary or mono instance; user type named like a generated tuple/ref/closure type; case-folded Ref structs; underscore-joined tuple and trait-impl names; keyword field names ...): the program must build and print the expected output. renamed*: type-directed random programs whose function, type, field and local names are drawn from pools of Go keywords, predeclared identifiers, runtime-helper and temporary look-alikes: the emitted Go must type-check (no redeclaration / capture) and behave as the name-independent reference interpreter says (= behaviour is invariant under renaming). Families closed by open known findings are skipped and counted. Non-trivial = program declares an item or field with a hostile name; distinct by text.".into()
    }
    fn assumptions(&self) -> Vec<String> {
        vec![
            "the encoding functions called directly are the ones the Go backend uses for the same entities".into(),
            "miniGo's redeclaration / scope rules stand for go build's".into(),
        ]
    }
    fn required_labels(&self, _tier: Tier) -> Vec<&'static str> {
        vec!["mangle", "directed", "names:hostile-item", "names:hostile-field", "names:hostile-local", "twin:generic-instances", "twin:enum", "names:hostile-method"]
    }
    fn max_discard_fraction(&self) -> f64 {
        0.25
    }
}
