//! C10 — numbers mean what they say.
//!
//! Phases: `literals8` (exhaustive spellings of 8-bit literals), `literals`
//! (boundary / random literals of all eight integer types), `tables8` (all
//! 65 536 operand pairs of int8 / uint8 for every operator, computed by
//! generated goml loops), `wide` (16/32/64-bit operators on boundary and
//! random operands, as variables and as literal-literal expressions) and
//! `floats` (float32 / float64 arithmetic, literals, `*_to_string`).
//!
//! Expected values come from Rust's own fixed-width arithmetic
//! (`wrapping_*`, `checked_div`, `f32` / `f64`); the emitted Go is executed by
//! miniGo.

use crate::behave::{self, GoCheck};
use crate::driver::*;
use crate::gen::model::IK;
use crate::goml::{self, CompileRes};
use crate::util::*;
use serde_json::{json, Value};

pub struct C10;

pub const GATE_NEG_UNSIGNED: &str = "neg:unsigned-literal";
pub const GATE_PAT_UNSUFFIXED: &str = "pattern:unsuffixed-int";
pub const GATE_F2S: &str = "float:to-string";

const INTS: [IK; 8] = [IK::I8, IK::I16, IK::I32, IK::I64, IK::U8, IK::U16, IK::U32, IK::U64];

// ---------------------------------------------------------------------------
// reference arithmetic

#[derive(Clone, Copy, PartialEq, Eq, Debug)]
pub enum Op {
    Add,
    Sub,
    Mul,
    Div,
    Lt,
    Gt,
    Le,
    Ge,
    Eq,
    Ne,
    Neg,
}

pub const BIN_OPS: [Op; 10] = [Op::Add, Op::Sub, Op::Mul, Op::Div, Op::Lt, Op::Gt, Op::Le, Op::Ge, Op::Eq, Op::Ne];

impl Op {
    pub fn text(self) -> &'static str {
        match self {
            Op::Add => "+",
            Op::Sub => "-",
            Op::Mul => "*",
            Op::Div => "/",
            Op::Lt => "<",
            Op::Gt => ">",
            Op::Le => "<=",
            Op::Ge => ">=",
            Op::Eq => "==",
            Op::Ne => "!=",
            Op::Neg => "neg",
        }
    }
    pub fn is_cmp(self) -> bool {
        matches!(self, Op::Lt | Op::Gt | Op::Le | Op::Ge | Op::Eq | Op::Ne)
    }
}

#[derive(Clone, Copy, PartialEq, Eq, Debug)]
pub enum R {
    Int(i128),
    Bool(bool),
    DivZero,
}

/// `a op b` in Rust's arithmetic of the corresponding fixed-width type
pub fn eval(k: IK, op: Op, a: i128, b: i128) -> R {
    macro_rules! go {
        ($t:ty) => {{
            let x = a as $t;
            let y = b as $t;
            match op {
                Op::Add => R::Int(x.wrapping_add(y) as i128),
                Op::Sub => R::Int(x.wrapping_sub(y) as i128),
                Op::Mul => R::Int(x.wrapping_mul(y) as i128),
                Op::Div => match x.checked_div(y) {
                    Some(q) => R::Int(q as i128),
                    None => {
                        if y == 0 {
                            R::DivZero
                        } else {
                            // MIN / -1: Go defines the result as MIN (no trap)
                            R::Int(x.wrapping_div(y) as i128)
                        }
                    }
                },
                Op::Lt => R::Bool(x < y),
                Op::Gt => R::Bool(x > y),
                Op::Le => R::Bool(x <= y),
                Op::Ge => R::Bool(x >= y),
                Op::Eq => R::Bool(x == y),
                Op::Ne => R::Bool(x != y),
                Op::Neg => R::Int(x.wrapping_neg() as i128),
            }
        }};
    }
    match k {
        IK::I8 => go!(i8),
        IK::I16 => go!(i16),
        IK::I32 => go!(i32),
        IK::I64 => go!(i64),
        IK::U8 => go!(u8),
        IK::U16 => go!(u16),
        IK::U32 => go!(u32),
        IK::U64 => go!(u64),
    }
}

/// the exact (unbounded) result differs from the fixed-width one
fn wrapped(k: IK, op: Op, a: i128, b: i128) -> bool {
    let exact = match op {
        Op::Add => a + b,
        Op::Sub => a - b,
        Op::Mul => a.checked_mul(b).unwrap_or(i128::MAX),
        Op::Neg => -a,
        Op::Div => {
            if b == 0 {
                return true;
            }
            a / b
        }
        _ => return false,
    };
    exact < k.min() || exact > k.max()
}

// ---------------------------------------------------------------------------
// spelling values

/// an in-range value of type `k` as a goml expression that goml is known to
/// accept: `5i8`, `(-5i8)`, `(-127i8 - 1i8)` for the minimum
pub fn safe_lit(k: IK, v: i128) -> String {
    let s = k.suffix();
    if v >= 0 {
        format!("{v}{s}")
    } else if v == k.min() {
        format!("(-{}{s} - 1{s})", k.max())
    } else {
        format!("(-{}{s})", -v)
    }
}

// ---------------------------------------------------------------------------
// running a program

pub enum RunOut {
    /// goml rejected the program (messages)
    Rejected(Vec<String>),
    Discard(String),
    Fail(String, String),
    /// stdout, ended by integer division by zero
    Ran(String, bool),
}

fn big_opts() -> minigo::RunOpts {
    let mut o = behave::go_opts();
    o.max_steps = 60_000_000;
    o.max_output = 8 << 20;
    o
}

pub fn compile_run(ctx: &Ctx, text: &str) -> RunOut {
    let go = match goml::compile_single(ctx, text) {
        CompileRes::Panic(p) => return RunOut::Fail(format!("C10|panic|{}", p.signature()), format!("the compiler panics: {} ({}:{})", p.message, p.file, p.line)),
        CompileRes::Err(e) => return RunOut::Rejected(goml::diag_messages(e.diagnostics())),
        CompileRes::Ok(_, go) => go,
    };
    let prog = match behave::go_check(&go) {
        GoCheck::Ok(p) => p,
        GoCheck::Unsupported(u) => return RunOut::Discard(format!("minigo:{u}")),
        GoCheck::Rejected(errs) => {
            return RunOut::Fail(
                format!("C10|go-rejected|{}", errs[0].rule),
                format!("goml accepts the program but the emitted Go does not build:\n{}", behave::describe_go_errors(&errs, &go)),
            )
        }
    };
    let r = minigo::run(&prog, &big_opts());
    let out = String::from_utf8_lossy(&r.stdout).to_string();
    match &r.end {
        minigo::End::Exit0 => RunOut::Ran(out, false),
        minigo::End::Panic(minigo::PanicKind::DivideByZero, _) => RunOut::Ran(out, true),
        minigo::End::Panic(k, m) => RunOut::Fail(format!("C10|go-panic|{:?}", k), format!("the Go program panics: {:?} {m}\nstdout so far:\n{}", k, truncate_str(&out, 400))),
        minigo::End::StepLimit | minigo::End::OutputLimit => RunOut::Discard("minigo:limit".into()),
        minigo::End::Unsupported(u) => RunOut::Discard(format!("minigo-run:{}", u.split(' ').next().unwrap_or(""))),
    }
}

/// first differing whitespace-separated token of two outputs
fn first_diff(expected: &str, actual: &str) -> String {
    let el: Vec<&str> = expected.lines().collect();
    let al: Vec<&str> = actual.lines().collect();
    for (i, e) in el.iter().enumerate() {
        let a = al.get(i).copied().unwrap_or("<missing line>");
        if *e != a {
            let et: Vec<&str> = e.split(' ').collect();
            let at: Vec<&str> = a.split(' ').collect();
            for (j, x) in et.iter().enumerate() {
                let y = at.get(j).copied().unwrap_or("<missing>");
                if *x != y {
                    return format!("line {i} item {j}: expected {x:?}, got {y:?} (line starts {:?})", truncate_str(e, 24));
                }
            }
            return format!("line {i}: expected {:?}, got {:?}", truncate_str(e, 80), truncate_str(a, 80));
        }
    }
    if al.len() > el.len() {
        return format!("{} extra output lines, first {:?}", al.len() - el.len(), truncate_str(al[el.len()], 80));
    }
    "outputs differ only in the final newline".into()
}

// ---------------------------------------------------------------------------
// phase literals8 / literals

#[derive(Clone, Copy, PartialEq, Eq, Debug)]
enum Sp {
    Suf,
    SufAnnot,
    Unsuf,
    Operand,
    PatSuf,
    PatUnsuf,
}

const SPELLINGS: [Sp; 6] = [Sp::Suf, Sp::SufAnnot, Sp::Unsuf, Sp::Operand, Sp::PatSuf, Sp::PatUnsuf];

impl Sp {
    fn name(self) -> &'static str {
        match self {
            Sp::Suf => "suffixed",
            Sp::SufAnnot => "suffixed-annotated",
            Sp::Unsuf => "unsuffixed-annotated",
            Sp::Operand => "suffixed-operand",
            Sp::PatSuf => "pattern-suffixed",
            Sp::PatUnsuf => "pattern-unsuffixed",
        }
    }
}

fn parse_mag(digits: &str) -> Option<i128> {
    let t = digits.trim_start_matches('0');
    if t.is_empty() {
        return Some(0);
    }
    if t.len() > 38 {
        return None;
    }
    t.parse::<i128>().ok()
}

fn near_boundary(k: IK, v: i128) -> bool {
    let mut bs = vec![k.min(), k.max(), 0];
    for j in [IK::I32, IK::U32] {
        bs.push(j.min());
        bs.push(j.max());
    }
    bs.iter().any(|b| (v - b).abs() <= 1)
}

/// One literal case: type, written digits (magnitude, maybe with leading
/// zeros), sign, spelling.
fn literal_case(k: IK, digits: &str, neg: bool, sp: Sp) -> Value {
    let mag = parse_mag(digits);
    let t = k.name();
    let s = k.suffix();
    let sign = if neg { "-" } else { "" };
    // what the statement demands
    let (must_reject, expect): (bool, Option<i128>) = match mag {
        None => (true, None),
        Some(m) => {
            if !neg {
                if m <= k.max() {
                    (false, Some(m))
                } else {
                    (true, None)
                }
            } else if k.signed() {
                if m <= k.max() {
                    (false, Some(-m))
                } else if -m == k.min() {
                    // `-128i8`: the value fits, the literal 128i8 does not: either answer is fine
                    (false, Some(-m))
                } else {
                    (true, None)
                }
            } else if m <= k.max() {
                // negation of an in-range unsigned literal: wraps if it is accepted at all
                (false, Some(k.wrap(-m)))
            } else {
                (true, None)
            }
        }
    };
    let is_pat = matches!(sp, Sp::PatSuf | Sp::PatUnsuf);
    let (text, expect_out) = if !is_pat {
        let body = match sp {
            Sp::Suf => format!("    let x = {sign}{digits}{s};\n    let _ = string_println({t}_to_string(x));\n"),
            Sp::SufAnnot => format!("    let x: {t} = {sign}{digits}{s};\n    let _ = string_println({t}_to_string(x));\n"),
            Sp::Unsuf => format!("    let x: {t} = {sign}{digits};\n    let _ = string_println({t}_to_string(x));\n"),
            _ => format!("    let z = ref(0{s});\n    let _ = string_println({t}_to_string(ref_get(z) + {sign}{digits}{s}));\n"),
        };
        (format!("fn main() {{\n{body}    ()\n}}\n"), expect.map(|v| format!("{v}\n")))
    } else {
        let pat = match sp {
            Sp::PatSuf => format!("{sign}{digits}{s}"),
            _ => format!("{sign}{digits}"),
        };
        let (hit, miss) = match expect {
            Some(v) => (v, if v == k.max() { v - 1 } else { v + 1 }),
            None => (0, 1),
        };
        let text = format!(
            "fn f(x: {t}) -> string {{\n    match x {{\n        {pat} => \"hit\",\n        _ => \"miss\",\n    }}\n}}\n\nfn main() {{\n    let _ = string_println(f({}));\n    let _ = string_println(f({}));\n    ()\n}}\n",
            safe_lit(k, hit),
            safe_lit(k, miss)
        );
        (text, expect.map(|_| "hit\nmiss\n".to_string()))
    };
    let boundary = match mag {
        Some(m) => near_boundary(k, if neg { -m } else { m }),
        None => true,
    };
    json!({
        "kind": "literal", "text": text, "ty": t, "spelling": sp.name(),
        "written": format!("{sign}{digits}"), "must_reject": must_reject,
        "shape": if neg && !k.signed() && mag.map_or(false, |m| m > 0 && m <= k.max()) { "neg-unsigned-literal" } else { "plain" },
        "expect_out": expect_out, "boundary": boundary || digits.starts_with('0') && digits.len() > 1,
    })
}

const LIT8_RANGE: i128 = 300;

fn literals8_count() -> u64 {
    2 * SPELLINGS.len() as u64 * (2 * LIT8_RANGE as u64 + 1)
}

fn make_literal8(index: u64, ctx: &mut Ctx) -> Value {
    let nv = 2 * LIT8_RANGE as u64 + 1;
    let v = (index % nv) as i128 - LIT8_RANGE;
    let sp = SPELLINGS[((index / nv) % SPELLINGS.len() as u64) as usize];
    let k = if index / (nv * SPELLINGS.len() as u64) == 0 { IK::I8 } else { IK::U8 };
    gate_literal(k, &v.abs().to_string(), v < 0, sp, ctx)
}

/// known-broken shapes are replaced by a neighbouring, working one
fn gate_literal(k: IK, digits: &str, neg: bool, sp: Sp, ctx: &mut Ctx) -> Value {
    let mut neg = neg;
    let mut sp = sp;
    let in_range = parse_mag(digits).map_or(false, |m| m <= k.max());
    if neg && !k.signed() && in_range && parse_mag(digits) != Some(0) && !matches!(sp, Sp::PatSuf | Sp::PatUnsuf | Sp::Unsuf) && ctx.gated(GATE_NEG_UNSIGNED) {
        neg = false;
    }
    if sp == Sp::PatUnsuf && k != IK::I32 && !neg && in_range && ctx.gated(GATE_PAT_UNSUFFIXED) {
        sp = Sp::PatSuf;
    }
    literal_case(k, digits, neg, sp)
}

fn boundary_values(k: IK) -> Vec<i128> {
    vec![k.min() - 1, k.min(), k.min() + 1, -1, 0, 1, k.max() - 1, k.max(), k.max() + 1]
}

fn make_literal(d: &mut Dec, ctx: &mut Ctx) -> Value {
    // byte 0 => int16, first boundary, suffixed
    let k = [IK::I16, IK::I32, IK::I64, IK::U16, IK::U32, IK::U64, IK::I8, IK::U8][d.weighted(&[4, 4, 4, 4, 4, 4, 1, 1])];
    let sp = SPELLINGS[d.below(SPELLINGS.len())];
    let (mut digits, neg): (String, bool) = match d.below(6) {
        0 => {
            let v = d.pick(&boundary_values(k));
            (v.abs().to_string(), v < 0)
        }
        1 => {
            let k2 = d.pick(&INTS);
            let v = d.pick(&boundary_values(k2));
            (v.abs().to_string(), v < 0)
        }
        2 => {
            let e = d.below(71) as u32;
            let v = (1i128 << e) + d.range(-1, 1) as i128;
            (v.abs().to_string(), d.chance(64))
        }
        3 => {
            // random value of the type
            let raw = d.u64() as i128 & ((1i128 << k.bits()) - 1);
            let v = k.wrap(raw);
            (v.abs().to_string(), v < 0)
        }
        4 => {
            let n = 1 + d.below(25);
            let mut s = String::new();
            for i in 0..n {
                let c = d.below(10) as u8;
                s.push((b'0' + if i == 0 && c == 0 { 1 } else { c }) as char);
            }
            (s, d.chance(48))
        }
        _ => {
            let pick = d.below(4);
            let s = match pick {
                0 => format!("1{}", "0".repeat(40)),
                1 => "340282366920938463463374607431768211456".to_string(), // 2^128
                2 => "170141183460469231731687303715884105728".to_string(), // 2^127
                _ => format!("{}{}", k.max(), d.below(10)),
            };
            (s, d.chance(48))
        }
    };
    if d.chance(40) {
        digits = format!("{}{}", "0".repeat(1 + d.below(20)), digits);
    }
    gate_literal(k, &digits, neg, sp, ctx)
}

fn judge_literal(input: &Value, ctx: &mut Ctx) -> CaseOut {
    let text = input["text"].as_str().unwrap_or("");
    let key = fnv_str(text);
    let sp = input["spelling"].as_str().unwrap_or("?");
    let ty = input["ty"].as_str().unwrap_or("?");
    let must_reject = input["must_reject"].as_bool().unwrap_or(false);
    let expect_out = input["expect_out"].as_str();
    let boundary = input["boundary"].as_bool().unwrap_or(false);
    let mut labels = vec![format!("spelling:{sp}"), format!("ty:{ty}")];
    match compile_run(ctx, text) {
        RunOut::Fail(mut sig, detail) => {
            if sig.starts_with("C10|go-rejected|") && input["shape"].as_str() == Some("neg-unsigned-literal") {
                sig.push_str("|neg-unsigned-literal");
            }
            CaseOut::fail(sig, format!("literal {} at {ty} ({sp})\n{detail}\n--- program\n{text}", input["written"]), key)
        }
        RunOut::Discard(r) => CaseOut::discard(&r),
        RunOut::Rejected(msgs) => {
            if must_reject {
                labels.push("out-of-range:rejected".into());
                CaseOut::pass(true, key).labelled(labels)
            } else {
                // the statement speaks about accepted literals only
                labels.push(format!("in-range-rejected:{sp}"));
                let _ = msgs;
                CaseOut::pass(false, key).labelled(labels)
            }
        }
        RunOut::Ran(out, divzero) => {
            if must_reject {
                return CaseOut::fail(
                    format!("C10|literal|out-of-range-accepted|{sp}"),
                    format!("the out-of-range literal {} is accepted at {ty} ({sp}); the program prints {:?}\n--- program\n{text}", input["written"], truncate_str(&out, 80)),
                    key,
                );
            }
            let want = expect_out.unwrap_or("");
            if divzero || out != want {
                return CaseOut::fail(
                    format!("C10|literal|wrong-value|{sp}"),
                    format!("literal {} at {ty} ({sp}): expected output {want:?}, got {out:?}{}\n--- program\n{text}", input["written"], if divzero { " and a division-by-zero failure" } else { "" }),
                    key,
                );
            }
            labels.push("in-range:accepted".into());
            CaseOut::pass(boundary, key).labelled(labels)
        }
    }
}

// ---------------------------------------------------------------------------
// phase tables8

const ROWS_PER_CHUNK: i128 = 32;
const CHUNKS: u64 = 8;

fn tables8_count() -> u64 {
    // per type: 10 operators x 8 row chunks, 1 negation table, 2 loops running into a zero divisor,
    // 256 dividends x {variable zero, literal zero}
    2 * (10 * CHUNKS + 1 + 2 + 512)
}

fn row_label(a: i128) -> String {
    format!("{a}:")
}

/// loop program over rows a0..a0+rows and all 256 values of b (starting at `b0`, wrapping)
fn table_program(k: IK, op: Op, a0: i128, rows: i128, b0: i128, cols: i128, variant: u64, skip_zero: bool) -> (String, String, bool) {
    let t = k.name();
    let s = k.suffix();
    let cell = match op {
        Op::Div if skip_zero => format!(
            "if y == 0{s} {{\n                string_print(\"Z \")\n            }} else {{\n                string_print({t}_to_string(x / y) + \" \")\n            }}"
        ),
        o if o.is_cmp() => {
            if variant % 2 == 0 {
                format!("string_print(if x {} y {{ \"1 \" }} else {{ \"0 \" }})", o.text())
            } else {
                format!("string_print(bool_to_string(x {} y) + \" \")", o.text())
            }
        }
        o => format!("string_print({t}_to_string(x {} y) + \" \")", o.text()),
    };
    let text = format!(
        "fn main() {{\n    let a = ref({a_start});\n    let i = ref(0);\n    let _ = while ref_get(i) < {rows} {{\n        let _ = string_print({t}_to_string(ref_get(a)) + \":\");\n        let b = ref({b_start});\n        let j = ref(0);\n        let _ = while ref_get(j) < {cols} {{\n            let x = ref_get(a);\n            let y = ref_get(b);\n            let _ = {cell};\n            let _ = ref_set(b, ref_get(b) + 1{s});\n            ref_set(j, ref_get(j) + 1)\n        }};\n        let _ = string_println(\"\");\n        let _ = ref_set(a, ref_get(a) + 1{s});\n        ref_set(i, ref_get(i) + 1)\n    }};\n    ()\n}}\n",
        a_start = safe_lit(k, a0),
        b_start = safe_lit(k, b0),
    );
    // expected
    let mut out = String::new();
    let mut a = a0;
    for _ in 0..rows {
        out.push_str(&row_label(a));
        let mut b = b0;
        for _ in 0..cols {
            match eval(k, op, a, b) {
                R::Int(v) => out.push_str(&format!("{v} ")),
                R::Bool(v) => {
                    if variant % 2 == 0 {
                        out.push_str(if v { "1 " } else { "0 " })
                    } else {
                        out.push_str(if v { "true " } else { "false " })
                    }
                }
                R::DivZero => {
                    if skip_zero {
                        out.push_str("Z ")
                    } else {
                        return (text, out, true);
                    }
                }
            }
            b = k.wrap(b + 1);
        }
        out.push('\n');
        a = k.wrap(a + 1);
    }
    (text, out, false)
}

fn neg_program(k: IK) -> (String, String) {
    let t = k.name();
    let s = k.suffix();
    let text = format!(
        "fn main() {{\n    let a = ref({a_start});\n    let i = ref(0);\n    let _ = while ref_get(i) < 256 {{\n        let x = ref_get(a);\n        let _ = string_println({t}_to_string(x) + \":\" + {t}_to_string(-x) + \" \" + {t}_to_string(-(-x)));\n        let _ = ref_set(a, ref_get(a) + 1{s});\n        ref_set(i, ref_get(i) + 1)\n    }};\n    ()\n}}\n",
        a_start = safe_lit(k, k.min()),
    );
    let mut out = String::new();
    for a in k.min()..=k.max() {
        let R::Int(n) = eval(k, Op::Neg, a, 0) else { unreachable!() };
        let R::Int(nn) = eval(k, Op::Neg, n, 0) else { unreachable!() };
        out.push_str(&format!("{a}:{n} {nn}\n"));
    }
    (text, out)
}

fn divzero_program(k: IK, a: i128, literal_zero: bool) -> (String, String) {
    let t = k.name();
    let s = k.suffix();
    let text = if literal_zero {
        format!(
            "fn main() {{\n    let a = ref({});\n    let _ = string_println(\"before\");\n    let q = ref_get(a) / 0{s};\n    let _ = string_println({t}_to_string(q));\n    let _ = string_println(\"after\");\n    ()\n}}\n",
            safe_lit(k, a)
        )
    } else {
        format!(
            "fn main() {{\n    let a = ref({});\n    let z = ref(1{s});\n    let _ = string_println({t}_to_string(ref_get(a) / ref_get(z)));\n    let _ = ref_set(z, ref_get(z) - 1{s});\n    let q = ref_get(a) / ref_get(z);\n    let _ = string_println({t}_to_string(q));\n    let _ = string_println(\"after\");\n    ()\n}}\n",
            safe_lit(k, a)
        )
    };
    let out = if literal_zero { "before\n".to_string() } else { format!("{a}\n") };
    (text, out)
}

fn make_table8(index: u64) -> Value {
    let per = tables8_count() / 2;
    let k = if index / per == 0 { IK::I8 } else { IK::U8 };
    let i = index % per;
    let (text, out, divzero, op, what): (String, String, bool, &str, String) = if i < 10 * CHUNKS {
        let op = BIN_OPS[(i / CHUNKS) as usize];
        let chunk = i % CHUNKS;
        let a0 = k.min() + chunk as i128 * ROWS_PER_CHUNK;
        let (t, o, dz) = table_program(k, op, a0, ROWS_PER_CHUNK, k.min(), 256, chunk, true);
        (t, o, dz, op.text(), format!("rows {a0}..{} x all 256 right operands", a0 + ROWS_PER_CHUNK - 1))
    } else if i == 10 * CHUNKS {
        let (t, o) = neg_program(k);
        (t, o, false, "neg", "all 256 operands".into())
    } else if i < 10 * CHUNKS + 3 {
        // a loop that runs into the zero divisor
        let first = i == 10 * CHUNKS + 1;
        let b0 = if k.signed() { -5 } else { 250 };
        let a0 = if first { k.max() } else { k.min() };
        let (t, o, dz) = table_program(k, Op::Div, a0, 1, b0, 16, 0, false);
        (t, o, dz, "/", format!("dividend {a0}, divisors {b0}.. up to zero"))
    } else {
        let j = i - (10 * CHUNKS + 3);
        let a = k.min() + (j / 2) as i128;
        let lit = j % 2 == 1;
        let (t, o) = divzero_program(k, a, lit);
        (t, o, true, "/0", format!("dividend {a}, {} zero divisor", if lit { "literal" } else { "variable" }))
    };
    json!({"kind":"run","tag":format!("table8|{}|{}", k.name(), op),"text":text,"expect_out":out,"expect_divzero":divzero,
           "what":what,"nontrivial":true,"labels":[format!("table8:{}", op), format!("ty:{}", k.name())]})
}

// ---------------------------------------------------------------------------
// phase wide

fn operand(d: &mut Dec, k: IK) -> i128 {
    let half = 1i128 << (k.bits() / 2);
    let third = 1i128 << (k.bits() / 3);
    match d.below(4) {
        0 => d.pick(&[k.min(), k.max(), 0, 1, if k.signed() { -1 } else { 2 }, k.min() + 1, k.max() - 1]),
        1 => {
            let v = d.pick(&[half, half - 1, half + 1, third, k.max() / 2, k.max() / 2 + 1, k.max() / 3, 2, 3, 7, 10]);
            if k.signed() && d.chance(96) {
                -v
            } else {
                v
            }
        }
        2 => {
            // small
            let v = d.range(0, 20) as i128;
            if k.signed() && d.chance(96) {
                -v
            } else {
                v
            }
        }
        _ => k.wrap(d.u64() as i128 & ((1i128 << k.bits()) - 1)),
    }
}

fn make_wide(d: &mut Dec, ctx: &mut Ctx) -> Value {
    let k = [IK::I16, IK::I32, IK::I64, IK::U16, IK::U32, IK::U64, IK::I8, IK::U8][d.weighted(&[3, 3, 3, 3, 3, 3, 1, 1])];
    let t = k.name();
    let n_ops = 1 + d.below(6);
    let mut body = String::new();
    let mut helpers = String::new();
    let mut out = String::new();
    let mut ops: Vec<String> = vec![];
    let mut divzero = false;
    let mut nontrivial = false;
    let mut labels: Vec<String> = vec![format!("ty:{t}")];
    let neg_unsigned_gated = !k.signed() && ctx.gated(GATE_NEG_UNSIGNED);
    for i in 0..n_ops {
        let op = [Op::Add, Op::Sub, Op::Mul, Op::Div, Op::Lt, Op::Gt, Op::Le, Op::Ge, Op::Eq, Op::Ne, Op::Neg][d.weighted(&[4, 4, 4, 5, 1, 1, 1, 1, 1, 1, 2])];
        let a = operand(d, k);
        let mut b = operand(d, k);
        if op == Op::Div && d.chance(24) {
            b = 0;
        }
        if op.is_cmp() && d.chance(64) {
            b = a;
        }
        if op != Op::Neg && d.chance(26) {
            // both operands are the SAME variable (x / x, x - x, x == x ..), zero included: x / x fails for x == 0
            let a = if op == Op::Div && d.chance(110) { 0 } else { a };
            let la = safe_lit(k, a);
            let rt = if op.is_cmp() { "bool" } else { t };
            let expr = if d.bool() {
                helpers.push_str(&format!("fn s{i}(p: {t}) -> {rt} {{\n    p {} p\n}}\n\n", op.text()));
                format!("s{i}({la})")
            } else {
                body.push_str(&format!("    let a{i}: {t} = {la};\n"));
                format!("a{i} {} a{i}", op.text())
            };
            labels.push("form:same-operand".into());
            ops.push(format!("{} {} same", a, op.text()));
            body.push_str(&format!("    let _ = string_println({rt}_to_string({expr}));\n"));
            nontrivial = true;
            match eval(k, op, a, a) {
                R::Int(v) => out.push_str(&format!("{v}\n")),
                R::Bool(v) => out.push_str(&format!("{v}\n")),
                R::DivZero => {
                    divzero = true;
                    labels.push("result:divzero".into());
                    labels.push("form:same-operand-zero".into());
                    body.push_str("    let _ = string_println(\"after\");\n");
                    break;
                }
            }
            continue;
        }
        let form = d.below(7);
        if form >= 5 && op != Op::Neg && !op.is_cmp() {
            // compound: (a op b) op2 c, or through a helper function, intermediate wrap included
            let c = operand(d, k);
            let op2 = d.pick(&[Op::Add, Op::Sub, Op::Mul, Op::Div]);
            let (la, lb, lc) = (safe_lit(k, a), safe_lit(k, b), safe_lit(k, c));
            let left = d.bool();
            let expr = if form == 5 {
                labels.push("form:compound-lit".into());
                if left { format!("({la} {} {lb}) {} {lc}", op.text(), op2.text()) } else { format!("{lc} {} ({la} {} {lb})", op2.text(), op.text()) }
            } else {
                labels.push("form:compound-fn".into());
                helpers.push_str(&format!("fn h{i}(p: {t}, q: {t}, r: {t}) -> {t} {{\n    {}\n}}\n\n", if left { format!("(p {} q) {} r", op.text(), op2.text()) } else { format!("r {} (p {} q)", op2.text(), op.text()) }));
                format!("h{i}({la}, {lb}, {lc})")
            };
            body.push_str(&format!("    let _ = string_println({t}_to_string({expr}));\n"));
            ops.push(format!("{} {}{} {} {}", a, op.text(), op2.text(), b, c));
            let r1 = eval(k, op, a, b);
            let r = match r1 {
                R::Int(m) => if left { eval(k, op2, m, c) } else { eval(k, op2, c, m) },
                other => other,
            };
            nontrivial = true;
            if wrapped(k, op, a, b) {
                labels.push("result:wrapped".into());
            }
            match r {
                R::Int(v) => out.push_str(&format!("{v}\n")),
                R::Bool(v) => out.push_str(&format!("{v}\n")),
                R::DivZero => {
                    divzero = true;
                    labels.push("result:divzero".into());
                    body.push_str("    let _ = string_println(\"after\");\n");
                    break;
                }
            }
            continue;
        }
        let form = form % 5;
        // plain (unsuffixed) spelling of non-negative int32 literals
        let lit = |v: i128, plain: bool| -> String {
            if plain && k == IK::I32 && v >= 0 {
                v.to_string()
            } else {
                safe_lit(k, v)
            }
        };
        let plain = d.chance(96);
        let (la, lb) = (lit(a, plain), lit(b, plain));
        let r = if op == Op::Neg { eval(k, op, a, 0) } else { eval(k, op, a, b) };
        let expr = if op == Op::Neg {
            match form {
                0 | 1 if !(neg_unsigned_gated && a != 0) => {
                    labels.push("form:neg-literal".into());
                    format!("-{la}")
                }
                2 => {
                    body.push_str(&format!("    let r{i} = ref({la});\n"));
                    labels.push("form:ref".into());
                    format!("-ref_get(r{i})")
                }
                _ => {
                    body.push_str(&format!("    let a{i}: {t} = {la};\n"));
                    labels.push("form:var".into());
                    format!("-a{i}")
                }
            }
        } else {
            match form {
                0 => {
                    labels.push("form:lit-lit".into());
                    format!("{la} {} {lb}", op.text())
                }
                1 => {
                    body.push_str(&format!("    let a{i}: {t} = {la};\n"));
                    labels.push("form:var-lit".into());
                    format!("a{i} {} {lb}", op.text())
                }
                2 => {
                    body.push_str(&format!("    let b{i}: {t} = {lb};\n"));
                    labels.push("form:lit-var".into());
                    format!("{la} {} b{i}", op.text())
                }
                3 => {
                    body.push_str(&format!("    let ra{i} = ref({la});\n    let rb{i} = ref({lb});\n"));
                    labels.push("form:ref".into());
                    format!("ref_get(ra{i}) {} ref_get(rb{i})", op.text())
                }
                _ => {
                    body.push_str(&format!("    let a{i}: {t} = {la};\n    let b{i}: {t} = {lb};\n"));
                    labels.push("form:var".into());
                    format!("a{i} {} b{i}", op.text())
                }
            }
        };
        ops.push(format!("{} {} {}", a, op.text(), b));
        if op.is_cmp() {
            body.push_str(&format!("    let _ = string_println(bool_to_string({expr}));\n"));
        } else if op == Op::Div && d.chance(70) {
            // the quotient is never used: the division still has to happen (it may fail)
            labels.push("form:discarded-quotient".into());
            match d.below(6) {
                0 | 1 => body.push_str(&format!("    let _ = {expr};\n")),
                2 => body.push_str(&format!("    let unused{i}: {t} = {expr};\n")),
                // the quotient is the value of a branch of an if / a match arm / a block used
                // as an expression statement (discarded without a let)
                3 => {
                    labels.push("form:discarded-in-branch".into());
                    body.push_str(&format!("    if true {{\n        {expr}\n    }} else {{\n        {la}\n    }};\n"));
                }
                4 => {
                    labels.push("form:discarded-in-branch".into());
                    body.push_str(&format!("    match 1 {{\n        1 => {expr},\n        _ => {la},\n    }};\n"));
                }
                _ => {
                    labels.push("form:discarded-in-branch".into());
                    body.push_str(&format!("    let _ = if false {{\n        {la}\n    }} else {{\n        let q{i} = {expr};\n        q{i}\n    }};\n"));
                }
            }
            if !matches!(r, R::DivZero) {
                continue;
            }
        } else {
            body.push_str(&format!("    let _ = string_println({t}_to_string({expr}));\n"));
        }
        let at_boundary = |v: i128| v == k.min() || v == k.max() || v == 0;
        if at_boundary(a) || (op != Op::Neg && at_boundary(b)) || wrapped(k, op, a, b) || matches!(r, R::Int(v) if v < 0) {
            nontrivial = true;
        }
        if wrapped(k, op, a, b) {
            labels.push("result:wrapped".into());
        }
        match r {
            R::Int(v) => out.push_str(&format!("{v}\n")),
            R::Bool(v) => out.push_str(&format!("{v}\n")),
            R::DivZero => {
                divzero = true;
                labels.push("result:divzero".into());
                body.push_str("    let _ = string_println(\"after\");\n");
                break;
            }
        }
    }
    labels.sort();
    labels.dedup();
    let text = format!("{helpers}fn main() {{\n{body}    ()\n}}\n");
    json!({"kind":"run","tag":format!("wide|{t}"),"text":text,"expect_out":out,"expect_divzero":divzero,
           "ops":ops,"nontrivial":nontrivial,"labels":labels})
}

fn judge_run(input: &Value, ctx: &mut Ctx) -> CaseOut {
    let text = input["text"].as_str().unwrap_or("");
    let key = fnv_str(text);
    let tag = input["tag"].as_str().unwrap_or("run");
    let want = input["expect_out"].as_str().unwrap_or("");
    let want_dz = input["expect_divzero"].as_bool().unwrap_or(false);
    let labels: Vec<String> = input["labels"].as_array().map(|a| a.iter().filter_map(|x| x.as_str().map(|s| s.to_string())).collect()).unwrap_or_default();
    let show = |t: &str| truncate_str(t, 1800);
    match compile_run(ctx, text) {
        RunOut::Fail(sig, detail) => CaseOut::fail(sig, format!("{detail}\n--- program\n{}", show(text)), key),
        RunOut::Discard(r) => CaseOut::discard(&r),
        RunOut::Rejected(msgs) => CaseOut::fail(
            format!("C10|{tag}|rejected"),
            format!("goml rejects a program made of in-range literals and operators: {:?}\n--- program\n{}", msgs.first(), show(text)),
            key,
        ),
        RunOut::Ran(out, dz) => {
            if out != want {
                // name the operation of the first wrong line
                let line = want.lines().zip(out.lines()).position(|(a, b)| a != b).unwrap_or(want.lines().count().min(out.lines().count()));
                let opname = input["ops"].as_array().and_then(|o| o.get(line)).and_then(|x| x.as_str()).unwrap_or("").to_string();
                let optxt = opname.split(' ').nth(1).unwrap_or("").chars().take(1).collect::<String>();
                let optxt = if opname.contains("neg") { "neg".to_string() } else if opname.split(' ').nth(1).map_or(false, |o| matches!(o, "<=" | ">=" | "==" | "!=")) { opname.split(' ').nth(1).unwrap().to_string() } else { optxt };
                let sig = if optxt.is_empty() { format!("C10|{tag}|value") } else { format!("C10|{tag}|value|{optxt}") };
                return CaseOut::fail(
                    sig,
                    format!("{}{}\n{}\n--- program\n{}", input["what"].as_str().map(|w| format!("{w}: ")).unwrap_or_default(), if opname.is_empty() { String::new() } else { format!("operation {opname}") }, first_diff(want, &out), show(text)),
                    key,
                );
            }
            if dz != want_dz {
                return CaseOut::fail(
                    format!("C10|{tag}|end"),
                    format!(
                        "{}: the program {} but must {}\n--- program\n{}",
                        input["what"].as_str().unwrap_or("run"),
                        if dz { "fails with a division by zero" } else { "ends normally" },
                        if want_dz { "fail at the division by zero" } else { "end normally" },
                        show(text)
                    ),
                    key,
                );
            }
            CaseOut::pass(input["nontrivial"].as_bool().unwrap_or(false), key).labelled(labels)
        }
    }
}

// ---------------------------------------------------------------------------
// phase floats

const NICE: [&str; 30] = [
    "1.0", "0.1", "0.2", "0.3", "0.5", "1.5", "2.0", "3.0", "10.0", "100.0", "0.25", "0.125", "0.7", "1.1", "0.0",
    "16777216.0", "16777217.0", "33554433.0", "0.000001", "1000000.0", "123456.789", "3.14159265358979323846",
    "2.718281828459045235360287", "0.333333333333333333333", "9007199254740993.0", "4294967296.0", "0.1000000000000000055511151231257827",
    "1.00000011920928955078125", "1.0000000596046447753906250", "299792458.0",
];

fn decimal(d: &mut Dec) -> String {
    match d.below(4) {
        0 | 1 => d.pick(&NICE).to_string(),
        2 => {
            let ip = d.below(1000);
            let nf = 1 + d.below(8);
            let mut s = format!("{ip}.");
            for _ in 0..nf {
                s.push((b'0' + d.below(10) as u8) as char);
            }
            s
        }
        _ => {
            // many digits
            let ip = d.below(100);
            let nf = 18 + d.below(30);
            let mut s = format!("{ip}.");
            for _ in 0..nf {
                s.push((b'0' + d.below(10) as u8) as char);
            }
            s
        }
    }
}

/// exact, exponent-free decimal text of a finite non-negative f64
fn f64_text(x: f64) -> String {
    let s = format!("{}", x);
    if s.contains('.') {
        s
    } else {
        format!("{s}.0")
    }
}

/// goml expression for the exact value `x` (which is a value of type `f32` when `is32`)
fn float_lit(x: f64, is32: bool) -> String {
    let suf = if is32 { "f32" } else { "f64" };
    if x.is_sign_negative() && x != 0.0 {
        format!("(-{}{suf})", f64_text(-x))
    } else {
        format!("{}{suf}", f64_text(x.abs()))
    }
}

fn next_up64(x: f64) -> f64 {
    if x == 0.0 {
        return f64::from_bits(1);
    }
    let b = x.to_bits();
    f64::from_bits(if x > 0.0 { b + 1 } else { b - 1 })
}

fn next_up32(x: f32) -> f32 {
    if x == 0.0 {
        return f32::from_bits(1);
    }
    let b = x.to_bits();
    f32::from_bits(if x > 0.0 { b + 1 } else { b - 1 })
}

#[derive(Clone, Copy)]
enum FOp {
    Add,
    Sub,
    Mul,
    Div,
}

impl FOp {
    fn text(self) -> &'static str {
        match self {
            FOp::Add => "+",
            FOp::Sub => "-",
            FOp::Mul => "*",
            FOp::Div => "/",
        }
    }
    fn f64(self, a: f64, b: f64) -> f64 {
        match self {
            FOp::Add => a + b,
            FOp::Sub => a - b,
            FOp::Mul => a * b,
            FOp::Div => a / b,
        }
    }
    fn f32(self, a: f32, b: f32) -> f32 {
        match self {
            FOp::Add => a + b,
            FOp::Sub => a - b,
            FOp::Mul => a * b,
            FOp::Div => a / b,
        }
    }
}

/// value of a float of either width, carried as f64 (exact for f32)
#[derive(Clone, Copy)]
struct FV {
    v: f64,
}

fn fop(is32: bool, op: FOp, a: FV, b: FV) -> (FV, bool) {
    if is32 {
        let r = op.f32(a.v as f32, b.v as f32);
        let wide = op.f64(a.v, b.v);
        (FV { v: r as f64 }, wide != r as f64)
    } else {
        let r = op.f64(a.v, b.v);
        let inexact = match op {
            FOp::Add | FOp::Sub => {
                let bb = if matches!(op, FOp::Sub) { -b.v } else { b.v };
                let s = a.v + bb;
                let bv = s - a.v;
                let err = (a.v - (s - bv)) + (bb - bv);
                err != 0.0
            }
            FOp::Mul => a.v.mul_add(b.v, -r) != 0.0,
            FOp::Div => r.mul_add(b.v, -a.v) != 0.0,
        };
        (FV { v: r }, inexact)
    }
}

fn parse_fv(text: &str, is32: bool) -> Option<FV> {
    if is32 {
        let x: f32 = text.parse().ok()?;
        if !x.is_finite() {
            return None;
        }
        // goml itself refuses decimals above f32::MAX even if they round to it
        let w: f64 = text.parse().ok()?;
        if w > f32::MAX as f64 {
            return None;
        }
        Some(FV { v: x as f64 })
    } else {
        let x: f64 = text.parse().ok()?;
        if !x.is_finite() {
            return None;
        }
        Some(FV { v: x })
    }
}

fn make_floats(d: &mut Dec, ctx: &mut Ctx) -> Value {
    let is32 = !d.bool();
    let t = if is32 { "float32" } else { "float64" };
    let suf = if is32 { "f32" } else { "f64" };
    let mut body = String::new();
    let mut expect: Vec<Value> = vec![];
    let mut labels: Vec<String> = vec![format!("ty:{t}")];
    let mut nontrivial = false;
    let n = 1 + d.below(5);
    let f2s_gated = ctx.gated(GATE_F2S);
    for i in 0..n {
        let shape = d.weighted(&[4, 3, 3, 2, 2, 2, 2]);
        // operands
        let mut vals: Vec<(String, FV)> = vec![];
        for _ in 0..3 {
            let mut txt = decimal(d);
            let mut v = parse_fv(&txt, is32);
            if v.is_none() {
                txt = "1.0".into();
                v = parse_fv(&txt, is32);
            }
            vals.push((txt, v.unwrap()));
        }
        let ops = [d.pick(&[FOp::Add, FOp::Sub, FOp::Mul, FOp::Div]), d.pick(&[FOp::Add, FOp::Sub, FOp::Mul, FOp::Div])];
        let eq_check = |body: &mut String, expect: &mut Vec<Value>, name: &str, r: FV| {
            // exact equality with the expected value and inequality with its neighbour
            let up = if is32 { next_up32(r.v as f32) as f64 } else { next_up64(r.v) };
            body.push_str(&format!("    let _ = string_println(bool_to_string({name} == {}));\n", float_lit(r.v, is32)));
            expect.push(json!({"line":"true","what":format!("{name} == {}", float_lit(r.v, is32))}));
            if up.is_finite() {
                body.push_str(&format!("    let _ = string_println(bool_to_string({name} == {}));\n", float_lit(up, is32)));
                expect.push(json!({"line":"false","what":format!("{name} == next value above")}));
            }
        };
        match shape {
            0 | 1 => {
                // one operation on variables / on two literals
                let (r, inexact) = fop(is32, ops[0], vals[0].1, vals[1].1);
                if !r.v.is_finite() {
                    continue;
                }
                if shape == 0 {
                    body.push_str(&format!("    let x{i}: {t} = {}{suf};\n    let y{i} = {}{suf};\n    let r{i} = x{i} {} y{i};\n", vals[0].0, vals[1].0, ops[0].text()));
                    labels.push("form:var".into());
                } else {
                    body.push_str(&format!("    let r{i} = {}{suf} {} {}{suf};\n", vals[0].0, ops[0].text(), vals[1].0));
                    labels.push("form:lit-lit".into());
                }
                eq_check(&mut body, &mut expect, &format!("r{i}"), r);
                if inexact {
                    nontrivial = true;
                    labels.push("result:rounded".into());
                }
            }
            2 => {
                // chain: rounding after each operation
                let left = d.bool();
                let (r, i1, i2) = if left {
                    let (m, i1) = fop(is32, ops[0], vals[0].1, vals[1].1);
                    let (r, i2) = fop(is32, ops[1], m, vals[2].1);
                    (r, i1, i2)
                } else {
                    let (m, i1) = fop(is32, ops[1], vals[1].1, vals[2].1);
                    let (r, i2) = fop(is32, ops[0], vals[0].1, m);
                    (r, i1, i2)
                };
                if !r.v.is_finite() {
                    continue;
                }
                body.push_str(&format!("    let x{i}: {t} = {}{suf};\n    let y{i}: {t} = {}{suf};\n    let z{i}: {t} = {}{suf};\n", vals[0].0, vals[1].0, vals[2].0));
                if left {
                    body.push_str(&format!("    let r{i} = (x{i} {} y{i}) {} z{i};\n", ops[0].text(), ops[1].text()));
                } else {
                    body.push_str(&format!("    let r{i} = x{i} {} (y{i} {} z{i});\n", ops[0].text(), ops[1].text()));
                }
                labels.push("form:chain".into());
                eq_check(&mut body, &mut expect, &format!("r{i}"), r);
                if i1 && i2 {
                    nontrivial = true;
                    labels.push("result:rounded-twice".into());
                }
            }
            3 => {
                // comparisons
                let (a, mut b) = (vals[0].clone(), vals[1].clone());
                if d.chance(64) {
                    b = a.clone();
                }
                body.push_str(&format!("    let x{i}: {t} = {}{suf};\n    let y{i}: {t} = {}{suf};\n", a.0, b.0));
                for (sym, v) in [("<", a.1.v < b.1.v), ("<=", a.1.v <= b.1.v), (">", a.1.v > b.1.v), (">=", a.1.v >= b.1.v), ("==", a.1.v == b.1.v), ("!=", a.1.v != b.1.v)] {
                    body.push_str(&format!("    let _ = string_println(bool_to_string(x{i} {sym} y{i}));\n"));
                    expect.push(json!({"line": if v { "true" } else { "false" }, "what": format!("{} {sym} {}", a.0, b.0)}));
                }
                labels.push("form:compare".into());
                if a.1.v != b.1.v && (a.1.v - b.1.v).abs() < 1e-6 {
                    nontrivial = true;
                }
            }
            4 => {
                // negation
                let a = vals[0].clone();
                body.push_str(&format!("    let x{i}: {t} = {}{suf};\n    let r{i} = -x{i};\n    let n{i} = -{}{suf};\n", a.0, a.0));
                eq_check(&mut body, &mut expect, &format!("r{i}"), FV { v: -a.1.v });
                body.push_str(&format!("    let _ = string_println(bool_to_string(n{i} == r{i}));\n"));
                expect.push(json!({"line":"true","what":"negated literal == negated variable"}));
                labels.push("form:neg".into());
            }
            5 => {
                // a literal with many digits denotes the nearest value of its type
                let (txt, want) = if is32 && d.bool() {
                    // decimals a hair above / below the midpoint of two adjacent float32 values
                    let mut base = (vals[0].1.v as f32).abs().max(0.001);
                    while base > 4.0e6 {
                        base /= 1024.0;
                    }
                    let up = next_up32(base);
                    let mid = (base as f64 + up as f64) / 2.0; // exact in f64
                    let s = format!("{:.70}", mid);
                    let s = s.trim_end_matches('0').to_string();
                    labels.push("literal:f32-midpoint".into());
                    nontrivial = true;
                    let txt = if d.bool() {
                        format!("{s}0000000001")
                    } else {
                        // just below: ...5 -> ...49999999999
                        let mut t = s.clone();
                        t.pop();
                        format!("{t}49999999999")
                    };
                    let want: f32 = txt.parse().unwrap_or(base);
                    debug_assert!(want == up || want == base);
                    (txt, want)
                } else {
                    let nf = 20 + d.below(30);
                    let mut s = format!("{}.", d.below(1000));
                    for _ in 0..nf {
                        s.push((b'0' + d.below(10) as u8) as char);
                    }
                    let v = parse_fv(&s, is32).unwrap();
                    labels.push("literal:many-digits".into());
                    nontrivial = true;
                    (s, v.v as f32)
                };
                let want = if is32 { FV { v: want as f64 } } else { parse_fv(&txt, false).unwrap() };
                body.push_str(&format!("    let r{i} = {txt}{suf};\n"));
                eq_check(&mut body, &mut expect, &format!("r{i}"), want);
            }
            _ => {
                // *_to_string
                let a = vals[0].clone();
                if f2s_gated {
                    body.push_str(&format!("    let r{i} = {}{suf};\n", a.0));
                    eq_check(&mut body, &mut expect, &format!("r{i}"), a.1);
                } else {
                    body.push_str(&format!("    let _ = string_println({t}_to_string({}{suf}));\n", a.0));
                    expect.push(json!({"f2s": a.1.v, "is32": is32, "what": format!("{t}_to_string({}{suf})", a.0)}));
                    labels.push("float-to-string".into());
                }
            }
        }
    }
    labels.sort();
    labels.dedup();
    let text = format!("fn main() {{\n{body}    ()\n}}\n");
    json!({"kind":"float","ty":t,"text":text,"expect":expect,"nontrivial":nontrivial,"labels":labels})
}

/// is `s` a plain decimal rendering of (approximately) `x`?
fn readable_decimal(s: &str, x: f64, is32: bool) -> bool {
    let ok_chars = !s.is_empty() && s.chars().all(|c| c.is_ascii_digit() || matches!(c, '.' | '-' | '+' | 'e' | 'E'));
    if !ok_chars || !s.chars().any(|c| c.is_ascii_digit()) {
        return false;
    }
    let Ok(v) = s.parse::<f64>() else { return false };
    let tol = if is32 { 1e-5 } else { 1e-6 };
    (v - x).abs() <= tol * x.abs().max(1.0)
}

fn judge_float(input: &Value, ctx: &mut Ctx) -> CaseOut {
    let text = input["text"].as_str().unwrap_or("");
    let key = fnv_str(text);
    let ty = input["ty"].as_str().unwrap_or("?");
    let labels: Vec<String> = input["labels"].as_array().map(|a| a.iter().filter_map(|x| x.as_str().map(|s| s.to_string())).collect()).unwrap_or_default();
    let expect = input["expect"].as_array().cloned().unwrap_or_default();
    if expect.is_empty() {
        return CaseOut::discard("float:empty");
    }
    match compile_run(ctx, text) {
        RunOut::Fail(sig, detail) => CaseOut::fail(sig, format!("{detail}\n--- program\n{text}"), key),
        RunOut::Discard(r) => CaseOut::discard(&r),
        RunOut::Rejected(msgs) => CaseOut::fail(
            format!("C10|float|{ty}|rejected"),
            format!("goml rejects a program of finite float literals and operators: {:?}\n--- program\n{text}", msgs.first()),
            key,
        ),
        RunOut::Ran(out, dz) => {
            if dz {
                return CaseOut::fail(format!("C10|float|{ty}|end"), format!("float arithmetic ended in an integer division failure\n--- program\n{text}"), key);
            }
            let lines: Vec<&str> = out.lines().collect();
            if lines.len() != expect.len() {
                return CaseOut::fail(format!("C10|float|{ty}|lines"), format!("expected {} output lines, got {}\n{}\n--- program\n{text}", expect.len(), lines.len(), truncate_str(&out, 400)), key);
            }
            for (e, l) in expect.iter().zip(lines.iter()) {
                let what = e["what"].as_str().unwrap_or("");
                if let Some(want) = e["line"].as_str() {
                    if want != *l {
                        let mid = labels.iter().any(|x| x == "literal:f32-midpoint");
                        let sig = if mid && only_midpoint_lines_fail(&expect, &lines, text) {
                            "C10|float-literal|double-rounding".to_string()
                        } else {
                            format!("C10|float|{ty}|value")
                        };
                        return CaseOut::fail(sig, format!("{what}: expected {want}, the program prints {l}\nfull output: {:?}\n--- program\n{text}", truncate_str(&out, 300)), key);
                    }
                } else if let Some(x) = e["f2s"].as_f64() {
                    if !readable_decimal(l, x, e["is32"].as_bool().unwrap_or(false)) {
                        return CaseOut::fail(
                            "C10|float-to-string".into(),
                            format!("{what} prints {l:?}, which is not a decimal rendering of {x}\n--- program\n{text}"),
                            key,
                        );
                    }
                }
            }
            CaseOut::pass(input["nontrivial"].as_bool().unwrap_or(false), key).labelled(labels)
        }
    }
}

/// the wrong lines all belong to statements whose literal is a midpoint decimal
fn only_midpoint_lines_fail(expect: &[Value], lines: &[&str], text: &str) -> bool {
    // statement index of each check is encoded in its `what` (r<i> ...)
    let mid_stmts: Vec<String> = text
        .lines()
        .filter(|l| l.contains("0000000001f32;") || l.contains("49999999999f32;"))
        .filter_map(|l| l.trim().strip_prefix("let ").and_then(|r| r.split(' ').next()).map(|s| s.to_string()))
        .collect();
    for (e, l) in expect.iter().zip(lines.iter()) {
        if let Some(want) = e["line"].as_str() {
            if want != *l {
                let name = e["what"].as_str().unwrap_or("").split(' ').next().unwrap_or("").to_string();
                if !mid_stmts.contains(&name) {
                    return false;
                }
            }
        }
    }
    true
}

// ---------------------------------------------------------------------------
// calibration of miniGo's numeric semantics

const CALIB_GO: &str = r#"package main

import (
    "fmt"
)

func main() {
    var a int8 = 100
    var b int8 = 100
    fmt.Println(a + b)
    var c int8 = -128
    var m1 int8 = -1
    fmt.Println(c / m1)
    fmt.Println(-c)
    fmt.Println(c * m1)
    var d int32 = -7
    var e int32 = 2
    fmt.Println(d / e)
    var u uint8 = 0
    var one uint8 = 1
    fmt.Println(u - one)
    fmt.Println(-one)
    var x uint64 = 18446744073709551615
    fmt.Println(x + 1)
    fmt.Println(x > 1)
    var s int64 = -1
    var t int64 = 1
    fmt.Println(s < t)
    var w uint16 = 65535
    fmt.Println(w * w)
    var f float32 = 0.1
    var g float32 = 0.2
    var h float32 = 0.3
    fmt.Println(f+g == h)
    var p float64 = 0.1
    var q float64 = 0.2
    var r float64 = 0.3
    fmt.Println(p+q == r)
    var big float32 = 16777216
    var fone float32 = 1
    fmt.Println(big+fone == big)
    fmt.Println(fmt.Sprintf("%d", p))
    fmt.Println(fmt.Sprintf("%d", f))
    var z int8 = 0
    fmt.Println(a / z)
}
"#;

const CALIB_OUT: &str = "-56\n-128\n-128\n-128\n-3\n255\n255\n0\ntrue\ntrue\n1\ntrue\nfalse\ntrue\n%!d(float64=0.1)\n%!d(float32=0.1)\n";

fn calibrate_numbers() -> Result<Value, String> {
    let prog = match behave::go_check(CALIB_GO) {
        GoCheck::Ok(p) => p,
        GoCheck::Unsupported(u) => return Err(format!("miniGo does not support the numeric calibration program: {u}")),
        GoCheck::Rejected(e) => return Err(format!("miniGo rejects the numeric calibration program: {}", behave::describe_go_errors(&e, CALIB_GO))),
    };
    let r = minigo::run(&prog, &behave::go_opts());
    let out = String::from_utf8_lossy(&r.stdout).to_string();
    if out != CALIB_OUT {
        return Err(format!("miniGo numeric calibration: expected {CALIB_OUT:?}, got {out:?}"));
    }
    if !matches!(r.end, minigo::End::Panic(minigo::PanicKind::DivideByZero, _)) {
        return Err(format!("miniGo numeric calibration: expected an integer divide-by-zero panic, got {:?}", r.end));
    }
    // a constant that does not fit must be refused like `go build` does
    let bad = "package main\n\nimport (\n    \"fmt\"\n)\n\nfunc main() {\n    var a uint8 = -1\n    fmt.Println(a)\n}\n";
    if !matches!(behave::go_check(bad), GoCheck::Rejected(_)) {
        return Err("miniGo accepts `var a uint8 = -1`".into());
    }
    // the reference arithmetic itself
    let checks = [
        (eval(IK::I8, Op::Add, 100, 100), R::Int(-56)),
        (eval(IK::I8, Op::Div, -128, -1), R::Int(-128)),
        (eval(IK::I32, Op::Div, -7, 2), R::Int(-3)),
        (eval(IK::U8, Op::Sub, 0, 1), R::Int(255)),
        (eval(IK::U64, Op::Add, u64::MAX as i128, 1), R::Int(0)),
        (eval(IK::U8, Op::Lt, 200, 100), R::Bool(false)),
        (eval(IK::I8, Op::Lt, -56, 100), R::Bool(true)),
        (eval(IK::I16, Op::Div, 5, 0), R::DivZero),
        (eval(IK::U16, Op::Neg, 1, 0), R::Int(65535)),
    ];
    for (i, (got, want)) in checks.iter().enumerate() {
        if got != want {
            return Err(format!("reference arithmetic self-check {i}: {:?} != {:?}", got, want));
        }
    }
    Ok(json!({"minigo_numeric_lines": CALIB_OUT.lines().count(), "reference_self_checks": checks.len()}))
}

// ---------------------------------------------------------------------------

impl Check for C10 {
    fn id(&self) -> &'static str {
        "C10"
    }
    fn phases(&self, tier: Tier) -> Vec<PhaseSpec> {
        vec![
            PhaseSpec { name: "literals8", cases: literals8_count(), max_bytes: 0, exhaustive: true },
            PhaseSpec { name: "literals", cases: tier.pick(40_000, 200_000), max_bytes: 48, exhaustive: false },
            PhaseSpec { name: "tables8", cases: tables8_count(), max_bytes: 0, exhaustive: true },
            PhaseSpec { name: "wide", cases: tier.pick(40_000, 200_000), max_bytes: 160, exhaustive: false },
            PhaseSpec { name: "floats", cases: tier.pick(30_000, 150_000), max_bytes: 200, exhaustive: false },
        ]
    }
    fn make(&self, phase: &str, index: u64, bytes: &[u8], ctx: &mut Ctx) -> Case {
        let mut d = Dec::new(bytes);
        Case::new(match phase {
            "literals8" => make_literal8(index, ctx),
            "literals" => make_literal(&mut d, ctx),
            "tables8" => make_table8(index),
            "wide" => make_wide(&mut d, ctx),
            _ => make_floats(&mut d, ctx),
        })
    }
    fn judge(&self, _phase: &str, case: &Case, ctx: &mut Ctx) -> CaseOut {
        match case.input["kind"].as_str().unwrap_or("") {
            "literal" => judge_literal(&case.input, ctx),
            "float" => judge_float(&case.input, ctx),
            _ => judge_run(&case.input, ctx),
        }
    }
    fn rule(&self) -> String {
        format!(
            "literals8 (exhaustive): int8 and uint8 x every written value -{r}..={r} x 6 spellings (suffixed `let x = 5i8`, suffixed under an annotation, unsuffixed under an annotation, suffixed as an operand of +, suffixed match pattern, unsuffixed match pattern; negative values as unary minus on the magnitude). literals: the 8 integer types x (boundaries MIN-1..MAX+1 of the type and of every other type, 2^k and 2^k+-1 up to 2^70, random values of the type, random digit strings, 2^127/2^128/10^40, optional leading zeros) x the 6 spellings. Oracle: a literal whose value is outside the type must be rejected with an error (never accepted, never a panic); an accepted one must print exactly the written value through <ty>_to_string (pattern spellings: the pattern matches the value and not its neighbour); an in-range spelling goml rejects is counted under in-range-rejected:<spelling>, not failed; `-L` at an unsigned type with L in range may be rejected or must wrap; `-MIN` magnitude (e.g. -128i8) may be rejected or must print MIN. tables8 (exhaustive): for int8 and uint8 every one of the 65 536 operand pairs for + - * / < > <= >= == != (8 programs of 32 rows x 256 columns per operator, operands held in Ref cells and advanced inside nested while loops, so nothing is a compile-time constant; division programs print Z for divisor 0), unary minus and double minus on all 256 values, loops that run into divisor 0, and for every dividend one program dividing by a variable zero and one by a literal zero: these must print everything before the division and then fail with Go's integer-divide-by-zero run-time panic. Expected tables come from Rust wrapping_add/sub/mul/neg, checked_div (MIN / -1 = MIN) and native comparisons at i8/u8. wide: 1-6 operations per program on int8..uint64 (weighted to 16/32/64 bits) with operands from boundaries, half-width powers, small and random values; each operation in one of five forms (literal op literal, variable op literal, literal op variable, Ref cells, two annotated variables; int32 literals also unsuffixed); a zero divisor ends the program, which must then fail exactly there. floats: 1-5 statements per program at float32 or float64: one operation on variables or on two literals, two-operation chains (float32 must round after each operation), the six comparisons, negation, literals with 20-50 digits and float32 literals a hair above/below the midpoint of two adjacent values (must denote the nearest value), *_to_string. Float results are checked inside the program by `r == <exact decimal of the expected value>` (must print true) and `r == <next value above>` (must print false), expected values from Rust f32/f64; *_to_string output must be a decimal number within 1e-5 relative of the value. Non-trivial = a literal within 1 of a boundary of its type or of int32/uint32 (or with leading zeros, or out of range), every 8-bit table, a wide program with an operand at MIN/MAX/0 or a wrapped or negative result or a zero divisor, a float program with an inexact (rounded) result or a many-digit literal; distinct by hash of the program text.",
            r = LIT8_RANGE
        )
    }
    fn assumptions(&self) -> Vec<String> {
        vec![
            "the emitted Go is executed by miniGo, not by the Go toolchain; miniGo's fixed-width wrap-around, truncating division, MIN / -1, divide-by-zero panic, unsigned comparisons, float32 rounding, constant-overflow rejection and %d-on-float text are calibrated in setup against outputs fixed by the Go specification, and its acceptance of the repository's recorded Go outputs by behave::calibrate".into(),
            "Rust's i8..u64 wrapping_* / checked_div and f32 / f64 (IEEE 754 binary32/binary64, round to nearest even) are the reference arithmetic; Rust's decimal-to-float parsing is correctly rounded".into(),
            "Go does not fuse float operations across the separate assignments goml's ANF form produces".into(),
            "float division by zero, NaN, infinities, negative zero and float overflow are not judged (operands are finite decimals of moderate size; statements with a non-finite result are dropped)".into(),
            "values are observed through <ty>_to_string / bool_to_string and string_println; a defect in those that is the same for all values of a type would be attributed to the arithmetic".into(),
        ]
    }
    fn setup(&self, _ctx: &mut Ctx) -> Result<Value, String> {
        let general = behave::calibrate()?;
        let numeric = calibrate_numbers()?;
        Ok(json!({"minigo": general, "numeric": numeric}))
    }
    fn required_labels(&self, _tier: Tier) -> Vec<&'static str> {
        vec![
            "out-of-range:rejected",
            "in-range:accepted",
            "spelling:suffixed",
            "spelling:pattern-suffixed",
            "table8:+",
            "table8:/",
            "table8:/0",
            "table8:<",
            "table8:neg",
            "form:lit-lit",
            "form:compound-lit",
            "form:compound-fn",
            "form:var",
            "form:ref",
            "result:wrapped",
            "result:divzero",
            "ty:int64",
            "ty:uint64",
            "ty:float32",
            "ty:float64",
            "result:rounded",
            "form:chain",
            "literal:many-digits",
        ]
    }
    fn max_discard_fraction(&self) -> f64 {
        0.05
    }
}
