//! C04, phase `cli`: the `goml` command-line binary itself (argument handling, file reading,
//! diagnostic formatting in `crates/compiler/src/main.rs`) on projects written to disk.
//!
//! Generator: corpus and generated projects, disturbed by the file-system operations of the
//! `layouts` phase and by *defects planted in a chosen file* (a parse error appended after many
//! lines of padding, a type error, an unknown import, an empty file) — in particular in files
//! other than the entry file. Every sub-command is run: `run <main.gom>`, and for each package in
//! dependency order `check` and `build`, then `link`.
//!
//! Oracle: the process ends by itself with status 0 or 1 (101 is a Rust panic, a signal is an
//! abort / stack overflow), prints no `panicked at`, says something on stderr when it fails, and
//! every `path: line:col:` it prints names an existing file and a line inside that file.

use crate::driver::*;
use crate::goml;
use crate::sandbox;
use crate::sep;
use crate::util::*;
use serde_json::{json, Value};
use std::path::{Path, PathBuf};
use std::process::{Command, Stdio};

pub const CLI_DEFECTS: &[&str] = &["parse-error-at-end", "parse-error-after-padding", "type-error", "unknown-import", "lex-error", "none"];

pub fn compiler_bin() -> Option<PathBuf> {
    if let Ok(p) = std::env::var("VERIF_COMPILER_BIN") {
        return Some(PathBuf::from(p));
    }
    let root = std::env::var("VERIF_ROOT").ok()?;
    let p = PathBuf::from(root).join("harness/target/release/compiler");
    p.exists().then_some(p)
}

pub fn make_cli_case(d: &mut Dec, ctx: &mut Ctx, layout_ops: &[&str]) -> Value {
    let defect = CLI_DEFECTS[d.below(CLI_DEFECTS.len())];
    let which = d.below(64);
    let pad = [0usize, 3, 40, 400][d.below(4)];
    let nops = d.below(2);
    let picks: Vec<(usize, usize)> = (0..nops).map(|_| (d.below(layout_ops.len()), d.below(64))).collect();
    let files: Vec<(String, String)> = if d.chance(90) && !crate::corpus::project_cases().is_empty() {
        crate::corpus::project_cases()[d.below(crate::corpus::project_cases().len())].files.clone()
    } else {
        crate::projgen::gen_project(d, ctx).render()
    };
    // prefer a file that is not the entry file: that is where positions get mixed up
    let others: Vec<usize> = (0..files.len()).filter(|i| files[*i].0 != "main.gom").collect();
    let target = if !others.is_empty() && which % 4 != 0 { others[which % others.len()] } else { which % files.len() };
    let mut ops = vec![];
    for (o, f) in picks {
        ops.push(json!({"op": layout_ops[o], "path": files[f % files.len()].0}));
    }
    json!({"kind": "cli", "files": goml::files_to_json(&files), "defect": defect, "target": files[target].0, "pad": pad, "ops": ops})
}

fn plant(root: &Path, rel: &str, defect: &str, pad: usize) {
    let path = root.join(rel);
    let Ok(mut text) = std::fs::read_to_string(&path) else { return };
    let padding: String = (0..pad).map(|i| format!("// padding line {i} -------------------------------------------\n")).collect();
    match defect {
        "parse-error-at-end" => text.push_str("\nfn broken( {\n"),
        "parse-error-after-padding" => {
            text.push('\n');
            text.push_str(&padding);
            text.push_str("fn broken( {\n");
        }
        "type-error" => {
            text.push('\n');
            text.push_str(&padding);
            text.push_str("fn ill_typed_tail() -> int32 { \"s\" }\n");
        }
        "lex-error" => {
            text.push('\n');
            text.push_str(&padding);
            text.push_str("fn lexed() -> string { \"unterminated }\n");
        }
        "unknown-import" => {
            // after the package line (or at the top of a file without one)
            let at = if text.starts_with("package ") { text.find('\n').map(|i| i + 1).unwrap_or(text.len()) } else { 0 };
            text.insert_str(at, "import NoSuchPackageAnywhere\n");
        }
        _ => {}
    }
    let _ = std::fs::write(&path, text);
}

struct Run {
    status: Option<i32>,
    signal: bool,
    timed_out: bool,
    stderr: String,
}

fn run_cli(bin: &Path, args: &[String], cwd: &Path) -> Run {
    let child = Command::new(bin)
        .args(args)
        .current_dir(cwd)
        .env("RUST_BACKTRACE", "0")
        // no Go toolchain is needed (or present): a successful compile then fails to run Go, status 1
        .env("PATH", "/nonexistent-verif-path")
        .stdin(Stdio::null())
        .stdout(Stdio::null())
        .stderr(Stdio::piped())
        .spawn();
    let Ok(mut child) = child else {
        return Run { status: None, signal: false, timed_out: false, stderr: "spawn failed".into() };
    };
    // the pipe is drained by a thread so that a chatty process cannot block
    let mut err = child.stderr.take();
    let reader = std::thread::spawn(move || {
        let mut s = Vec::new();
        if let Some(e) = err.as_mut() {
            use std::io::Read;
            let _ = e.take(1 << 20).read_to_end(&mut s);
        }
        String::from_utf8_lossy(&s).into_owned()
    });
    let start = std::time::Instant::now();
    let mut timed_out = false;
    let status = loop {
        match child.try_wait() {
            Ok(Some(st)) => break Some(st),
            Ok(None) => {
                if start.elapsed().as_secs() >= 30 {
                    let _ = child.kill();
                    let _ = child.wait();
                    timed_out = true;
                    break None;
                }
                std::thread::sleep(std::time::Duration::from_millis(2));
            }
            Err(_) => break None,
        }
    };
    let stderr = reader.join().unwrap_or_default();
    use std::os::unix::process::ExitStatusExt;
    Run {
        status: status.and_then(|s| s.code()),
        signal: status.map_or(false, |s| s.signal().is_some()),
        timed_out,
        stderr,
    }
}

/// `panicked at <file>:<line>:<col>:` -> crate-relative file, for the signature
fn panic_site(stderr: &str) -> String {
    let Some(i) = stderr.find("panicked at ") else { return "unknown".into() };
    let rest = &stderr[i + "panicked at ".len()..];
    let loc = rest.split(|c: char| c == '\n').next().unwrap_or("");
    let file = loc.split(':').next().unwrap_or("");
    // registry paths: keep `<crate>-<version>/src/..` without the version; repository paths: from `crates/`
    let short = if let Some(k) = file.find("/crates/") {
        file[k + 1..].to_string()
    } else if let Some(k) = file.rfind("/src/") {
        let head = &file[..k];
        let krate = head.rsplit('/').next().unwrap_or(head);
        let name = krate.rsplitn(2, '-').last().unwrap_or(krate);
        format!("{}{}", name, &file[k..])
    } else {
        file.to_string()
    };
    let msg = rest.split('\n').nth(1).unwrap_or("").trim();
    format!("{}|{}", short, sandbox::cut_message(&sandbox::normalise(msg)))
}

/// positions the CLI prints: `... <path>: <line>:<col>: message`
fn bad_position(stderr: &str) -> Option<String> {
    for l in stderr.lines() {
        let Some(i) = l.find(".gom: ") else { continue };
        // the path is what precedes, from the last space-separated token that ends in .gom
        let head = &l[..i + 4];
        let path = head.rsplit(": ").next().unwrap_or(head).trim();
        let path = path.rsplit(' ').next().unwrap_or(path);
        let tail = &l[i + 6..];
        let mut it = tail.splitn(3, ':');
        let (Some(a), Some(b)) = (it.next(), it.next()) else { continue };
        let (Ok(line), Ok(col)) = (a.trim().parse::<usize>(), b.trim().parse::<usize>()) else { continue };
        let Ok(bytes) = std::fs::read(path) else {
            return Some(format!("a position is reported in {path:?}, which cannot be read: {l}"));
        };
        let text = String::from_utf8_lossy(&bytes);
        let lines: Vec<&str> = text.split('\n').collect();
        if line == 0 || line > lines.len() {
            return Some(format!("line {line} is reported in {path:?}, which has {} lines: {l}", lines.len()));
        }
        let width = lines[line - 1].chars().count();
        if col == 0 || col > width + 2 {
            return Some(format!("column {col} is reported in line {line} of {path:?}, which is {width} characters wide: {l}"));
        }
    }
    None
}

pub fn judge_cli(input: &Value, ctx: &mut Ctx, apply_layout_op: &dyn Fn(&Path, &str, &str)) -> CaseOut {
    let Some(bin) = compiler_bin() else {
        return CaseOut::discard("cli:binary-not-built");
    };
    let files = goml::files_from_json(&input["files"]);
    let key = fnv_str(&input.to_string());
    let root = ctx.scratch.fresh_dir();
    sandbox::materialise(&root, &files);
    let defect = input["defect"].as_str().unwrap_or("none");
    let target = input["target"].as_str().unwrap_or("main.gom");
    let mut labels = vec![format!("cli:defect-{defect}")];
    if defect != "none" {
        labels.push(if target == "main.gom" { "cli:defect-in-entry-file".into() } else { "cli:defect-in-other-file".into() });
    }
    plant(&root, target, defect, input["pad"].as_u64().unwrap_or(0) as usize);
    for op in input["ops"].as_array().cloned().unwrap_or_default() {
        let name = op["op"].as_str().unwrap_or("");
        apply_layout_op(&root, name, op["path"].as_str().unwrap_or("main.gom"));
        labels.push(format!("layout:{name}"));
    }
    let art = root.join("artifacts-out");
    let _ = std::fs::create_dir_all(&art);
    let s = |p: &Path| p.to_string_lossy().into_owned();
    // the command lines: run, then check/build per package (as goml discovers them), then link
    let mut cmds: Vec<(String, Vec<String>)> = vec![("run".into(), vec!["run".into(), s(&root.join("main.gom"))])];
    // the packages: as goml discovers them, or (when discovery itself fails on the defect) every
    // directory with .gom files, library packages first
    let discovered = match sep::discover(&root) {
        Ok(d) => Some((d.order, d.dirs)),
        Err(_) => {
            labels.push("cli:discover-err".into());
            let mut dirs: Vec<(String, PathBuf)> = vec![];
            if let Ok(rd) = std::fs::read_dir(&root) {
                let mut subs: Vec<PathBuf> = rd.filter_map(|e| e.ok()).map(|e| e.path()).filter(|p| p.is_dir() && p != &art).collect();
                subs.sort();
                for sd in subs {
                    if !sep::gom_files_in_dir(&sd).is_empty() {
                        dirs.push((sd.file_name().map(|n| n.to_string_lossy().into_owned()).unwrap_or_default(), sd));
                    }
                }
            }
            dirs.push(("Main".into(), root.clone()));
            Some((dirs.iter().map(|(n, _)| n.clone()).collect(), dirs))
        }
    };
    if let Some((order, dirs)) = discovered {
        let mut cores = vec![];
        for pkg in &order {
            let Some((_, pdir)) = dirs.iter().find(|(p, _)| p == pkg) else { continue };
            let inputs: Vec<String> = sep::gom_files_in_dir(pdir).iter().map(|p| s(p)).collect();
            if inputs.is_empty() {
                continue;
            }
            for sub in ["check", "build"] {
                let mut a = vec![sub.to_string(), "--package".into(), pkg.clone(), "--input".into()];
                a.extend(inputs.iter().cloned());
                a.extend(["--interface-path".into(), s(&art), "--output".into(), s(&art.join(pkg))]);
                cmds.push((sub.to_string(), a));
            }
            cores.push(s(&art.join(format!("{pkg}.core"))));
        }
        if !cores.is_empty() {
            let mut a = vec!["link".to_string(), "--input".into()];
            a.extend(cores);
            a.extend(["--output".into(), s(&art.join("linked.go"))]);
            cmds.push(("link".into(), a));
        }
    }
    let mut nontrivial = false;
    for (what, args) in &cmds {
        let r = run_cli(&bin, args, &root);
        let shown = || format!("goml {}\n--- stderr\n{}\n--- files\n{}", args.join(" "), truncate_str(&r.stderr, 1500), files.iter().map(|(p, _)| p.as_str()).collect::<Vec<_>>().join(" "));
        if r.timed_out {
            // time is not a verdict
            return CaseOut::discard("cli:timeout");
        }
        if r.stderr.contains("panicked at") || r.status == Some(101) {
            return CaseOut::fail(format!("C04|cli-panic|{what}|{}", panic_site(&r.stderr)), shown(), key).labelled(labels);
        }
        if r.signal || r.status.is_none() {
            return CaseOut::fail(format!("C04|cli-crash|{what}|signal"), shown(), key).labelled(labels);
        }
        match r.status {
            Some(0) => labels.push(format!("cli:{what}-ok")),
            Some(1) => {
                labels.push(format!("cli:{what}-err"));
                nontrivial = true;
                if r.stderr.trim().is_empty() {
                    return CaseOut::fail(format!("C04|cli-silent-failure|{what}"), shown(), key).labelled(labels);
                }
                if let Some(why) = bad_position(&r.stderr) {
                    return CaseOut::fail(format!("C04|cli-position|{what}"), format!("{why}\n{}", shown()), key).labelled(labels);
                }
            }
            Some(2) => labels.push(format!("cli:{what}-usage")),
            Some(c) => {
                return CaseOut::fail(format!("C04|cli-status|{what}|{c}"), shown(), key).labelled(labels);
            }
            None => {}
        }
    }
    labels.sort();
    labels.dedup();
    CaseOut::pass(nontrivial, key).labelled(labels)
}
