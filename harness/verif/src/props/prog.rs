//! Checks driven by the type-directed program generator:
//! C01 (behaviour), C02 (emitted Go is valid), C07 (generics), C08
//! (closures), C09 (evaluation order and effects).

use crate::behave::{self, Expected, GoCheck, Verdict};
use crate::corpus;
use crate::driver::*;
use crate::gen::build::{gen_program, walk, Focus, GenCfg};
use crate::gen::model::*;
use crate::gen::render::render;
use crate::goml::{self, CompileRes};
use crate::util::*;
use serde_json::{json, Value};
use std::collections::{BTreeMap, BTreeSet};

#[derive(Clone, Copy, PartialEq, Eq, Debug)]
pub enum Kind {
    C01,
    C02,
    C07,
    C08,
    C09,
}

pub struct ProgCheck {
    pub id: &'static str,
    pub kind: Kind,
}

pub static C01: ProgCheck = ProgCheck { id: "C01", kind: Kind::C01 };
pub static C02: ProgCheck = ProgCheck { id: "C02", kind: Kind::C02 };
pub static C07: ProgCheck = ProgCheck { id: "C07", kind: Kind::C07 };
pub static C08: ProgCheck = ProgCheck { id: "C08", kind: Kind::C08 };
pub static C09: ProgCheck = ProgCheck { id: "C09", kind: Kind::C09 };

fn cfg_for(kind: Kind, phase: &str, tier: Tier, index: u64) -> GenCfg {
    let big = tier == Tier::Thorough;
    let nodes = match phase {
        "small" => 18,
        "large" => if big { 300 } else { 120 },
        _ => if big { 120 } else { 60 },
    };
    let mut c = GenCfg::full(nodes);
    let _ = index;
    match kind {
        // the validity of the emitted Go is checked under every generator bias
        Kind::C02 | Kind::C01 => {
            c.focus = [Focus::None, Focus::Generics, Focus::Closures, Focus::Effects, Focus::Scopes, Focus::Traits][(index % 6) as usize];
            // traits, impls, every method call form, bounded generics and trait objects in
            // every third program (and in all trait-focused ones)
            c.traits = c.focus == Focus::Traits || (index / 6) % 3 == 0;
        }
        Kind::C07 => {
            c.focus = Focus::Generics;
            // calls made through trait bounds: bounded generic functions at several implementing types
            c.traits = index % 2 == 1;
        }
        Kind::C08 => {
            c.focus = Focus::Closures;
            // closures that capture trait objects / call methods of captured values
            c.traits = index % 3 == 1;
        }
        Kind::C09 => {
            c.focus = Focus::Effects;
            c.traits = index % 3 == 1;
        }
    }
    c.discards = index % 2 == 0;
    // the package layout keeps traits and impls in the entry package; programs split over
    // packages are generated without them (C14/C16/C17 cover traits across packages)
    if phase == "multipkg" {
        c.traits = false;
        if c.focus == Focus::Traits {
            c.focus = Focus::None;
        }
    }
    c
}

// ------------------------------------------------- C07: expected instances

fn collect_calls(e: &Expr, out: &mut Vec<(usize, Vec<Ty>)>) {
    walk(e, &mut |x| {
        if let Expr::Call(Callee::Fn(f, targs), _) = x {
            out.push((*f, targs.clone()));
        }
    });
}

/// instantiations of generic functions reachable from the non-generic ones
pub fn expected_instances(p: &GProg) -> BTreeSet<(usize, Vec<Ty>)> {
    let mut calls_of: Vec<Vec<(usize, Vec<Ty>)>> = vec![];
    for f in &p.fns {
        let mut v = vec![];
        collect_calls(&f.body, &mut v);
        calls_of.push(v);
    }
    let mut seen: BTreeSet<(usize, Vec<Ty>)> = BTreeSet::new();
    let mut work: Vec<(usize, Vec<Ty>)> = vec![];
    for (i, f) in p.fns.iter().enumerate() {
        if f.tparams == 0 {
            work.push((i, vec![]));
        }
    }
    let mut done: BTreeSet<(usize, Vec<Ty>)> = BTreeSet::new();
    while let Some((f, targs)) = work.pop() {
        if !done.insert((f, targs.clone())) {
            continue;
        }
        if p.fns[f].tparams > 0 {
            seen.insert((f, targs.clone()));
        }
        for (g, gargs) in &calls_of[f] {
            let inst: Vec<Ty> = gargs.iter().map(|t| t.subst(&targs)).collect();
            work.push((*g, inst));
        }
        if done.len() > 5000 {
            break;
        }
    }
    seen
}

fn check_mono_instances(
    comp: &compiler::pipeline::pipeline::Compilation,
    expected: &Value,
) -> Result<(), (String, String)> {
    // names are unique
    let mut names: BTreeMap<&str, u32> = BTreeMap::new();
    for f in &comp.mono.toplevels {
        *names.entry(f.name.as_str()).or_insert(0) += 1;
    }
    if let Some((n, c)) = names.iter().find(|(_, c)| **c > 1) {
        return Err((
            "C07|mono|duplicate-instance-name".into(),
            format!("{c} monomorphic functions are called {n}"),
        ));
    }
    // every generic function has exactly as many instances as the program uses
    if let Some(m) = expected.as_object() {
        for (fname, count) in m {
            let want = count.as_u64().unwrap_or(0);
            let prefix = format!("{fname}__");
            // functions of library packages are called `Pkg::name`
            let base = |n: &str| -> String { n.rsplit("::").next().unwrap_or(n).to_string() };
            let got = comp
                .mono
                .toplevels
                .iter()
                .filter(|f| base(&f.name) == *fname || base(&f.name).starts_with(&prefix))
                .count() as u64;
            // arms the match compiler proves unreachable need no instance: fewer is fine,
            // more means an instantiation nobody asked for (or a duplicate)
            if got > want {
                let have: Vec<&str> = comp
                    .mono
                    .toplevels
                    .iter()
                    .filter(|f| base(&f.name) == *fname || base(&f.name).starts_with(&prefix))
                    .map(|f| f.name.as_str())
                    .collect();
                return Err((
                    "C07|mono|instance-count".into(),
                    format!(
                        "generic function {fname} is used at {want} distinct type-argument tuples, the Mono program has {got} instances: {:?}",
                        have
                    ),
                ));
            }
        }
    }
    // no residue of type parameters / applications / inference variables
    let (errs, _) = crate::irck::check_mono(&comp.mono, &comp.monoenv);
    if let Some(e) = errs
        .iter()
        .find(|e| e.rule.starts_with("residue") || e.rule == "missing-fn" || e.rule == "dup-fn" || e.rule.starts_with("call-"))
    {
        return Err((format!("C07|mono|{}", e.rule), format!("{} in {}: {}", e.rule, e.func, e.detail)));
    }
    Ok(())
}


// ------------------------------------------------------ directed programs
//
// shapes the type-directed generator does not build (its generic types never refer to
// themselves): hand-written, with the output fixed by hand.

pub const DIRECTED: &[(&str, &str, &str)] = &[
    ("tree-through-vec", r#"struct Tree[T] { value: T, children: Vec[Tree[T]] }
fn leaf[T](v: T) -> Tree[T] { Tree { value: v, children: vec_new() } }
fn count[T](t: Tree[T]) -> int32 {
    let n = ref(1);
    let i = ref(0);
    let _ = while ref_get(i) < vec_len(t.children) {
        let _ = ref_set(n, ref_get(n) + count(vec_get(t.children, ref_get(i))));
        ref_set(i, ref_get(i) + 1)
    };
    ref_get(n)
}
fn main() {
    let a = leaf(1);
    let b = leaf(2);
    let kids: Vec[Tree[int32]] = vec_push(vec_push(vec_new(), a), b);
    let root = Tree { value: 0, children: kids };
    let _ = string_println(int32_to_string(count(root)));
    let s = leaf("x");
    let _ = string_println(int32_to_string(count(s)));
    ()
}
"#, "3\n1\n"),
    ("recursive-generic-enum", r#"enum List[T] { Nil, Cons(T, List[T]) }
fn len[T](l: List[T]) -> int32 {
    match l {
        List::Nil => 0,
        List::Cons(_, rest) => 1 + len(rest),
    }
}
struct Pair[A, B] { fst: A, snd: Ref[Pair[A, B]] , n: int32 }
fn main() {
    let l: List[int32] = List::Cons(1, List::Cons(2, List::Nil));
    let m: List[string] = List::Cons("a", List::Nil);
    let _ = string_println(int32_to_string(len(l) + len(m)));
    ()
}
"#, "3\n"),
    ("node-through-ref-and-enum", r#"enum Opt[T] { No, Yes(T) }
struct Node[T] { v: T, next: Ref[Opt[Node[T]]] }
fn depth[T](n: Node[T]) -> int32 {
    match ref_get(n.next) {
        Opt::No => 1,
        Opt::Yes(m) => 1 + depth(m),
    }
}
fn main() {
    let tail = Node { v: true, next: ref(Opt::No) };
    let head = Node { v: false, next: ref(Opt::Yes(tail)) };
    let _ = string_println(int32_to_string(depth(head)));
    ()
}
"#, "2\n"),
    ("regrouped-tuples", r#"fn keep[T](x: T) -> T { x }
fn second[T](x: T, n: int32) -> int32 { n }
fn main() {
    let a: ((int32, int32), int32, int32) = ((1, 2), 3, 4);
    let b: ((int32, int32, int32), int32) = ((5, 6, 7), 8);
    let a2: ((int32, int32), int32, int32) = keep(a);
    let b2: ((int32, int32, int32), int32) = keep(b);
    let a20: (int32, int32) = a2.0;
    let b20: (int32, int32, int32) = b2.0;
    let _ = string_println(int32_to_string(a20.1 + a2.2));
    let _ = string_println(int32_to_string(b20.2 + b2.1));
    let va: Vec[((int32, int32), int32, int32)] = vec_push(vec_new(), a);
    let vb: Vec[((int32, int32, int32), int32)] = vec_push(vec_new(), b);
    let va2: Vec[((int32, int32), int32, int32)] = keep(va);
    let vb2: Vec[((int32, int32, int32), int32)] = keep(vb);
    let _ = string_println(int32_to_string(vec_len(va2) + vec_len(vb2) + second(va, 1) + second(vb, 2)));
    let ra: Ref[(int32, (int32, int32))] = ref((1, (2, 3)));
    let rb: Ref[((int32, int32), int32)] = ref(((4, 5), 6));
    let ra2: Ref[(int32, (int32, int32))] = keep(ra);
    let rb2: Ref[((int32, int32), int32)] = keep(rb);
    let x: (int32, (int32, int32)) = ref_get(ra2);
    let y: ((int32, int32), int32) = ref_get(rb2);
    let x1: (int32, int32) = x.1;
    let _ = string_println(int32_to_string(x1.0 + y.1));
    ()
}
"#, "6\n15\n5\n8\n"),
    // methods of a generic impl with type parameters of their own, each called at two type arguments per receiver instance
    ("method-level-generics", r#"struct Cell[T] { v: T }
impl[T] Cell[T] {
    fn with[U](self: Cell[T], extra: U) -> (T, U) { (self.v, extra) }
    fn pick[U](self: Cell[T], a: U, b: U, first: bool) -> U { if first { a } else { b } }
}
fn main() {
    let c: Cell[int32] = Cell { v: 7 };
    let a: (int32, string) = c.with("s");
    let b: (int32, bool) = c.with(true);
    let d: Cell[string] = Cell { v: "w" };
    let e: (string, string) = d.with("x");
    let f: (string, int32) = Cell::with(d, 5);
    let _ = string_println(int32_to_string(a.0) + a.1);
    let _ = string_println(int32_to_string(b.0) + bool_to_string(b.1));
    let _ = string_println(e.0 + e.1);
    let _ = string_println(f.0 + int32_to_string(f.1));
    let g: string = c.pick("l", "r", false);
    let h: int32 = c.pick(1, 2, true);
    let i: bool = Cell::pick(d, true, false, false);
    let _ = string_println(g + int32_to_string(h) + bool_to_string(i));
    ()
}
"#, "7s\n7true\nwx\nw5\nr1false\n"),
    // a trait implemented for a trait-object type, reached directly and through a bound instantiated at `dyn Shape`
    ("trait-for-dyn-type", r#"trait Shape { fn describe(Self) -> string; }
trait Report { fn describe(Self) -> string; fn tag(Self) -> int32; }
struct Point { x: int32, y: int32 }
impl Shape for Point { fn describe(self: Point) -> string { "Point(" + int32_to_string(self.x) + ")" } }
impl Shape for int32 { fn describe(self: int32) -> string { "int" } }
impl Report for dyn Shape {
    fn describe(self: dyn Shape) -> string { "report<" + Shape::describe(self) + ">" }
    fn tag(self: dyn Shape) -> int32 { 7 }
}
impl Report for int32 {
    fn describe(self: int32) -> string { "plain-int" }
    fn tag(self: int32) -> int32 { 1 }
}
fn via_bound[T: Report](x: T) -> string { x.describe() }
fn via_ufcs[T: Report](x: T) -> string { Report::describe(x) + int32_to_string(Report::tag(x)) }
fn main() {
    let s: dyn Shape = Point { x: 1, y: 2 };
    let i: dyn Shape = 5;
    let _ = string_println(Report::describe(s));
    let _ = string_println(via_bound(s));
    let _ = string_println(via_ufcs(s));
    let _ = string_println(via_bound(i));
    let _ = string_println(via_bound(5));
    let _ = string_println(via_ufcs(6));
    ()
}
"#, "report<Point(1)>\nreport<Point(1)>\nreport<Point(1)>7\nreport<int>\nplain-int\nplain-int1\n"),
];

// ------------------------------------------------ extern "go" bindings (C02)
//
// Programs that bind Go functions from packages whose import paths have one to four segments;
// some bindings are called (from main, from a helper, from a closure), some never. miniGo does not
// know these packages (a call is `Unsupported`), so the oracle here is Go's import rule itself:
// every import's binding name (last path segment) is used as a qualifier, every qualifier has its
// import, no import is listed twice; anything miniGo can judge before it meets the unknown package
// is judged too.

const GO_PKGS: [(&str, &str); 9] = [
    ("strings", "ToUpper"),
    ("path/filepath", "Base"),
    ("go/build/constraint", "Mangle"),
    ("net/http/httputil", "Dump"),
    ("golang.org/x/text/cases", "Fold"),
    ("github.com/user/repo/util", "Trim"),
    ("unicode/utf8string", "Clip"),
    ("a/b/c/d/deep", "Id"),
    ("regexp/syntax", "Simplify"),
];

// ------------------------------------------- closures stored in struct fields (C08, C01, C02)
//
// A struct with two to four function-typed fields (two field types) between plain fields, built at ONE
// site (a constructor function or main) with a plain top-level function or a closure literal per field
// in every mixture and order; the closures capture the constructor's parameters and a Ref cell. The
// fields are read back and called (in main or in a helper that takes the struct), some twice. The
// expected output comes from a direct evaluation of the chosen bodies. (One construction site only:
// a second site with other closures is the open finding KF-05.)
fn make_fnfields_case(bytes: &[u8]) -> Case {
    let mut d = Dec::new(bytes);
    // (is_string, body kind)
    let nf = 2 + d.below(3);
    let mut fields: Vec<(String, Option<(bool, usize)>)> = vec![];
    let mut labels: Vec<String> = vec!["directed".into(), "fnfields".into(), "adt:struct".into(), "closure".into(), "tick".into()];
    let mut has_cell_field = false;
    for i in 0..nf {
        // plain fields in between
        if d.chance(90) {
            match d.below(3) {
                0 => fields.push((format!("label{i}"), None)),
                1 if !has_cell_field => {
                    has_cell_field = true;
                    fields.push(("cell".into(), None));
                }
                _ => fields.push((format!("count{i}"), None)),
            }
        }
        let is_str = d.chance(80);
        // int: 0 double, 1 inc (plain functions); 2 add-by, 3 step (stateful), 4 times-k (closures)
        // string: 0 shout (plain function); 1 tag, 2 bang (closures)
        let kind = if is_str { d.below(3) } else { d.below(5) };
        fields.push((format!("f{i}"), Some((is_str, kind))));
    }
    let is_closure = |f: &(bool, usize)| if f.0 { f.1 >= 1 } else { f.1 >= 2 };
    let fnf: Vec<&(String, Option<(bool, usize)>)> = fields.iter().filter(|f| f.1.is_some()).collect();
    let n_clo = fnf.iter().filter(|f| is_closure(&f.1.unwrap())).count();
    let first_plain = fnf.iter().position(|f| !is_closure(&f.1.unwrap()));
    let last_clo = fnf.iter().rposition(|f| is_closure(&f.1.unwrap()));
    if n_clo >= 1 {
        labels.push("closure:capture".into());
        labels.push("closure:call".into());
        labels.push("fnfields:closure-in-field".into());
    }
    if n_clo >= 2 {
        labels.push("fnfields:two-closures".into());
    }
    if let (Some(a), Some(b)) = (first_plain, last_clo) {
        if a < b {
            labels.push("fnfields:plain-fn-before-closure".into());
        }
    }
    let by = 2 + d.below(4) as i32;
    let tag = ["t", "ab", "zz"][d.below(3)];
    let in_ctor = d.chance(170);
    labels.push(if in_ctor { "fnfields:constructor-fn".into() } else { "fnfields:built-in-main".into() });
    // struct declaration
    let mut decl = String::from("struct Kit {\n");
    for (n, f) in &fields {
        let t = match f {
            Some((true, _)) => "(string) -> string",
            Some((false, _)) => "(int32) -> int32",
            None if n == "cell" => "Ref[int32]",
            None if n.starts_with("label") => "string",
            None => "int32",
        };
        decl.push_str(&format!("    {n}: {t},\n"));
    }
    decl.push_str("}\n\nfn double(x: int32) -> int32 {\n    x * 2\n}\n\nfn inc(x: int32) -> int32 {\n    x + 1\n}\n\nfn shout(s: string) -> string {\n    s + \"?\"\n}\n\n");
    // the literal: declaration order or rotated
    let mut order: Vec<usize> = (0..fields.len()).collect();
    if d.chance(100) {
        let r = 1 + d.below(fields.len().max(2) - 1);
        order.rotate_left(r.min(fields.len() - 1));
        labels.push("fnfields:literal-order-rotated".into());
    }
    let mut lit = String::from("Kit {\n");
    for &i in &order {
        let (n, f) = &fields[i];
        let v = match f {
            None if n == "cell" => "cell".to_string(),
            None if n.starts_with("label") => "tag + \"-l\"".to_string(),
            None => "by + 1".to_string(),
            Some((false, 0)) => "double".into(),
            Some((false, 1)) => "inc".into(),
            Some((false, 2)) => "|n: int32| n + by".into(),
            Some((false, 3)) => "|n: int32| {\n            let next = ref_get(cell) + by * n;\n            let _ = ref_set(cell, next);\n            next\n        }".into(),
            Some((false, _)) => "|n: int32| n * 3".into(),
            Some((true, 0)) => "shout".into(),
            Some((true, 1)) => "|s: string| tag + s".into(),
            Some((true, _)) => "|s: string| s + \"!\"".into(),
        };
        lit.push_str(&format!("        {n}: {v},\n"));
    }
    lit.push_str("    }");
    let mut text = decl;
    let via_helper = d.chance(100);
    // (the helpers that read and call the fields come AFTER the construction site: a reader defined
    // before it is the KF-05 shape)
    let mut helpers = String::new();
    if via_helper {
        labels.push("fnfields:called-in-helper".into());
        for (n, f) in &fields {
            match f {
                Some((true, _)) => helpers.push_str(&format!("fn run_{n}(m: Kit, s: string) -> string {{\n    let f = m.{n};\n    f(s)\n}}\n\n")),
                Some((false, _)) => helpers.push_str(&format!("fn run_{n}(m: Kit, n: int32) -> int32 {{\n    let f = m.{n};\n    f(n)\n}}\n\n")),
                None => {}
            }
        }
    }
    if in_ctor {
        text.push_str(&format!("fn make_kit(by: int32, tag: string) -> Kit {{\n    let cell = ref(0);\n    {lit}\n}}\n\n"));
    }
    text.push_str("fn main() {\n");
    if in_ctor {
        text.push_str(&format!("    let m = make_kit({by}, \"{tag}\");\n"));
    } else {
        text.push_str(&format!("    let by = {by};\n    let tag = \"{tag}\";\n    let cell = ref(0);\n    let m = {lit};\n"));
    }
    // the calls and their expected output
    let mut out = String::new();
    let mut cell: i32 = 0;
    let ncalls = 2 + d.below(5);
    let fn_idx: Vec<usize> = (0..fields.len()).filter(|i| fields[*i].1.is_some()).collect();
    for c in 0..ncalls {
        let i = fn_idx[d.below(fn_idx.len())];
        let (n, f) = &fields[i];
        let (is_str, kind) = f.unwrap();
        if is_str {
            let a = ["a", "bc", ""][d.below(3)];
            let r = match kind {
                0 => format!("{a}?"),
                1 => format!("{tag}{a}"),
                _ => format!("{a}!"),
            };
            let call = if via_helper { format!("run_{n}(m, \"{a}\")") } else { format!("g{c}(\"{a}\")") };
            if !via_helper {
                text.push_str(&format!("    let g{c} = m.{n};\n"));
            }
            text.push_str(&format!("    let _ = string_println(\"c{c}=\" + {call});\n"));
            out.push_str(&format!("c{c}={r}\n"));
        } else {
            let a = d.below(10) as i32;
            let r = match kind {
                0 => a * 2,
                1 => a + 1,
                2 => a + by,
                3 => {
                    cell += by * a;
                    cell
                }
                _ => a * 3,
            };
            let call = if via_helper { format!("run_{n}(m, {a})") } else { format!("g{c}({a})") };
            if !via_helper {
                text.push_str(&format!("    let g{c} = m.{n};\n"));
            }
            text.push_str(&format!("    let _ = string_println(\"c{c}=\" + int32_to_string({call}));\n"));
            out.push_str(&format!("c{c}={r}\n"));
        }
    }
    if has_cell_field {
        text.push_str("    let _ = string_println(\"cell=\" + int32_to_string(ref_get(m.cell)));\n");
        out.push_str(&format!("cell={cell}\n"));
    }
    text.push_str("    ()\n}\n\n");
    text.push_str(&helpers);
    let expected = Expected { stdout: out.into_bytes(), end: Ok(crate::refsem::End::Normal) };
    Case::new(json!({"text": text, "expected": expected.to_json(), "instances": {}, "labels": labels}))
}

fn make_extern_case(bytes: &[u8]) -> Case {
    let mut d = Dec::new(bytes);
    let n = 1 + d.below(4);
    let mut decls = String::new();
    let mut helpers = String::new();
    let mut body = String::new();
    let mut labels: Vec<String> = vec!["extern".into()];
    let mut called: Vec<&str> = vec![];
    let mut declared: Vec<&str> = vec![];
    for i in 0..n {
        let (path, sym) = GO_PKGS[d.below(GO_PKGS.len())];
        let segs = path.split('/').count();
        labels.push(format!("extern:segments-{}", segs.min(4)));
        if declared.contains(&path) {
            labels.push("extern:same-package-twice".into());
        }
        declared.push(path);
        // with or without the explicit Go symbol
        if d.bool() {
            decls.push_str(&format!("extern \"go\" \"{path}\" \"{sym}\" ext{i}(s: string) -> string\n"));
        } else {
            decls.push_str(&format!("extern \"go\" \"{path}\" ext{i}(s: string) -> string\n"));
        }
        match d.below(5) {
            0 => labels.push("extern:never-called".into()),
            1 => {
                helpers.push_str(&format!("fn via{i}(s: string) -> string {{ ext{i}(s + \"!\") }}\n"));
                body.push_str(&format!("    let _ = string_println(via{i}(\"a{i}\"));\n"));
                called.push(path);
                labels.push("extern:called-from-helper".into());
            }
            2 => {
                body.push_str(&format!("    let c{i} = |s: string| ext{i}(s);\n    let _ = string_println(c{i}(\"b{i}\"));\n"));
                called.push(path);
                labels.push("extern:called-from-closure".into());
            }
            3 => {
                // only reachable from a function nobody calls
                helpers.push_str(&format!("fn dead{i}(s: string) -> string {{ ext{i}(s) }}\n"));
                labels.push("extern:called-from-dead-fn".into());
            }
            _ => {
                body.push_str(&format!("    let _ = string_println(ext{i}(\"c{i}\"));\n"));
                called.push(path);
                labels.push("extern:called".into());
            }
        }
    }
    let text = format!("{decls}\n{helpers}\nfn main() {{\n{body}    ()\n}}\n");
    Case::new(json!({"extern": true, "text": text, "labels": labels, "called": called}))
}

fn judge_extern_case(input: &Value, ctx: &mut Ctx) -> CaseOut {
    let text = input["text"].as_str().unwrap_or("");
    let key = fnv_str(text);
    let labels: Vec<String> = input["labels"].as_array().map(|a| a.iter().filter_map(|x| x.as_str().map(String::from)).collect()).unwrap_or_default();
    let called: Vec<String> = input["called"].as_array().map(|a| a.iter().filter_map(|x| x.as_str().map(String::from)).collect()).unwrap_or_default();
    match goml::compile_single(ctx, text) {
        CompileRes::Panic(_) => CaseOut::discard("compiler-panic"),
        CompileRes::Err(e) => CaseOut::fail(
            "C02|extern|rejected".into(),
            format!("{:?}\n--- goml source\n{text}", goml::diag_messages(e.diagnostics())),
            key,
        ),
        CompileRes::Ok(_, go) => {
            if let GoCheck::Rejected(errs) = behave::go_check(&go) {
                return CaseOut::fail(
                    format!("C02|go-rejected|{}", errs[0].rule),
                    format!("{}\n--- goml source\n{text}", behave::describe_go_errors(&errs, &go)),
                    key,
                )
                .labelled(labels);
            }
            // the import block
            let mut imports: Vec<String> = vec![];
            let mut in_block = false;
            let mut rest = String::new();
            for l in go.lines() {
                let t = l.trim();
                if t.starts_with("import (") {
                    in_block = true;
                } else if in_block && t == ")" {
                    in_block = false;
                } else if in_block {
                    imports.push(t.trim_matches('"').to_string());
                } else {
                    rest.push_str(l);
                    rest.push('\n');
                }
            }
            let uses = |binding: &str| -> bool {
                let pat = format!("{binding}.");
                let mut from = 0;
                while let Some(i) = rest[from..].find(&pat) {
                    let at = from + i;
                    let before = rest[..at].chars().next_back();
                    if !before.map_or(false, |c| c.is_alphanumeric() || c == '_' || c == '.') {
                        return true;
                    }
                    from = at + pat.len();
                }
                false
            };
            let mut problems = vec![];
            for (i, p) in imports.iter().enumerate() {
                if imports[..i].contains(p) {
                    problems.push(format!("import {p:?} is listed twice"));
                }
                let binding = p.rsplit('/').next().unwrap_or(p);
                if !uses(binding) {
                    problems.push(format!("{p:?} imported and not used"));
                }
            }
            for (path, _) in GO_PKGS.iter() {
                let binding = path.rsplit('/').next().unwrap_or(path);
                if uses(binding) && !imports.iter().any(|p| p == path) {
                    problems.push(format!("undefined: {binding} (package {path:?} is used but not imported)"));
                }
            }
            for path in &called {
                let binding = path.rsplit('/').next().unwrap_or(path);
                if !uses(binding) {
                    problems.push(format!("the call of the binding to {path:?} is not in the output"));
                }
            }
            if let Some(first) = problems.first() {
                let rule = if first.contains("not used") { "unused-import" } else if first.contains("undefined") { "undeclared" } else if first.contains("twice") { "redeclared" } else { "lost-call" };
                return CaseOut::fail(format!("C02|extern|{rule}"), format!("{}\n--- go\n{go}\n--- goml source\n{text}", problems.join("\n")), key).labelled(labels);
            }
            CaseOut::pass(true, key).labelled(labels)
        }
    }
}

// -------------------------------------------------------------- the check

fn nontrivial(kind: Kind, labels: &BTreeSet<String>, expected: &Expected) -> bool {
    let has = |l: &str| labels.contains(l);
    let lines = expected.stdout.iter().filter(|b| **b == b'\n').count();
    match kind {
        Kind::C01 => has("tick") && labels.len() >= 4 && lines >= 1,
        Kind::C02 => (has("adt:struct") || has("adt:enum")) && (has("closure") || has("generic-call") || has("fn-as-value")),
        Kind::C07 => has("generic-call:composite") || (has("generic-call") && has("generic-fn")),
        Kind::C08 => has("closure:capture") && has("closure:call"),
        Kind::C09 => {
            let ticks = String::from_utf8_lossy(&expected.stdout)
                .lines()
                .filter(|l| {
                    (l.starts_with('t') || l.starts_with('u')) && l.len() > 1 && l[1..].chars().all(|c| c.is_ascii_digit())
                })
                .count();
            ticks >= 2 || has("andor:rhs-effect")
        }
    }
}

impl ProgCheck {
    fn judge_text(&self, input: &Value, ctx: &mut Ctx) -> CaseOut {
        let text = input["text"].as_str().unwrap_or("");
        let key = if input.get("files").is_some() { fnv_str(&input["files"].to_string()) } else { fnv_str(text) };
        let labels_in: BTreeSet<String> = input["labels"]
            .as_array()
            .map(|a| a.iter().filter_map(|x| x.as_str().map(|s| s.to_string())).collect())
            .unwrap_or_default();
        let expected = Expected::from_json(&input["expected"]);
        let mut labels: Vec<String> = labels_in.iter().cloned().collect();
        let res = if input.get("files").is_some() {
            let files = goml::files_from_json(&input["files"]);
            if files.len() >= 2 {
                labels.push("multi-package".into());
            }
            if files.len() >= 3 {
                labels.push("multi-package:3".into());
            }
            goml::compile_project(ctx, &files)
        } else {
            goml::compile_single(ctx, text)
        };
        match res {
            CompileRes::Panic(pn) => {
                // crashes are C04's subject; but like a program whose Go does not build, a program that
                // exercises this property's feature (non-trivial by the rule) and makes the compiler panic has
                // no behaviour at all: that fails the property here too (no case does on the unchanged tree)
                if nontrivial(self.kind, &labels_in, &expected) {
                    CaseOut::fail(
                        format!("{}|panic|{}", self.id, pn.signature()),
                        format!("the compiler panics at {}:{}: {}\n--- goml source\n{text}", pn.file, pn.line, pn.message),
                        key,
                    )
                    .labelled(labels)
                } else {
                    CaseOut::discard("compiler-panic")
                }
            }
            CompileRes::Err(e) if labels_in.contains("directed") => {
                // hand-written programs are well-formed: a rejection is a failure of this phase
                CaseOut::fail(
                    format!("{}|directed|rejected", self.id),
                    format!("{:?}\n--- goml source\n{text}", goml::diag_messages(e.diagnostics())),
                    key,
                )
                .labelled(labels)
            }
            CompileRes::Err(e) => {
                let msgs = goml::diag_messages(e.diagnostics());
                let first = msgs.first().cloned().unwrap_or_default();
                if first.contains("non-exhaustive match on integer literal") {
                    CaseOut::discard("rejected:int-match-without-catch-all (documented)")
                } else {
                    CaseOut::discard(&format!(
                        "rejected:{}:{}",
                        goml::error_stage(&e),
                        crate::sandbox::cut_message(first.splitn(2, "] ").nth(1).unwrap_or(&first))
                    ))
                }
            }
            CompileRes::Ok(comp, go_text) => {
                let nt = nontrivial(self.kind, &labels_in, &expected);
                // C02 only needs the Go checker's verdict
                if self.kind == Kind::C02 {
                    return match behave::go_check(&go_text) {
                        GoCheck::Ok(_) => CaseOut::pass(nt, key).labelled(labels),
                        GoCheck::Unsupported(u) => CaseOut::discard(&format!("minigo:{u}")),
                        GoCheck::Rejected(errs) => CaseOut::fail(
                            format!("C02|go-rejected|{}", errs[0].rule),
                            format!("{}\n--- goml source\n{}", behave::describe_go_errors(&errs, &go_text), text),
                            key,
                        )
                        .labelled(labels),
                    };
                }
                if self.kind == Kind::C07 {
                    if let Err((sig, detail)) = check_mono_instances(&comp, &input["instances"]) {
                        return CaseOut::fail(sig, format!("{detail}\n--- goml source\n{text}"), key).labelled(labels);
                    }
                    labels.push("mono-instances-checked".into());
                }
                match behave::compare_expected(&expected, &go_text, self.id) {
                    Verdict::Agree => {
                        labels.push(format!(
                            "end:{}",
                            expected.end.as_ref().map(behave::end_to_string).unwrap_or_default()
                        ));
                        CaseOut::pass(nt, key).labelled(labels)
                    }
                    // a program whose Go does not build has no behaviour at all: when it
                    // exercises this property's feature (non-trivial by the rule) that is a
                    // failure here too, not only under C02
                    Verdict::Skip(why) if nt && why.starts_with("go-rejected:") => {
                        let errs = match behave::go_check(&go_text) {
                            GoCheck::Rejected(e) => behave::describe_go_errors(&e, &go_text),
                            _ => String::new(),
                        };
                        CaseOut::fail(
                            format!("{}|{}", self.id, why.replacen(':', "|", 1)),
                            format!("the emitted Go does not build\n{errs}\n--- goml source\n{text}"),
                            key,
                        )
                        .labelled(labels)
                    }
                    Verdict::Skip(why) => CaseOut::discard(&why),
                    Verdict::Fail(sig, detail) => {
                        CaseOut::fail(sig, format!("{detail}\n--- goml source\n{text}"), key).labelled(labels)
                    }
                }
            }
        }
    }
}

impl Check for ProgCheck {
    fn id(&self) -> &'static str {
        self.id
    }
    fn phases(&self, tier: Tier) -> Vec<PhaseSpec> {
        let mut v = vec![
            PhaseSpec { name: "small", cases: tier.pick(30_000, 400_000), max_bytes: 200, exhaustive: false },
            PhaseSpec { name: "programs", cases: tier.pick(40_000, 600_000), max_bytes: 500, exhaustive: false },
            PhaseSpec { name: "large", cases: tier.pick(6_000, 100_000), max_bytes: 1200, exhaustive: false },
        ];
        if matches!(self.kind, Kind::C01 | Kind::C02 | Kind::C07) {
            v.push(PhaseSpec { name: "multipkg", cases: tier.pick(20_000, 300_000), max_bytes: 520, exhaustive: false });
        }
        if self.kind == Kind::C02 {
            v.push(PhaseSpec { name: "extern", cases: tier.pick(4_000, 60_000), max_bytes: 48, exhaustive: false });
        }
        if self.kind == Kind::C09 {
            v.push(PhaseSpec { name: "go", cases: tier.pick(2_000, 40_000), max_bytes: 80, exhaustive: false });
        }
        if matches!(self.kind, Kind::C01 | Kind::C02 | Kind::C07) {
            v.push(PhaseSpec { name: "directed", cases: DIRECTED.len() as u64, max_bytes: 0, exhaustive: true });
        }
        if matches!(self.kind, Kind::C01 | Kind::C02 | Kind::C08) {
            v.push(PhaseSpec { name: "fnfields", cases: tier.pick(3_000, 60_000), max_bytes: 64, exhaustive: false });
        }
        if self.kind == Kind::C01 {
            v.push(PhaseSpec {
                name: "corpus",
                cases: (corpus::pipeline_cases().len() + corpus::project_cases().len()) as u64,
                max_bytes: 0,
                exhaustive: true,
            });
        }
        v
    }
    fn make(&self, phase: &str, index: u64, bytes: &[u8], ctx: &mut Ctx) -> Case {
        if phase == "corpus" {
            let n = corpus::pipeline_cases().len() as u64;
            return if index < n {
                let c = &corpus::pipeline_cases()[index as usize];
                Case::new(json!({"corpus": c.name, "dir": c.dir.to_string_lossy()}))
            } else {
                let c = &corpus::project_cases()[(index - n) as usize];
                Case::new(json!({"corpus": c.name, "dir": c.dir.to_string_lossy()}))
            };
        }
        if phase == "directed" {
            let (name, text, out) = DIRECTED[index as usize % DIRECTED.len()];
            let expected = Expected { stdout: out.as_bytes().to_vec(), end: Ok(crate::refsem::End::Normal) };
            return Case::new(json!({"text": text, "expected": expected.to_json(), "instances": {},
                "labels": ["directed", format!("directed:{name}"), "generic-fn", "generic-call", "generic-call:composite", "adt:struct", "adt:enum", "tick"]}));
        }
        if phase == "extern" {
            return make_extern_case(bytes);
        }
        if phase == "fnfields" {
            return make_fnfields_case(bytes);
        }
        if phase == "go" {
            return crate::gogen::make_go_case(bytes, if ctx.tier == Tier::Thorough { 1000 } else { 200 });
        }
        // multi-package phase: the last bytes choose the package layout
        let (bytes, layout_bytes) = if phase == "multipkg" {
            bytes.split_at(bytes.len().saturating_sub(16))
        } else {
            (bytes, &bytes[..0])
        };
        let mut d = Dec::new(bytes);
        let cfg = cfg_for(self.kind, phase, ctx.tier, index);
        let p = gen_program(&mut d, cfg, ctx);
        let files = if phase == "multipkg" {
            let layout = crate::gen::layout::choose_layout(&p, &mut Dec::new(layout_bytes));
            Some(crate::gen::render::render_project(&p, &layout))
        } else {
            None
        };
        let text = match &files {
            Some(fs) => fs.iter().find(|(p, _)| p == "main.gom").map(|(_, t)| t.clone()).unwrap_or_default(),
            None => render(&p),
        };
        let expected = if self.kind == Kind::C02 {
            json!({"skip": "not-run"})
        } else {
            Expected::of(&p).to_json()
        };
        let mut input = json!({"text": text, "expected": expected,
            "labels": p.labels.iter().cloned().collect::<Vec<_>>(), "nodes": p.nodes});
        if let Some(fs) = &files {
            input["files"] = goml::files_to_json(fs);
            input["packages"] = json!(fs.len());
        }
        if self.kind == Kind::C07 {
            let mut counts: BTreeMap<String, u64> = BTreeMap::new();
            for (i, f) in p.fns.iter().enumerate() {
                if f.tparams > 0 {
                    counts.insert(p.fns[i].name.clone(), 0);
                }
            }
            for (f, _) in expected_instances(&p) {
                *counts.entry(p.fns[f].name.clone()).or_insert(0) += 1;
            }
            input["instances"] = json!(counts);
        }
        Case::new(input)
    }
    fn judge(&self, phase: &str, case: &Case, ctx: &mut Ctx) -> CaseOut {
        if phase == "corpus" || case.input.get("corpus").is_some() {
            return judge_corpus(&case.input);
        }
        if case.input.get("go").is_some() {
            return crate::gogen::judge_go_case(&case.input, ctx);
        }
        if case.input.get("extern").is_some() {
            return judge_extern_case(&case.input, ctx);
        }
        self.judge_text(&case.input, ctx)
    }
    fn setup(&self, _ctx: &mut Ctx) -> Result<Value, String> {
        behave::calibrate()
    }
    fn rule(&self) -> String {
        let common = "type-directed random programs (construction, no rejection) over structs/enums (plain and generic), generic functions (in a share of the programs also traits, trait impls for nominal types / one instance of a generic type / integers / string / bool, inherent impls, method calls in every written form - Tr::m(x, a), x.m(a), T::m(x, a), p.m(a) and Tr::m(p, a) through one or two bounds, Tr::m(d, a) on a trait object - coercions to dyn Tr in annotated lets and arguments, trait objects passed on and captured by closures), closures, tuples, arrays, Vec, Ref, all 8 integer widths, strings, if/match/while/let patterns, with print 'ticks' planted in operands, arguments, conditions and branches, and every computed value printed; three size classes (<=18, <=60/120, <=120/300 nodes); in the multipkg phase (C01, C02, C07) the same programs are split over 2-3 packages (every item placed in a package not below the items it refers to, cross-package references qualified) and compiled as a project. Shapes excluded by construction because of open known findings are counted under excluded_by_gate. ";
        let oracle = match self.kind {
            Kind::C01 => "Oracle: stdout and end state (normal / failure kind) of the emitted Go run by the Go-subset interpreter equal the reference interpreter's run of the source model; corpus phase: the currently emitted Go of every corpus program reproduces the output recorded from real Go. Non-trivial = program prints >=1 line, uses ticks and >=4 distinct feature labels.",
            Kind::C02 => "Oracle: the emitted Go text parses and type-checks under the Go-subset checker (declared once/before use, assignability, call/return/composite literal typing, unused variables/imports, constant overflow, division by constant zero, missing return ...). Non-trivial = program declares a user type and uses a closure, function value or generic instantiation.",
            Kind::C07 => "Generator biased to generic functions/types and composite type arguments. Oracle: (1) behaviour as C01; (2) in Compilation.mono no generic function has more instances than distinct reachable type-argument tuples (computed from the model; arms proven unreachable may need none), instance names are pairwise distinct, every referenced function exists exactly once and no TParam/TVar/TApp residue remains (irck). Non-trivial = a generic call at a composite type or a generic function with a generic call.",
            Kind::C08 => "Generator biased to closures (captures of params, lets, pattern variables, Refs; nesting). Oracle: behaviour as C01. Non-trivial = a capturing closure that is called.",
            Kind::C09 => "Generator biased to effects (ticks in every operand/argument/condition/branch position, Ref updates, failing operations, while conditions with effects). Oracle: the order and number of printed tick lines (stdout equality) and the failure point. go phase: programs with 1-3 `go` closures (also nested) whose activations read/update shared Refs and print; ALL schedules (stateless DFS over the choice points before every ref_get/ref_set/print/go, capped at 200/1000 per program) are run in the reference interpreter and replayed in miniGo with the same choice sequence: equal output, end state, number of activations and sequence of choice points. Non-trivial = >=2 tick lines or an effectful right operand of && / ||, or (go) >= 2 schedules.",
        };
        format!("{common}{oracle} Distinct by hash of the program text.")
    }
    fn assumptions(&self) -> Vec<String> {
        vec![
            "miniGo (own lexer/parser/type checker/interpreter for the emitted Go subset) stands for the Go toolchain; it is calibrated in setup against the Go recorded from real runs of the corpus (must accept every recorded .go and reproduce every recorded .out, else exit 2)".into(),
            "refsem (reference interpreter over the generator's typed model) is the meaning of the source; cases whose meaning the descriptions leave open (== on closures/vectors, a vector pushed to twice, string_get on non-ASCII bytes) are discarded".into(),
            "programs the compiler rejects or crashes on are not judged here (C04/C05 look at those); integer-literal matches without catch-all are rejected by design".into(),
        ]
    }
    fn required_labels(&self, _tier: Tier) -> Vec<&'static str> {
        match self.kind {
            Kind::C01 => vec!["tick", "match", "closure", "generic-call", "while", "end:Normal", "end:Failed(Index)", "multi-package",
                "method:trait-ufcs", "method:inherent-dot", "method:inherent-ufcs", "method:bound-dot", "method:bound-ufcs", "method:dyn", "dyn:coerce", "method:in-closure"],
            Kind::C02 => vec!["adt:struct", "adt:enum", "closure", "generic-call", "vec", "ref", "array", "multi-package", "extern:segments-3", "extern:never-called", "extern:same-package-twice",
                "method:trait-ufcs", "method:inherent-dot", "method:bound-dot", "method:dyn", "dyn:coerce", "fn:dyn-param", "impl:generic-instance", "impl:prim"],
            Kind::C07 => vec!["generic-call", "generic-call:composite", "mono-instances-checked", "generic-call:bounded", "method:bound-dot", "method:bound-ufcs", "generic-fn:two-bounds"],
            Kind::C08 => vec!["closure:capture", "closure:call", "method:in-closure", "closure:captures-dyn"],
            Kind::C09 => vec!["tick", "while:cond-effect", "end:Failed(DivZero)", "go", "go:all-schedules", "go:schedule-dependent-output"],
        }
    }
    fn max_discard_fraction(&self) -> f64 {
        0.2
    }
}

/// the Go currently emitted for a corpus program behaves as recorded
fn judge_corpus(input: &Value) -> CaseOut {
    let name = input["corpus"].as_str().unwrap_or("?");
    let dir = std::path::PathBuf::from(input["dir"].as_str().unwrap_or(""));
    let src = std::fs::read_to_string(dir.join("main.gom")).unwrap_or_default();
    let Ok(out) = std::fs::read_to_string(dir.join("main.gom.out")) else {
        return CaseOut::discard("corpus:no-recorded-output");
    };
    let key = fnv_str(name);
    match goml::compile_at(dir.join("main.gom"), &src) {
        CompileRes::Ok(_, go) => match behave::go_check(&go) {
            GoCheck::Unsupported(u) => CaseOut::discard(&format!("minigo:{u}")),
            GoCheck::Rejected(errs) => {
                if out.contains("main.go:") && out.contains("cannot use") {
                    // the recording itself is a go build error
                    return CaseOut::discard("corpus:recorded-build-error");
                }
                CaseOut::fail(
                    "C01|corpus|go-rejected".into(),
                    format!("{name}: {}", behave::describe_go_errors(&errs, &go)),
                    key,
                )
            }
            GoCheck::Ok(p) => {
                let mut opts = behave::go_opts();
                if name.contains("go_statement") {
                    opts.sched = vec![1];
                }
                let r = minigo::run(&p, &opts);
                let ok = match &r.end {
                    minigo::End::Exit0 => r.stdout == out.as_bytes(),
                    minigo::End::Panic(..) => out.as_bytes().starts_with(&r.stdout) && out.contains("panic"),
                    _ => false,
                };
                if ok {
                    CaseOut::pass(true, key).labelled(vec!["corpus".into()])
                } else if out.contains("main.go:") && out.contains("cannot use") {
                    CaseOut::discard("corpus:recorded-build-error")
                } else {
                    CaseOut::fail(
                        "C01|corpus|output".into(),
                        format!(
                            "{name}: emitted Go ends {:?} and prints\n{}\nrecorded:\n{}",
                            r.end,
                            truncate_str(&String::from_utf8_lossy(&r.stdout), 500),
                            truncate_str(&out, 500)
                        ),
                        key,
                    )
                }
            }
        },
        CompileRes::Err(e) => CaseOut::fail(
            "C01|corpus|rejected".into(),
            format!("{name}: {:?}", goml::diag_messages(e.diagnostics())),
            key,
        ),
        CompileRes::Panic(p) => CaseOut::fail("C01|corpus|panic".into(), format!("{name}: {}", p.message), key),
    }
}
