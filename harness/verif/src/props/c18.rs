//! C18 — derived ToString / ToJson are total and faithful.
//!
//! Generator: non-generic struct/enum definitions with `#[derive(..)]`, values
//! of them, and a `main` that prints `to_json()` / `to_string()` of every
//! value framed by its byte length.  Oracle: own strict RFC 8259 parser
//! (`json_strict`), structural comparison with the generated value, exact
//! text for `to_string`.

use crate::behave::{self, GoCheck};
use crate::driver::*;
use crate::goml::{self, CompileRes};
use crate::json_strict::{self, J};
use crate::util::*;
use compiler::pipeline::pipeline::CompilationError;
use serde_json::{json, Value};
use std::collections::{BTreeSet, HashSet};

pub struct C18;

// ------------------------------------------------------------------ hazards

/// Shapes behind gates: a program carries at most one of them, so that a
/// failure class can be attributed.
#[derive(Clone, Copy, PartialEq, Eq, Debug)]
pub enum Hazard {
    None,
    /// primitive field types other than the ones with a builtin rendering
    Prim,
    /// tuple / array / Vec / Ref fields, fields of a user type without the derive
    Field,
    /// names that the generated code itself uses (helpers, `self`, lower-case constructors)
    Name,
    /// U+FEFF inside a string literal
    Bom,
    /// characters that Go's %q renders with non-JSON escapes
    Quote,
}

impl Hazard {
    pub fn gate(self) -> &'static str {
        match self {
            Hazard::None => "",
            Hazard::Prim => "derive:prim-without-to_string",
            Hazard::Field => "derive:unsupported-field-type",
            Hazard::Name => "derive:name-capture",
            Hazard::Bom => "string-lit:bom",
            Hazard::Quote => "to_json:go-quote-escapes",
        }
    }
    pub fn tag(self) -> &'static str {
        match self {
            Hazard::None => "none",
            Hazard::Prim => "prim",
            Hazard::Field => "field",
            Hazard::Name => "name",
            Hazard::Bom => "bom",
            Hazard::Quote => "quote",
        }
    }
}

// -------------------------------------------------------------------- model

#[derive(Clone, Copy, PartialEq, Eq, Debug)]
pub enum IntK {
    I8,
    I16,
    I32,
    I64,
    U8,
    U16,
    U32,
    U64,
}

impl IntK {
    const ALL: [IntK; 8] = [IntK::I32, IntK::I8, IntK::I16, IntK::I64, IntK::U8, IntK::U16, IntK::U32, IntK::U64];
    fn name(self) -> &'static str {
        match self {
            IntK::I8 => "int8",
            IntK::I16 => "int16",
            IntK::I32 => "int32",
            IntK::I64 => "int64",
            IntK::U8 => "uint8",
            IntK::U16 => "uint16",
            IntK::U32 => "uint32",
            IntK::U64 => "uint64",
        }
    }
    fn suffix(self) -> &'static str {
        match self {
            IntK::I8 => "i8",
            IntK::I16 => "i16",
            IntK::I32 => "",
            IntK::I64 => "i64",
            IntK::U8 => "u8",
            IntK::U16 => "u16",
            IntK::U32 => "u32",
            IntK::U64 => "u64",
        }
    }
    fn max(self) -> i128 {
        match self {
            IntK::I8 => i8::MAX as i128,
            IntK::I16 => i16::MAX as i128,
            IntK::I32 => i32::MAX as i128,
            IntK::I64 => i64::MAX as i128,
            IntK::U8 => u8::MAX as i128,
            IntK::U16 => u16::MAX as i128,
            IntK::U32 => u32::MAX as i128,
            IntK::U64 => u64::MAX as i128,
        }
    }
    fn signed(self) -> bool {
        matches!(self, IntK::I8 | IntK::I16 | IntK::I32 | IntK::I64)
    }
}

#[derive(Clone, Debug, PartialEq)]
pub enum FTy {
    Bool,
    Unit,
    Int(IntK),
    F32,
    F64,
    Str,
    Named(usize),
    Tuple(Vec<FTy>),
    Array(Box<FTy>, usize),
    Vec(Box<FTy>),
    Ref(Box<FTy>),
}

#[derive(Clone, Debug)]
pub enum Body {
    Struct(Vec<(String, FTy)>),
    Enum(Vec<(String, Vec<FTy>)>),
}

#[derive(Clone, Debug)]
pub struct TDef {
    pub name: String,
    pub ts: bool,
    pub tj: bool,
    pub attr_style: u8,
    pub body: Body,
}

#[derive(Clone, Debug)]
pub enum Val {
    Bool(bool),
    Unit,
    Int(IntK, i128),
    F32(f32),
    F64(f64),
    Str(String),
    Struct(usize, Vec<Val>),
    Enum(usize, usize, Vec<Val>),
    Tuple(Vec<Val>),
    Array(Vec<Val>),
    Vec(Vec<Val>),
    Ref(Box<Val>),
}

// ------------------------------------------------------------------- names

const TYPE_NAMES: &[&str] = &["Pt", "Rec", "Item", "Tree", "Msg", "Cfg", "Pair", "Wrap"];
/// type names that coincide with identifiers of the generated code (harmless ones)
const TYPE_NAMES_COINCIDE: &[&str] = &["tag", "fields", "value", "to_json", "to_string", "lower", "Self"];
/// behind the name gate
const TYPE_NAMES_RISKY: &[&str] = &["json_escape_string", "bool_to_json"];

const FIELD_NAMES: &[&str] = &["a", "b", "x", "y", "name", "n0", "left", "right", "id"];
const FIELD_NAMES_COINCIDE: &[&str] = &[
    "self", "tag", "fields", "value", "to_json", "to_string", "int32_to_string", "string_println", "Self", "main",
    "unit_to_string", "string_len",
];
const FIELD_NAMES_RISKY: &[&str] = &["json_escape_string", "bool_to_json"];

const VARIANT_NAMES: &[&str] = &["A", "B", "C", "Leaf", "Node", "Cons", "Nil", "Some2", "Wr", "Quit", "Move"];
const VARIANT_NAMES_COINCIDE: &[&str] = &["leaf", "cons", "tag", "fields", "value", "to_json", "to_string", "lower2", "Tag", "unit_to_string"];
/// lower-case constructors whose names the generated code also uses as variables / callees
const VARIANT_NAMES_RISKY: &[&str] = &["self", "json_escape_string", "bool_to_json"];

// --------------------------------------------------------------- characters

const ASCII_PLAIN: &[char] = &[
    'a', 'b', 'z', 'A', 'Q', '0', '7', ' ', '_', '-', '.', '!', '#', '$', '%', '&', '\'', '(', ')', '*', '+', ',', ':', ';',
    '<', '=', '>', '?', '@', '[', ']', '^', '`', '{', '|', '}', '~',
];
const ASCII_ESC: &[char] = &['"', '\\', '/', '\n', '\t', '\r', '\u{8}', '\u{c}'];
const NON_ASCII: &[char] = &[
    'é', 'ß', 'ÿ', 'Ω', 'ж', '\u{a0}', '\u{ad}', '\u{200b}', '\u{2028}', '\u{85}', '\u{e000}', '\u{fffd}', '中', '文', '한',
    '→', '€',
];
const ASTRAL: &[char] = &['😀', '🎉', '😺'];
/// rendered by %q as \xNN, \a, \v or \U........ : not JSON
const QUOTE_HAZARD: &[char] = &['\u{1}', '\u{0}', '\u{7}', '\u{b}', '\u{1f}', '\u{7f}', '\u{f0000}', '\u{10ffff}', '\u{1b}'];

fn needs_json_escape(c: char) -> bool {
    c == '"' || c == '\\' || (c as u32) < 0x20
}

// ---------------------------------------------------------------- generator

struct Gen<'a, 'b> {
    d: &'a mut Dec<'b>,
    hz: Hazard,
    phase: &'a str,
    types: Vec<TDef>,
    type_names: HashSet<String>,
    variant_names: HashSet<String>,
    field_names_used: HashSet<String>,
    labels: BTreeSet<String>,
    hazard_planted: bool,
}

impl<'a, 'b> Gen<'a, 'b> {
    fn label(&mut self, l: &str) {
        self.labels.insert(l.to_string());
    }

    fn prims_for(&self, ts: bool, _tj: bool) -> Vec<FTy> {
        if self.hz == Hazard::Prim {
            let mut v = vec![FTy::Str, FTy::Bool, FTy::Unit, FTy::F64, FTy::F32];
            for k in IntK::ALL {
                v.push(FTy::Int(k));
            }
            v
        } else if ts {
            vec![FTy::Int(IntK::I32), FTy::Str]
        } else {
            vec![FTy::Int(IntK::I32), FTy::Str, FTy::Bool, FTy::Unit]
        }
    }
    /// primitives that have no rendering for the given derives (as observed)
    fn prims_unsupported(&self, ts: bool) -> Vec<FTy> {
        let mut v = vec![FTy::F64, FTy::F32];
        for k in IntK::ALL {
            if k != IntK::I32 {
                v.push(FTy::Int(k));
            }
        }
        if ts {
            v.push(FTy::Bool);
            v.push(FTy::Unit);
        }
        v
    }

    fn fresh_type_name(&mut self) -> String {
        let coincide = self.phase == "names" || self.d.chance(40);
        for _ in 0..8 {
            let n = if self.hz == Hazard::Name && !self.hazard_planted && self.d.chance(60) {
                let n = self.d.pick(TYPE_NAMES_RISKY);
                if !self.type_names.contains(n) && !self.variant_names.contains(n) {
                    self.hazard_planted = true;
                    self.label("name:risky-type");
                }
                n
            } else if coincide && self.d.chance(150) {
                self.d.pick(TYPE_NAMES_COINCIDE)
            } else {
                self.d.pick(TYPE_NAMES)
            };
            if !self.type_names.contains(n) && !self.variant_names.contains(n) {
                if TYPE_NAMES_COINCIDE.contains(&n) {
                    self.label("name:coincide");
                }
                self.type_names.insert(n.to_string());
                return n.to_string();
            }
        }
        let n = format!("Ty{}", self.types.len());
        self.type_names.insert(n.clone());
        n
    }

    fn fresh_variant_name(&mut self, local: &HashSet<String>) -> String {
        let coincide = self.phase == "names" || self.d.chance(40);
        for _ in 0..8 {
            let n = if self.hz == Hazard::Name && !self.hazard_planted && self.d.chance(90) {
                let n = self.d.pick(VARIANT_NAMES_RISKY);
                if !self.variant_names.contains(n) && !self.type_names.contains(n) {
                    self.hazard_planted = true;
                    self.label("name:risky-variant");
                }
                n
            } else if coincide && self.d.chance(150) {
                self.d.pick(VARIANT_NAMES_COINCIDE)
            } else {
                self.d.pick(VARIANT_NAMES)
            };
            // variant names are globally unique and distinct from type names (each
            // becomes a Go type; clashes there are another property's subject)
            if self.hz != Hazard::Name && self.field_names_used.contains(n) {
                // outside the name hazard no field shares its name with a constructor
                continue;
            }
            if !self.variant_names.contains(n) && !self.type_names.contains(n) && !local.contains(n) {
                if VARIANT_NAMES_COINCIDE.contains(&n) {
                    self.label("name:coincide");
                    if n.chars().next().map_or(false, |c| c.is_lowercase()) {
                        self.label("name:lowercase-constructor");
                    }
                }
                self.variant_names.insert(n.to_string());
                return n.to_string();
            }
        }
        let n = format!("V{}x{}", self.types.len(), self.variant_names.len());
        self.variant_names.insert(n.clone());
        n
    }

    fn fresh_field_name(&mut self, local: &HashSet<String>) -> String {
        let coincide = self.phase == "names" || self.d.chance(40);
        for _ in 0..8 {
            let n: String = if self.hz == Hazard::Name && !self.hazard_planted && self.d.chance(90) {
                // a helper name, or the name of a lower-case constructor of the program
                let lowers: Vec<String> = {
                    let mut v: Vec<String> = self
                        .variant_names
                        .iter()
                        .filter(|v| v.chars().next().map_or(false, |c| c.is_lowercase()))
                        .cloned()
                        .collect();
                    v.sort();
                    v
                };
                let n = if !lowers.is_empty() && self.d.bool() {
                    lowers[self.d.below(lowers.len())].clone()
                } else {
                    self.d.pick(FIELD_NAMES_RISKY).to_string()
                };
                if !local.contains(&n) {
                    self.hazard_planted = true;
                    self.label("name:risky-field");
                }
                n
            } else if coincide && self.d.chance(150) {
                let k = self.d.below(FIELD_NAMES_COINCIDE.len() + 1);
                if k == FIELD_NAMES_COINCIDE.len() {
                    // the name of a type of the program
                    let mut v: Vec<String> = self.type_names.iter().cloned().collect();
                    v.sort();
                    if v.is_empty() {
                        "tag".to_string()
                    } else {
                        v[self.d.below(v.len())].clone()
                    }
                } else {
                    FIELD_NAMES_COINCIDE[k].to_string()
                }
            } else {
                self.d.pick(FIELD_NAMES).to_string()
            };
            if local.contains(&n) {
                continue;
            }
            // outside the name hazard, field names never equal a constructor name
            if self.hz != Hazard::Name && self.variant_names.contains(&n) {
                continue;
            }
            if FIELD_NAMES_COINCIDE.contains(&n.as_str()) || self.type_names.contains(&n) {
                self.label("name:coincide");
            }
            self.field_names_used.insert(n.clone());
            return n;
        }
        let mut k = local.len();
        loop {
            let n = format!("f{k}");
            if !local.contains(&n) && !self.variant_names.contains(&n) {
                self.field_names_used.insert(n.clone());
                return n;
            }
            k += 1;
        }
    }

    /// a field type for type number `me` (which derives ts/tj); `rec` = may refer to itself
    fn field_ty(&mut self, me: usize, ts: bool, tj: bool, rec: bool) -> FTy {
        // planted hazards first
        if self.hz == Hazard::Prim && !self.hazard_planted {
            self.hazard_planted = true;
            let c = self.prims_unsupported(ts);
            let t = c[self.d.below(c.len())].clone();
            self.label("hazard:prim");
            return t;
        }
        if self.hz == Hazard::Field && !self.hazard_planted {
            self.hazard_planted = true;
            let prim = if self.d.bool() { FTy::Str } else { FTy::Int(IntK::I32) };
            let plain: Vec<usize> = (0..self.types.len()).filter(|&j| !self.types[j].ts && !self.types[j].tj).collect();
            let k = self.d.below(if plain.is_empty() { 4 } else { 5 });
            let t = match k {
                0 => FTy::Tuple(vec![prim, FTy::Int(IntK::I32)]),
                1 => FTy::Array(Box::new(prim), 2),
                2 => FTy::Vec(Box::new(prim)),
                3 => FTy::Ref(Box::new(prim)),
                _ => FTy::Named(plain[0]),
            };
            self.label(match k {
                0 => "field:tuple",
                1 => "field:array",
                2 => "field:vec",
                3 => "field:ref",
                _ => "field:underived",
            });
            return t;
        }
        let cands: Vec<usize> = (0..me)
            .filter(|&j| (!ts || self.types[j].ts) && (!tj || self.types[j].tj))
            .collect();
        let w_named = if cands.is_empty() { 0 } else { 5 };
        let w_rec = if rec { 3 } else { 0 };
        match self.d.weighted(&[6, w_named, w_rec]) {
            1 => {
                // prefer the most recent types: deeper nesting
                let k = cands.len() - 1 - self.d.below(cands.len().min(3));
                FTy::Named(cands[k])
            }
            2 => {
                self.label("recursive");
                FTy::Named(me)
            }
            _ => {
                let p = self.prims_for(ts, tj);
                let t = p[self.d.below(p.len())].clone();
                if self.hz == Hazard::Prim && self.prims_unsupported(ts).contains(&t) {
                    self.hazard_planted = true;
                }
                t
            }
        }
    }

    fn gen_types(&mut self) {
        let n = match self.phase {
            "strings" => 1,
            _ => 1 + self.d.below(4),
        };
        if self.hz == Hazard::Field {
            // a user type without any derive, to be used as a field type
            let name = self.fresh_type_name();
            self.types.push(TDef {
                name,
                ts: false,
                tj: false,
                attr_style: 0,
                body: Body::Struct(vec![("p".into(), FTy::Int(IntK::I32))]),
            });
        }
        let first = self.types.len();
        for i in first..first + n {
            let (ts, tj) = match self.d.weighted(&[5, 3, 2]) {
                0 => (true, true),
                1 => (false, true),
                _ => (true, false),
            };
            let name = self.fresh_type_name();
            let is_enum = if self.phase == "strings" { self.d.chance(80) } else { self.d.bool() };
            let attr_style = self.d.below(6) as u8;
            // placeholder so that recursion can name the type
            self.types.push(TDef { name, ts, tj, attr_style, body: Body::Struct(vec![]) });
            let body = if is_enum {
                self.label("enum");
                let nv = 1 + self.d.below(4);
                let mut vs = vec![];
                let mut local = HashSet::new();
                for v in 0..nv {
                    let vn = self.fresh_variant_name(&local);
                    local.insert(vn.clone());
                    // now and then a wide variant: 5..24 payload fields
                    let arity = if self.phase == "strings" {
                        1 + self.d.below(2)
                    } else if self.d.chance(8) {
                        self.label("variant:wide");
                        5 + self.d.below(20)
                    } else {
                        self.d.below(4)
                    };
                    self.label(&format!("variant:arity{}", if arity > 4 { "5+".to_string() } else { arity.to_string() }));
                    let mut ps = vec![];
                    for _ in 0..arity {
                        let t = if self.phase == "strings" {
                            FTy::Str
                        } else {
                            // the first variant is never recursive: values can always end
                            self.field_ty(i, ts, tj, v > 0)
                        };
                        ps.push(t);
                    }
                    vs.push((vn, ps));
                }
                Body::Enum(vs)
            } else {
                self.label("struct");
                // now and then a wide struct: 6..45 fields
                let nf = if self.phase == "strings" {
                    1 + self.d.below(2)
                } else if self.d.chance(10) {
                    self.label("struct:wide");
                    6 + self.d.below(40)
                } else {
                    self.d.below(5)
                };
                if nf == 0 {
                    self.label("empty-struct");
                }
                let mut fs = vec![];
                let mut local = HashSet::new();
                for _ in 0..nf {
                    let t = if self.phase == "strings" { FTy::Str } else { self.field_ty(i, ts, tj, false) };
                    let fname = self.fresh_field_name(&local);
                    local.insert(fname.clone());
                    fs.push((fname, t));
                }
                Body::Struct(fs)
            };
            self.types[i].body = body;
            self.label(match (ts, tj) {
                (true, true) => "derive:both",
                (false, true) => "derive:json",
                _ => "derive:string",
            });
        }
    }

    fn gen_string(&mut self) -> String {
        let max = if self.phase == "strings" { 20 } else { 7 };
        let n = self.d.below(max + 1);
        let mut s = String::new();
        for _ in 0..n {
            let w_q = if self.hz == Hazard::Quote { 5 } else { 0 };
            let w_b = if self.hz == Hazard::Bom { 4 } else { 0 };
            let c = match self.d.weighted(&[6, 4, 4, 2, w_q, w_b]) {
                0 => self.d.pick(ASCII_PLAIN),
                1 => self.d.pick(ASCII_ESC),
                2 => self.d.pick(NON_ASCII),
                3 => self.d.pick(ASTRAL),
                4 => {
                    self.hazard_planted = true;
                    self.d.pick(QUOTE_HAZARD)
                }
                _ => {
                    self.hazard_planted = true;
                    '\u{feff}'
                }
            };
            s.push(c);
        }
        if s.chars().any(needs_json_escape) {
            self.label("str:escape-needed");
        }
        if !s.is_ascii() {
            self.label("str:non-ascii");
        }
        if s.chars().any(|c| c as u32 >= 0x10000) {
            self.label("str:astral");
        }
        if s.is_empty() {
            self.label("str:empty");
        }
        s
    }

    fn gen_int(&mut self, k: IntK) -> i128 {
        let max = k.max();
        match self.d.below(6) {
            0 => 0,
            1 => 1,
            2 => max,
            3 => {
                if k.signed() {
                    -max
                } else {
                    max - 1
                }
            }
            4 => {
                let v = self.d.below(200) as i128;
                if k.signed() && self.d.bool() {
                    -v
                } else {
                    v
                }
            }
            _ => {
                let v = (self.d.u64() as i128) % (max + 1);
                if k.signed() && self.d.bool() {
                    -v
                } else {
                    v
                }
            }
        }
    }

    fn gen_val(&mut self, t: &FTy, depth: usize) -> Val {
        match t {
            FTy::Bool => Val::Bool(self.d.bool()),
            FTy::Unit => Val::Unit,
            FTy::Int(k) => Val::Int(*k, self.gen_int(*k)),
            FTy::F32 => Val::F32(self.d.pick(&[0.0f32, 0.5, -1.25, 3.0, 0.1, 1234.5])),
            FTy::F64 => Val::F64(self.d.pick(&[0.0f64, 0.5, -1.25, 3.0, 0.1, 123456.789, 0.000001])),
            FTy::Str => Val::Str(self.gen_string()),
            FTy::Named(i) => {
                let def = self.types[*i].clone();
                match &def.body {
                    Body::Struct(fs) => Val::Struct(*i, fs.iter().map(|(_, ft)| self.gen_val(ft, depth + 1)).collect()),
                    Body::Enum(vs) => {
                        let k = if depth >= 3 { 0 } else { self.d.below(vs.len()) };
                        // prefer recursive variants while there is depth left
                        let k = if depth < 3 && self.d.chance(100) {
                            vs.iter().position(|(_, ps)| ps.contains(&FTy::Named(*i))).unwrap_or(k)
                        } else {
                            k
                        };
                        Val::Enum(*i, k, vs[k].1.iter().map(|pt| self.gen_val(pt, depth + 1)).collect())
                    }
                }
            }
            FTy::Tuple(ts) => Val::Tuple(ts.iter().map(|x| self.gen_val(x, depth + 1)).collect()),
            FTy::Array(e, n) => Val::Array((0..*n).map(|_| self.gen_val(e, depth + 1)).collect()),
            FTy::Vec(e) => {
                let n = self.d.below(3);
                Val::Vec((0..n).map(|_| self.gen_val(e, depth + 1)).collect())
            }
            FTy::Ref(e) => Val::Ref(Box::new(self.gen_val(e, depth + 1))),
        }
    }
}

// ---------------------------------------------------------------- rendering

fn render_fty(t: &FTy, types: &[TDef]) -> String {
    match t {
        FTy::Bool => "bool".into(),
        FTy::Unit => "unit".into(),
        FTy::Int(k) => k.name().into(),
        FTy::F32 => "float32".into(),
        FTy::F64 => "float64".into(),
        FTy::Str => "string".into(),
        FTy::Named(i) => types[*i].name.clone(),
        FTy::Tuple(ts) => format!("({})", ts.iter().map(|x| render_fty(x, types)).collect::<Vec<_>>().join(", ")),
        FTy::Array(e, n) => format!("[{}; {}]", render_fty(e, types), n),
        FTy::Vec(e) => format!("Vec[{}]", render_fty(e, types)),
        FTy::Ref(e) => format!("Ref[{}]", render_fty(e, types)),
    }
}

fn render_types(types: &[TDef], d: &mut Dec) -> String {
    let mut s = String::new();
    for t in types {
        let both = ["ToString", "ToJson"];
        match (t.ts, t.tj) {
            (false, false) => {}
            (true, true) => match t.attr_style {
                0 => s.push_str("#[derive(ToString, ToJson)]\n"),
                1 => s.push_str("#[derive(ToJson, ToString)]\n"),
                2 => s.push_str("#[derive(ToString)]\n#[derive(ToJson)]\n"),
                3 => s.push_str("#[derive(ToJson)]\n#[derive(ToString)]\n"),
                4 => s.push_str("#[derive( ToJson , ToString )]\n"),
                _ => s.push_str("#[derive(ToString,ToJson)] // derived\n"),
            },
            (ts, _) => {
                let n = both[if ts { 0 } else { 1 }];
                match t.attr_style {
                    0 | 1 | 2 => s.push_str(&format!("#[derive({n})]\n")),
                    3 => s.push_str(&format!("#[derive( {n} )]\n")),
                    4 => s.push_str(&format!("#[derive({n},)]\n")),
                    _ => s.push_str(&format!("#[derive({n})] // derived\n")),
                }
            }
        }
        let _ = &d;
        match &t.body {
            Body::Struct(fs) => {
                if fs.is_empty() {
                    s.push_str(&format!("struct {} {{}}\n\n", t.name));
                } else {
                    s.push_str(&format!("struct {} {{\n", t.name));
                    for (n, ft) in fs {
                        s.push_str(&format!("    {}: {},\n", n, render_fty(ft, types)));
                    }
                    s.push_str("}\n\n");
                }
            }
            Body::Enum(vs) => {
                s.push_str(&format!("enum {} {{\n", t.name));
                for (n, ps) in vs {
                    if ps.is_empty() {
                        s.push_str(&format!("    {},\n", n));
                    } else {
                        s.push_str(&format!(
                            "    {}({}),\n",
                            n,
                            ps.iter().map(|x| render_fty(x, types)).collect::<Vec<_>>().join(", ")
                        ));
                    }
                }
                s.push_str("}\n\n");
            }
        }
    }
    s
}

/// a goml string literal denoting exactly `s`; `d` chooses between the raw
/// character and the escapes the lexer accepts
pub fn render_string_lit(s: &str, d: &mut Dec) -> String {
    let mut out = String::from("\"");
    for c in s.chars() {
        match c {
            '"' => out.push_str("\\\""),
            '\\' => out.push_str("\\\\"),
            '/' => out.push_str(if d.bool() { "\\/" } else { "/" }),
            '\n' => out.push_str("\\n"),
            '\t' => out.push_str("\\t"),
            '\r' => out.push_str("\\r"),
            '\u{8}' => out.push_str(if d.bool() { "\\u0008" } else { "\\b" }),
            '\u{c}' => out.push_str(if d.bool() { "\\u000C" } else { "\\f" }),
            c if (c as u32) < 0x20 || c as u32 == 0x7f => out.push_str(&format!("\\u{:04x}", c as u32)),
            c if (c as u32) < 0x80 => out.push(c),
            c => {
                // U+0085, U+2028 and U+FEFF are always written as escapes: a raw one could
                // be taken for a line break / byte order mark by the goml lexer itself
                let force = matches!(c as u32, 0x85 | 0x2028 | 0xfeff);
                if force || d.chance(90) {
                    let mut buf = [0u16; 2];
                    for u in c.encode_utf16(&mut buf) {
                        out.push_str(&format!("\\u{:04X}", u));
                    }
                } else {
                    out.push(c);
                }
            }
        }
    }
    out.push('"');
    out
}

/// fixed-point spelling `d.d` (the lexer knows no exponents); a negative
/// value is written with a unary minus
fn float_lit(_v: f64, display: &str) -> String {
    if display.contains('.') {
        display.to_string()
    } else {
        format!("{display}.0")
    }
}

fn render_val(v: &Val, types: &[TDef], d: &mut Dec) -> String {
    match v {
        Val::Bool(b) => b.to_string(),
        Val::Unit => "()".into(),
        Val::Int(k, n) => format!("{}{}", n, k.suffix()),
        Val::F32(f) => format!("{}f32", float_lit(*f as f64, &format!("{}", f))),
        Val::F64(f) => float_lit(*f, &format!("{}", f)),
        Val::Str(s) => render_string_lit(s, d),
        Val::Struct(i, fs) => {
            let Body::Struct(defs) = &types[*i].body else { return "?".into() };
            if fs.is_empty() {
                format!("{} {{}}", types[*i].name)
            } else {
                let parts: Vec<String> = defs
                    .iter()
                    .zip(fs)
                    .map(|((n, _), fv)| format!("{}: {}", n, render_val(fv, types, d)))
                    .collect();
                format!("{} {{ {} }}", types[*i].name, parts.join(", "))
            }
        }
        Val::Enum(i, k, ps) => {
            let Body::Enum(defs) = &types[*i].body else { return "?".into() };
            if ps.is_empty() {
                format!("{}::{}", types[*i].name, defs[*k].0)
            } else {
                let parts: Vec<String> = ps.iter().map(|p| render_val(p, types, d)).collect();
                format!("{}::{}({})", types[*i].name, defs[*k].0, parts.join(", "))
            }
        }
        Val::Tuple(xs) => format!("({})", xs.iter().map(|x| render_val(x, types, d)).collect::<Vec<_>>().join(", ")),
        Val::Array(xs) => format!("[{}]", xs.iter().map(|x| render_val(x, types, d)).collect::<Vec<_>>().join(", ")),
        Val::Vec(xs) => {
            let mut s = "vec_new()".to_string();
            for x in xs {
                s = format!("vec_push({}, {})", s, render_val(x, types, d));
            }
            s
        }
        Val::Ref(x) => format!("ref({})", render_val(x, types, d)),
    }
}

// --------------------------------------------------------- expected results

/// the JSON the value must decode from (see `compare_json`)
fn expected_json(v: &Val, types: &[TDef]) -> Value {
    match v {
        Val::Bool(b) => json!({"k":"bool","v":b}),
        Val::Unit => json!({"k":"unit"}),
        Val::Int(_, n) => json!({"k":"int","v":n.to_string()}),
        Val::F32(f) => json!({"k":"f32","v":format!("{:08x}", f.to_bits())}),
        Val::F64(f) => json!({"k":"f64","v":format!("{:016x}", f.to_bits())}),
        Val::Str(s) => json!({"k":"str","v":s}),
        Val::Struct(i, fs) => {
            let Body::Struct(defs) = &types[*i].body else { return json!({"k":"any"}) };
            let m: Vec<Value> = defs.iter().zip(fs).map(|((n, _), fv)| json!([n, expected_json(fv, types)])).collect();
            json!({"k":"obj","m":m})
        }
        Val::Enum(i, k, ps) => {
            let Body::Enum(defs) = &types[*i].body else { return json!({"k":"any"}) };
            let f: Vec<Value> = ps.iter().map(|p| expected_json(p, types)).collect();
            json!({"k":"variant","tag":defs[*k].0,"f":f})
        }
        Val::Tuple(_) | Val::Array(_) | Val::Vec(_) | Val::Ref(_) => json!({"k":"any"}),
    }
}

/// `Name { f: v }` / `Enum::Variant(v)`; None = not judged (floats, composite
/// fields: no documented rendering). `empty` = rendering of a field-less struct.
fn expected_string(v: &Val, types: &[TDef], empty: u8) -> Option<String> {
    Some(match v {
        Val::Bool(b) => b.to_string(),
        Val::Unit => "()".into(),
        Val::Int(_, n) => n.to_string(),
        Val::Str(s) => s.clone(),
        Val::F32(_) | Val::F64(_) | Val::Tuple(_) | Val::Array(_) | Val::Vec(_) | Val::Ref(_) => return None,
        Val::Struct(i, fs) => {
            let Body::Struct(defs) = &types[*i].body else { return None };
            if !types[*i].ts {
                return None;
            }
            if fs.is_empty() {
                match empty {
                    0 => format!("{} {{}}", types[*i].name),
                    1 => format!("{} {{ }}", types[*i].name),
                    _ => types[*i].name.clone(),
                }
            } else {
                let mut parts = vec![];
                for ((n, _), fv) in defs.iter().zip(fs) {
                    parts.push(format!("{}: {}", n, expected_string(fv, types, empty)?));
                }
                format!("{} {{ {} }}", types[*i].name, parts.join(", "))
            }
        }
        Val::Enum(i, k, ps) => {
            let Body::Enum(defs) = &types[*i].body else { return None };
            if !types[*i].ts {
                return None;
            }
            if ps.is_empty() {
                format!("{}::{}", types[*i].name, defs[*k].0)
            } else {
                let mut parts = vec![];
                for p in ps {
                    parts.push(expected_string(p, types, empty)?);
                }
                format!("{}::{}({})", types[*i].name, defs[*k].0, parts.join(", "))
            }
        }
    })
}

fn val_depth(v: &Val) -> usize {
    match v {
        Val::Struct(_, xs) | Val::Enum(_, _, xs) | Val::Tuple(xs) | Val::Array(xs) | Val::Vec(xs) => {
            1 + xs.iter().map(val_depth).max().unwrap_or(0)
        }
        Val::Ref(x) => 1 + val_depth(x),
        _ => 0,
    }
}

fn val_has_escape_string(v: &Val) -> bool {
    match v {
        Val::Str(s) => s.chars().any(|c| needs_json_escape(c) || !c.is_ascii()),
        Val::Struct(_, xs) | Val::Enum(_, _, xs) | Val::Tuple(xs) | Val::Array(xs) | Val::Vec(xs) => {
            xs.iter().any(val_has_escape_string)
        }
        Val::Ref(x) => val_has_escape_string(x),
        _ => false,
    }
}

// ------------------------------------------------------------- the oracle

fn path_push(path: &str, seg: &str) -> String {
    format!("{path}/{seg}")
}

/// Ok or (class, explanation)
pub fn compare_json(exp: &Value, act: &J, path: &str) -> Result<(), (String, String)> {
    let kind = exp["k"].as_str().unwrap_or("any");
    let bad = |class: &str, msg: String| Err((class.to_string(), format!("at {}: {msg}", if path.is_empty() { "/" } else { path })));
    match kind {
        "any" => Ok(()),
        "bool" => match act {
            J::Bool(b) if Some(*b) == exp["v"].as_bool() => Ok(()),
            other => bad("leaf-bool", format!("expected {}, found {:?}", exp["v"], other)),
        },
        "unit" => match act {
            J::Null => Ok(()),
            J::Arr(a) if a.is_empty() => Ok(()),
            J::Obj(o) if o.is_empty() => Ok(()),
            other => bad("leaf-unit", format!("expected null (or an empty array/object) for unit, found {:?}", other)),
        },
        "int" => match act {
            J::Num(n) if json_strict::num_eq_int(n, exp["v"].as_str().unwrap_or("")) => Ok(()),
            other => bad("leaf-number", format!("expected the number {}, found {:?}", exp["v"], other)),
        },
        "f64" => {
            let bits = u64::from_str_radix(exp["v"].as_str().unwrap_or("0"), 16).unwrap_or(0);
            let want = f64::from_bits(bits);
            match act {
                J::Num(n) if json_strict::num_as_f64(n) == Some(want) => Ok(()),
                other => bad("leaf-number", format!("expected a number that reads back as the float64 {:?}, found {:?}", want, other)),
            }
        }
        "f32" => {
            let bits = u32::from_str_radix(exp["v"].as_str().unwrap_or("0"), 16).unwrap_or(0);
            let want = f32::from_bits(bits);
            match act {
                J::Num(n) if n.parse::<f32>().ok() == Some(want) => Ok(()),
                other => bad("leaf-number", format!("expected a number that reads back as the float32 {:?}, found {:?}", want, other)),
            }
        }
        "str" => match act {
            J::Str(s) if Some(s.as_str()) == exp["v"].as_str() => Ok(()),
            other => bad(
                "leaf-string",
                format!("expected the string {:?}, found {:?}", exp["v"].as_str().unwrap_or(""), other),
            ),
        },
        "obj" => {
            let J::Obj(members) = act else {
                return bad("structure", format!("expected an object for a struct, found {:?}", act));
            };
            let want = exp["m"].as_array().cloned().unwrap_or_default();
            let mut seen: HashSet<&str> = HashSet::new();
            for (k, _) in members {
                if !seen.insert(k.as_str()) {
                    return bad("structure", format!("member {:?} occurs twice", k));
                }
            }
            if members.len() != want.len() {
                return bad(
                    "structure",
                    format!(
                        "struct has fields {:?}, object has members {:?}",
                        want.iter().map(|w| w[0].as_str().unwrap_or("")).collect::<Vec<_>>(),
                        members.iter().map(|(k, _)| k.as_str()).collect::<Vec<_>>()
                    ),
                );
            }
            for w in &want {
                let name = w[0].as_str().unwrap_or("");
                let Some((_, av)) = members.iter().find(|(k, _)| k == name) else {
                    return bad("structure", format!("no member for field {:?}", name));
                };
                compare_json(&w[1], av, &path_push(path, name))?;
            }
            Ok(())
        }
        "variant" => {
            let J::Obj(members) = act else {
                return bad("structure", format!("expected an object for an enum value, found {:?}", act));
            };
            let mut tag = None;
            let mut fields = None;
            for (k, v) in members {
                match k.as_str() {
                    "tag" if tag.is_none() => tag = Some(v),
                    "fields" if fields.is_none() => fields = Some(v),
                    other => return bad("structure", format!("unexpected or repeated member {:?} in an enum value", other)),
                }
            }
            let want_tag = exp["tag"].as_str().unwrap_or("");
            match tag {
                Some(J::Str(t)) if t == want_tag => {}
                other => return bad("structure", format!("expected \"tag\":{:?}, found {:?}", want_tag, other)),
            }
            let want = exp["f"].as_array().cloned().unwrap_or_default();
            match fields {
                None if want.is_empty() => Ok(()),
                None => bad("structure", format!("variant {want_tag} has {} payloads, \"fields\" is missing", want.len())),
                Some(J::Arr(items)) => {
                    if items.len() != want.len() {
                        return bad(
                            "structure",
                            format!("variant {want_tag} has {} payloads, \"fields\" has {} items", want.len(), items.len()),
                        );
                    }
                    for (i, (w, a)) in want.iter().zip(items).enumerate() {
                        compare_json(w, a, &path_push(path, &format!("{want_tag}.{i}")))?;
                    }
                    Ok(())
                }
                Some(other) => bad("structure", format!("\"fields\" must be an array, found {:?}", other)),
            }
        }
        _ => Ok(()),
    }
}

/// frames printed by the program: `<byte length>\n<bytes>\n`
fn read_frames(stdout: &[u8], n: usize) -> Result<Vec<Vec<u8>>, String> {
    let mut out = vec![];
    let mut i = 0usize;
    for k in 0..n {
        let Some(nl) = stdout[i..].iter().position(|b| *b == b'\n') else {
            return Err(format!("frame {k}: length line missing at byte {i}"));
        };
        let len: usize = std::str::from_utf8(&stdout[i..i + nl])
            .ok()
            .and_then(|s| s.parse().ok())
            .ok_or_else(|| format!("frame {k}: length line is not a number"))?;
        i += nl + 1;
        if i + len + 1 > stdout.len() || stdout[i + len] != b'\n' {
            return Err(format!("frame {k}: {len} bytes and a newline expected at byte {i}"));
        }
        out.push(stdout[i..i + len].to_vec());
        i += len + 1;
    }
    if i != stdout.len() {
        return Err(format!("{} unexpected bytes after the last frame", stdout.len() - i));
    }
    Ok(out)
}

fn is_derive_stage(e: &CompilationError) -> bool {
    matches!(e, CompilationError::Lower { .. })
        && e.diagnostics().iter().any(|d| d.stage().as_str() == "derive" || d.message().contains("derive("))
}

// -------------------------------------------------------------------- check

fn build_case(phase: &str, bytes: &[u8], ctx: &mut Ctx) -> Value {
    let mut d = Dec::new(bytes);
    // the hazard of this program (at most one), subject to the gates
    let pick = match phase {
        "strings" => d.weighted(&[5, 0, 0, 0, 1, 3]),
        "names" => d.weighted(&[5, 0, 0, 4, 0, 0]),
        _ => d.weighted(&[10, 3, 2, 1, 1, 2]),
    };
    let mut hz = [Hazard::None, Hazard::Prim, Hazard::Field, Hazard::Name, Hazard::Bom, Hazard::Quote][pick];
    if hz != Hazard::None && ctx.gated(hz.gate()) {
        hz = Hazard::None;
    }
    let mut g = Gen {
        d: &mut d,
        hz,
        phase,
        types: vec![],
        type_names: HashSet::new(),
        variant_names: HashSet::new(),
        field_names_used: HashSet::new(),
        labels: BTreeSet::new(),
        hazard_planted: false,
    };
    g.gen_types();
    // values of the derived types (most recent types first: they nest the others)
    let derived: Vec<usize> = (0..g.types.len()).filter(|&i| g.types[i].ts || g.types[i].tj).collect();
    let nvals = match phase {
        "strings" => 2 + g.d.below(3),
        _ => 1 + g.d.below(3),
    };
    let mut vals: Vec<(usize, Val)> = vec![];
    for k in 0..nvals {
        let ti = if k == 0 { *derived.last().unwrap() } else { derived[derived.len() - 1 - g.d.below(derived.len())] };
        let v = g.gen_val(&FTy::Named(ti), 0);
        vals.push((ti, v));
    }
    let planted = g.hazard_planted;
    let types = g.types.clone();
    let mut labels = g.labels.clone();
    // a hazard that did not materialise (e.g. no string drawn a hazardous character) is no hazard
    let hz = if hz != Hazard::None && !planted { Hazard::None } else { hz };
    labels.insert(format!("hazard:{}", hz.tag()));

    let mut text = render_types(&types, &mut d);
    // a user trait whose method is called like the derived one, implemented for a derived type:
    // `v.to_string()` / `v.to_json()` still mean the derived (inherent) method
    // (not next to a user type that is itself called `Self`: the trait's `Self` would name it)
    if hz == Hazard::None && !types.iter().any(|t| t.name == "Self" || t.name == "Named18") && d.chance(40) {
        let (ti, _) = &vals[0];
        let t = &types[*ti];
        let m = if t.ts && (!t.tj || d.bool()) { "to_string" } else { "to_json" };
        text.push_str(&format!(
            "trait Named18 {{\n    fn {m}(Self) -> string;\n}}\n\nimpl Named18 for {n} {{\n    fn {m}(self: {n}) -> string {{\n        \"from the trait\"\n    }}\n}}\n\n",
            n = t.name
        ));
        labels.insert("trait-method-named-like-derived".into());
    }
    text.push_str("fn main() {\n");
    let mut prints = vec![];
    let mut nontrivial = false;
    let mut maxdepth = 0;
    for (k, (ti, v)) in vals.iter().enumerate() {
        let t = &types[*ti];
        text.push_str(&format!("    let v{k}: {} = {};\n", t.name, render_val(v, &types, &mut d)));
        let depth = val_depth(v);
        maxdepth = maxdepth.max(depth);
        if depth >= 2 || val_has_escape_string(v) {
            nontrivial = true;
        }
        if t.tj {
            text.push_str(&format!(
                "    let j{k} = v{k}.to_json();\n    string_println(int32_to_string(string_len(j{k})));\n    string_println(j{k});\n"
            ));
            prints.push(json!({"what":"json","of":format!("v{k}"),"expect":expected_json(v, &types)}));
        }
        if t.ts {
            text.push_str(&format!(
                "    let s{k} = v{k}.to_string();\n    string_println(int32_to_string(string_len(s{k})));\n    string_println(s{k});\n"
            ));
            let alts: Vec<Value> = (0..3u8)
                .filter_map(|e| expected_string(v, &types, e))
                .map(Value::String)
                .collect::<Vec<_>>();
            let mut alts2: Vec<Value> = vec![];
            for a in alts {
                if !alts2.contains(&a) {
                    alts2.push(a);
                }
            }
            prints.push(json!({"what":"string","of":format!("v{k}"),"expect": if alts2.is_empty() { Value::Null } else { Value::Array(alts2) }}));
        }
    }
    text.push_str("    ()\n}\n");
    if maxdepth >= 2 {
        labels.insert("nest>=2".into());
    }
    if maxdepth >= 3 {
        labels.insert("nest>=3".into());
    }
    json!({
        "text": text,
        "hazard": hz.tag(),
        "prints": prints,
        "labels": labels.iter().cloned().collect::<Vec<_>>(),
        "nontrivial": nontrivial,
    })
}

fn show_bytes(b: &[u8]) -> String {
    truncate_str(&String::from_utf8_lossy(b).escape_debug().to_string(), 700)
}

impl Check for C18 {
    fn id(&self) -> &'static str {
        "C18"
    }
    fn phases(&self, tier: Tier) -> Vec<PhaseSpec> {
        vec![
            PhaseSpec { name: "values", cases: tier.pick(40_000, 120_000), max_bytes: 400, exhaustive: false },
            PhaseSpec { name: "names", cases: tier.pick(16_000, 40_000), max_bytes: 300, exhaustive: false },
            PhaseSpec { name: "strings", cases: tier.pick(20_000, 50_000), max_bytes: 400, exhaustive: false },
        ]
    }
    fn make(&self, phase: &str, _index: u64, bytes: &[u8], ctx: &mut Ctx) -> Case {
        Case::new(build_case(phase, bytes, ctx))
    }
    fn judge(&self, _phase: &str, case: &Case, ctx: &mut Ctx) -> CaseOut {
        let input = &case.input;
        let text = input["text"].as_str().unwrap_or("");
        let hz = input["hazard"].as_str().unwrap_or("none");
        let key = fnv_str(text);
        let mut labels: Vec<String> = input["labels"]
            .as_array()
            .map(|a| a.iter().filter_map(|x| x.as_str().map(|s| s.to_string())).collect())
            .unwrap_or_default();
        let nontrivial = input["nontrivial"].as_bool().unwrap_or(false);
        let src = |detail: String| format!("{detail}\n--- goml source\n{text}");
        // failures of a hazardous shape carry the hazard (the %q escapes keep the plain signature)
        let hzs = if matches!(hz, "none" | "quote") { String::new() } else { format!("|{hz}") };
        let (go_text, _comp) = match goml::compile_single(ctx, text) {
            CompileRes::Panic(p) => {
                return CaseOut::fail(format!("C18|panic|{}", p.signature()), src(p.message.clone()), key).labelled(labels)
            }
            CompileRes::Err(e) => {
                let msgs = goml::diag_messages(e.diagnostics());
                let stage = goml::error_stage(&e);
                if is_derive_stage(&e) {
                    // "types the derive cannot handle are rejected with a diagnostic"
                    labels.push(format!("rejected:derive-stage:{hz}"));
                    return CaseOut::pass(false, key).labelled(labels);
                }
                if stage == "parser" || stage == "lower" {
                    // nothing the derive produced: the generator wrote something the front end refuses
                    return CaseOut::fail(
                        format!("C18|not-accepted|{stage}|{}", crate::sandbox::cut_message(msgs.first().map(|s| s.as_str()).unwrap_or(""))),
                        src(msgs.join("\n")),
                        key,
                    )
                    .labelled(labels);
                }
                return CaseOut::fail(
                    format!("C18|late-rejection|{stage}|{hz}"),
                    src(format!(
                        "the definitions carry #[derive]; the program is rejected at stage {stage}, by code the derive generated, not by a derive diagnostic:\n{}",
                        msgs.join("\n")
                    )),
                    key,
                )
                .labelled(labels);
            }
            CompileRes::Ok(c, t) => (t, c),
        };
        let prog = match behave::go_check(&go_text) {
            GoCheck::Ok(p) => p,
            GoCheck::Unsupported(u) => return CaseOut::discard(&format!("minigo:{}", u.split(' ').next().unwrap_or(""))),
            GoCheck::Rejected(errs) => {
                return CaseOut::fail(
                    format!("C18|go-rejected|{}|{hz}", errs[0].rule),
                    src(behave::describe_go_errors(&errs, &go_text)),
                    key,
                )
                .labelled(labels)
            }
        };
        let run = minigo::run(&prog, &behave::go_opts());
        match &run.end {
            minigo::End::Exit0 => {}
            minigo::End::Panic(k, m) => {
                return CaseOut::fail(format!("C18|go-panic|{:?}", k), src(format!("the Go program panics: {m}")), key).labelled(labels)
            }
            minigo::End::StepLimit | minigo::End::OutputLimit => return CaseOut::discard("minigo:step-limit"),
            minigo::End::Unsupported(u) => {
                return CaseOut::discard(&format!("minigo-run:{}", u.split(' ').next().unwrap_or("")))
            }
        }
        let prints = input["prints"].as_array().cloned().unwrap_or_default();
        let frames = match read_frames(&run.stdout, prints.len()) {
            Ok(f) => f,
            Err(e) => {
                return CaseOut::fail("C18|output-shape".into(), src(format!("{e}\nstdout: {}", show_bytes(&run.stdout))), key)
                    .labelled(labels)
            }
        };
        let mut judged_json = false;
        let mut judged_string = false;
        for (p, frame) in prints.iter().zip(&frames) {
            let of = p["of"].as_str().unwrap_or("?");
            if p["what"] == "json" {
                let parsed = match json_strict::parse(frame) {
                    Ok(j) => j,
                    Err(e) => {
                        return CaseOut::fail(
                            // the %q escapes are a known finding for the characters behind its gate only:
                            // the same class on a string without them is something else
                            format!("C18|json|{}{}", e.class, if hz == "none" && e.class == "invalid-escape" { "|ungated-string" } else { hzs.as_str() }),
                            src(format!(
                                "{of}.to_json() is not JSON (RFC 8259): {} at byte {}\nprinted: {}",
                                e.msg,
                                e.pos,
                                show_bytes(frame)
                            )),
                            key,
                        )
                        .labelled(labels)
                    }
                };
                if let Err((class, why)) = compare_json(&p["expect"], &parsed, "") {
                    return CaseOut::fail(
                        format!("C18|json|{class}{hzs}"),
                        src(format!("{of}.to_json() does not decode back to the value: {why}\nprinted: {}", show_bytes(frame))),
                        key,
                    )
                    .labelled(labels);
                }
                judged_json = true;
            } else if let Some(alts) = p["expect"].as_array() {
                let ok = alts.iter().any(|a| a.as_str().map(|s| s.as_bytes() == &frame[..]).unwrap_or(false));
                if !ok {
                    return CaseOut::fail(
                        format!("C18|to_string{hzs}"),
                        src(format!(
                            "{of}.to_string() printed {}\nexpected {}",
                            show_bytes(frame),
                            show_bytes(alts[0].as_str().unwrap_or("").as_bytes())
                        )),
                        key,
                    )
                    .labelled(labels);
                }
                judged_string = true;
            } else {
                labels.push("to_string:not-judged".into());
            }
        }
        if judged_json {
            labels.push("json-checked".into());
        }
        if judged_string {
            labels.push("to_string-checked".into());
        }
        labels.push(format!("accepted:{hz}"));
        CaseOut::pass(nontrivial, key).labelled(labels)
    }
    fn setup(&self, _ctx: &mut Ctx) -> Result<Value, String> {
        // the strict parser must be strict: a few fixed points
        for (t, class) in [
            ("\"\\x01\"", "invalid-escape"),
            ("\"\\a\"", "invalid-escape"),
            ("\"\\U000f0000\"", "invalid-escape"),
            ("[1,]", "trailing-comma"),
            ("01", "bad-number"),
            ("\"\u{1}\"", "raw-control"),
            ("NaN", "bad-literal"),
        ] {
            match json_strict::parse(t.as_bytes()) {
                Err(e) if e.class == class => {}
                other => return Err(format!("json_strict self-test: {t:?} gave {:?}, expected {class}", other)),
            }
        }
        for t in ["{\"a\":[1,-2.5e3,\"\\u00e9\\ud83d\\ude00\\/\",true,null]}", "\"\u{7f}\""] {
            if json_strict::parse(t.as_bytes()).is_err() {
                return Err(format!("json_strict self-test: {t:?} must be accepted"));
            }
        }
        behave::calibrate()
    }
    fn rule(&self) -> String {
        "values: 1-4 non-generic struct/enum definitions carrying #[derive(ToString)], #[derive(ToJson)] or both (six attribute spellings), fields from the primitives, earlier derived types (nesting <= 3) and the enum itself (recursion), 0-4 fields, 1-4 variants of arity 0-3, then 1-3 random values per program; names: same with field/variant/type names drawn from the identifiers the generated code uses (self, tag, fields, value, to_json, to_string, helper names, lower-case constructors, names of the program's own types); strings: one type with string fields only and 2-4 values with strings of <= 20 characters. Strings are drawn from ASCII printable (incl. \" \\ /), \\n \\t \\r \\b \\f, Latin-1, NBSP, soft hyphen, ZWSP, U+2028, U+0085, private use, CJK, Hangul, emoji, written as raw UTF-8 or with the escapes the goml lexer accepts (\\uXXXX, surrogate pairs). The program prints v.to_json() / v.to_string() of every value, each framed by its byte length. Oracle: (1) the printed JSON is accepted by an own strict RFC 8259 parser (no \\x, \\a, \\v, \\U escapes, no raw control characters, no trailing commas, no leading zeros, only true/false/null); (2) it decodes back to the value: struct => object with exactly the field names (as a map), enum value => object with \"tag\" = variant name and \"fields\" = array of the payloads (absent or [] for a payload-less variant), strings by exact character sequence, integers by numeric value, floats by exact read-back, bool, unit => null (an empty array/object is tolerated); (3) to_string() is exactly `Name { f: v, g: w }` / `Enum::Variant(v, w)` / `Enum::Variant` with decimal integers, true/false, (), strings unquoted (as in the repository's samples 060); (4) a program the compiler refuses must be refused by a derive diagnostic (CompilationError::Lower carrying a derive diagnostic), never by a typer/compile error or a panic, and the emitted Go must be accepted by the Go-subset checker and run to completion. Hazardous shapes (at most one per program, each behind a gate of a known finding): other primitives, tuple/array/Vec/Ref/underived fields, capturing names, U+FEFF, characters that %q does not render as JSON. Non-trivial = a value contains a string that needs escaping or is non-ASCII, or nests >= 2 levels; distinct by hash of the program text.".into()
    }
    fn assumptions(&self) -> Vec<String> {
        vec![
            "miniGo stands for the Go toolchain (calibrated in setup against the recorded corpus); its %q follows strconv.Quote for the runes it is sure about and makes the case a discard for the others".into(),
            "the documented JSON shape is the one of the property text and of sample 054_tojson_derive: an object per struct, tag/fields per variant; member order, whitespace and the spelling of numbers are not judged".into(),
            "to_string: strings are rendered unquoted (sample 060_attributes); the rendering of a struct without fields is not settled by the samples: `Name {}`, `Name { }` and `Name` are all accepted; floats and composite fields have no documented to_string rendering and are not judged there".into(),
            "unit has no JSON counterpart in the statement: null, [] and {} are accepted".into(),
            "int32 values avoid -2147483648 (the literal cannot be written), integer literals other than int32 carry their suffix".into(),
        ]
    }
    fn required_labels(&self, _tier: Tier) -> Vec<&'static str> {
        vec![
            "struct",
            "enum",
            "recursive",
            "nest>=2",
            "str:escape-needed",
            "str:non-ascii",
            "str:astral",
            "name:coincide",
            "name:lowercase-constructor",
            "derive:both",
            "derive:json",
            "derive:string",
            "json-checked",
            "to_string-checked",
        ]
    }
    fn max_discard_fraction(&self) -> f64 {
        0.1
    }
}
