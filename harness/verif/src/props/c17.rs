//! C17 — all call forms of a method agree.
//!
//! Generator: traits, receiver types (structs, enums, primitives, instances of
//! a generic struct, types of a second package), impls whose bodies are small
//! expressions over the receiver's fields, the arguments and a per-impl
//! constant, inherent impls; `main` prints the result of every applicable call
//! form of every (value, method).  Oracle: own evaluation of the method body.

use crate::behave::{self, GoCheck};
use crate::driver::*;
use crate::goml::{self, CompileRes};
use crate::util::*;
use serde_json::{json, Value};
use std::collections::{BTreeMap, BTreeSet};

pub struct C17;

pub const GATE_DYN_INSTANCE: &str = "dyn:generic-instance";
pub const GATE_DYN_INT_LITERAL: &str = "dyn:int-literal";
pub const GATE_DYN_STRUCT_LITERAL: &str = "dyn:struct-literal";
pub const GATE_DYN_FROM_CALL: &str = "dyn:from-call";
pub const GATE_INHERENT_INSTANCE_UFCS: &str = "inherent:instance-ufcs";

// -------------------------------------------------------------------- model

#[derive(Clone, Copy, PartialEq, Eq, Debug)]
enum PT {
    Int,
    Str,
    Bool,
    I64,
    U8,
}

impl PT {
    fn name(self) -> &'static str {
        match self {
            PT::Int => "int32",
            PT::Str => "string",
            PT::Bool => "bool",
            PT::I64 => "int64",
            PT::U8 => "uint8",
        }
    }
}

#[derive(Clone, Debug, PartialEq)]
enum V {
    I(i32),
    S(String),
    B(bool),
    L(i64),
    U(u8),
}

impl V {
    fn show(&self) -> String {
        match self {
            V::I(i) => i.to_string(),
            V::S(s) => s.clone(),
            V::B(b) => b.to_string(),
            V::L(i) => i.to_string(),
            V::U(i) => i.to_string(),
        }
    }
    fn lit(&self) -> String {
        match self {
            V::I(i) => i.to_string(),
            V::S(s) => format!("\"{s}\""),
            V::B(b) => b.to_string(),
            V::L(i) => format!("{i}i64"),
            V::U(i) => format!("{i}u8"),
        }
    }
}

#[derive(Clone, Debug)]
enum Ex {
    Atom(usize),
    LitI(i32),
    LitS(String),
    LitB(bool),
    Add(Box<Ex>, Box<Ex>),
    Sub(Box<Ex>, Box<Ex>),
    Mul(Box<Ex>, Box<Ex>),
    Cat(Box<Ex>, Box<Ex>),
    Show(Box<Ex>, PT),
    Len(Box<Ex>),
    Lt(Box<Ex>, Box<Ex>),
    EqI(Box<Ex>, Box<Ex>),
    /// atom of type int64/uint8 compared with a constant
    LtK(usize, PT, i64),
    Not(Box<Ex>),
    And(Box<Ex>, Box<Ex>),
    Or(Box<Ex>, Box<Ex>),
    If(Box<Ex>, Box<Ex>, Box<Ex>),
}

fn eval(e: &Ex, env: &[V]) -> V {
    let int = |x: &Ex| match eval(x, env) {
        V::I(i) => i,
        _ => 0,
    };
    let boolean = |x: &Ex| matches!(eval(x, env), V::B(true));
    match e {
        Ex::Atom(i) => env[*i].clone(),
        Ex::LitI(i) => V::I(*i),
        Ex::LitS(s) => V::S(s.clone()),
        Ex::LitB(b) => V::B(*b),
        Ex::Add(a, b) => V::I(int(a).wrapping_add(int(b))),
        Ex::Sub(a, b) => V::I(int(a).wrapping_sub(int(b))),
        Ex::Mul(a, b) => V::I(int(a).wrapping_mul(int(b))),
        Ex::Cat(a, b) => V::S(format!("{}{}", eval(a, env).show(), eval(b, env).show())),
        Ex::Show(a, _) => V::S(eval(a, env).show()),
        Ex::Len(a) => V::I(eval(a, env).show().len() as i32),
        Ex::Lt(a, b) => V::B(int(a) < int(b)),
        Ex::EqI(a, b) => V::B(int(a) == int(b)),
        Ex::LtK(i, _, k) => V::B(match &env[*i] {
            V::L(v) => v < k,
            V::U(v) => (*v as i64) < *k,
            _ => false,
        }),
        Ex::Not(a) => V::B(!boolean(a)),
        Ex::And(a, b) => V::B(boolean(a) && boolean(b)),
        Ex::Or(a, b) => V::B(boolean(a) || boolean(b)),
        Ex::If(c, a, b) => {
            if boolean(c) {
                eval(a, env)
            } else {
                eval(b, env)
            }
        }
    }
}

fn render_ex(e: &Ex, names: &[String]) -> String {
    let r = |x: &Ex| render_ex(x, names);
    match e {
        Ex::Atom(i) => names[*i].clone(),
        Ex::LitI(i) => i.to_string(),
        Ex::LitS(s) => format!("\"{s}\""),
        Ex::LitB(b) => b.to_string(),
        Ex::Add(a, b) => format!("({} + {})", r(a), r(b)),
        Ex::Sub(a, b) => format!("({} - {})", r(a), r(b)),
        Ex::Mul(a, b) => format!("({} * {})", r(a), r(b)),
        Ex::Cat(a, b) => format!("({} + {})", r(a), r(b)),
        Ex::Show(a, t) => match t {
            PT::Str => r(a),
            t => format!("{}_to_string({})", t.name(), r(a)),
        },
        Ex::Len(a) => format!("string_len({})", r(a)),
        Ex::Lt(a, b) => format!("({} < {})", r(a), r(b)),
        Ex::EqI(a, b) => format!("({} == {})", r(a), r(b)),
        Ex::LtK(i, t, k) => format!("({} < {}{})", names[*i], k, if *t == PT::I64 { "i64" } else { "u8" }),
        Ex::Not(a) => format!("(!{})", r(a)),
        Ex::And(a, b) => format!("({} && {})", r(a), r(b)),
        Ex::Or(a, b) => format!("({} || {})", r(a), r(b)),
        Ex::If(c, a, b) => format!("(if {} {{ {} }} else {{ {} }})", r(c), r(a), r(b)),
    }
}

#[derive(Clone, Debug)]
enum RK {
    Struct(Vec<(String, PT)>),
    Enum(Vec<(String, Vec<PT>)>),
    Prim(PT),
    BoxOf(PT),
}

#[derive(Clone, Debug)]
struct Recv {
    name: String,
    kind: RK,
    lib: bool,
}

#[derive(Clone, Debug)]
struct Sig {
    name: String,
    params: Vec<PT>,
    ret: PT,
}

#[derive(Clone, Debug)]
struct Trait {
    name: String,
    lib: bool,
    methods: Vec<Sig>,
}

#[derive(Clone, Debug)]
enum Body {
    One(Ex),
    Arms(Vec<Ex>),
}

#[derive(Clone, Debug)]
struct Impl {
    tr: usize,
    rc: usize,
    bodies: Vec<Body>,
}

#[derive(Clone, Debug)]
struct Inh {
    rc: usize,
    methods: Vec<(Sig, Body)>,
}

#[derive(Clone, Debug)]
enum RV {
    Struct(Vec<V>),
    Enum(usize, Vec<V>),
    Prim(V),
    BoxOf(V),
}

#[derive(Clone, Debug, Default)]
struct Model {
    has_lib: bool,
    traits: Vec<Trait>,
    recvs: Vec<Recv>,
    impls: Vec<Impl>,
    inhs: Vec<Inh>,
    vals: Vec<(usize, RV)>,
}

impl Model {
    fn impl_of(&self, tr: usize, rc: usize) -> Option<&Impl> {
        self.impls.iter().find(|i| i.tr == tr && i.rc == rc)
    }
    fn impl_in_lib(&self, im: &Impl) -> bool {
        let t = &self.traits[im.tr];
        let r = &self.recvs[im.rc];
        t.lib && (r.lib || matches!(r.kind, RK::Prim(_)))
    }
    fn ty_text(&self, rc: usize, in_lib: bool) -> String {
        let r = &self.recvs[rc];
        match &r.kind {
            RK::Prim(p) => p.name().to_string(),
            RK::BoxOf(p) => format!("Box[{}]", p.name()),
            _ => {
                if r.lib && !in_lib {
                    format!("Lib::{}", r.name)
                } else {
                    r.name.clone()
                }
            }
        }
    }
    fn trait_text(&self, tr: usize, in_lib: bool) -> String {
        let t = &self.traits[tr];
        if t.lib && !in_lib {
            format!("Lib::{}", t.name)
        } else {
            t.name.clone()
        }
    }
    /// (names, types) of the atoms a method body of receiver `rc` sees: self atoms
    /// (for enum arm `arm`), then the arguments
    fn self_atoms(&self, rc: usize, arm: usize) -> Vec<(String, PT)> {
        match &self.recvs[rc].kind {
            RK::Struct(fs) => fs.iter().map(|(n, t)| (format!("self.{n}"), *t)).collect(),
            RK::Enum(vs) => vs[arm].1.iter().enumerate().map(|(i, t)| (format!("p{i}"), *t)).collect(),
            RK::Prim(p) => vec![("self".to_string(), *p)],
            RK::BoxOf(p) => vec![("self.v".to_string(), *p)],
        }
    }
    fn self_values(&self, v: &RV) -> (usize, Vec<V>) {
        match v {
            RV::Struct(fs) => (0, fs.clone()),
            RV::Enum(k, ps) => (*k, ps.clone()),
            RV::Prim(p) => (0, vec![p.clone()]),
            RV::BoxOf(p) => (0, vec![p.clone()]),
        }
    }
    fn call(&self, body: &Body, v: &RV, args: &[V]) -> V {
        let (arm, mut env) = self.self_values(v);
        env.extend(args.iter().cloned());
        match body {
            Body::One(e) => eval(e, &env),
            Body::Arms(es) => eval(&es[arm], &env),
        }
    }
}

// ---------------------------------------------------------------- generator

// the second half are names the Go back end has to escape (keywords, predeclared identifiers, init)
const METHOD_NAMES: &[&str] =
    &["ma", "mb", "mc", "same", "get", "show", "range", "len", "new", "copy", "default", "select", "init", "map", "func", "var"];
const STRS: &[&str] = &["z", "ab", "", "q7", "hello"];

struct Gen<'a, 'b> {
    d: &'a mut Dec<'b>,
    labels: BTreeSet<String>,
}

impl<'a, 'b> Gen<'a, 'b> {
    fn label(&mut self, l: &str) {
        self.labels.insert(l.to_string());
    }
    fn pt3(&mut self) -> PT {
        [PT::Int, PT::Str, PT::Bool][self.d.weighted(&[3, 3, 1])]
    }
    fn value(&mut self, t: PT) -> V {
        match t {
            PT::Int => V::I(self.d.below(60) as i32 - 10),
            PT::Str => V::S(self.d.pick(STRS).to_string()),
            PT::Bool => V::B(self.d.bool()),
            PT::I64 => V::L(self.d.below(12) as i64),
            PT::U8 => V::U(self.d.below(12) as u8 * 20),
        }
    }
    /// an expression of type `t` over atoms `env` (self atoms first)
    fn ex(&mut self, t: PT, env: &[(String, PT)], depth: u32) -> Ex {
        let atoms: Vec<usize> = (0..env.len()).filter(|&i| env[i].1 == t).collect();
        let wa = if atoms.is_empty() { 0 } else { 6 };
        let deep = if depth > 0 { 1 } else { 0 };
        match t {
            PT::Int => match self.d.weighted(&[wa, 2, 4 * deep, 2 * deep, deep]) {
                0 => Ex::Atom(atoms[self.d.below(atoms.len())]),
                1 => Ex::LitI(self.d.below(100) as i32),
                2 => {
                    let a = Box::new(self.ex(PT::Int, env, depth - 1));
                    let b = Box::new(self.ex(PT::Int, env, depth - 1));
                    match self.d.below(3) {
                        0 => Ex::Add(a, b),
                        1 => Ex::Sub(a, b),
                        _ => Ex::Mul(a, b),
                    }
                }
                3 => Ex::Len(Box::new(self.ex(PT::Str, env, depth - 1))),
                _ => Ex::If(
                    Box::new(self.ex(PT::Bool, env, depth - 1)),
                    Box::new(self.ex(PT::Int, env, depth - 1)),
                    Box::new(self.ex(PT::Int, env, depth - 1)),
                ),
            },
            PT::Str => match self.d.weighted(&[wa, 2, 3 * deep, 3 * deep, deep]) {
                0 => Ex::Atom(atoms[self.d.below(atoms.len())]),
                1 => Ex::LitS(self.d.pick(STRS).to_string()),
                2 => Ex::Cat(Box::new(self.ex(PT::Str, env, depth - 1)), Box::new(self.ex(PT::Str, env, depth - 1))),
                3 => {
                    // render some other atom or an int expression
                    let others: Vec<usize> = (0..env.len()).filter(|&i| env[i].1 != PT::Str).collect();
                    if !others.is_empty() && self.d.bool() {
                        let i = others[self.d.below(others.len())];
                        Ex::Show(Box::new(Ex::Atom(i)), env[i].1)
                    } else {
                        Ex::Show(Box::new(self.ex(PT::Int, env, depth - 1)), PT::Int)
                    }
                }
                _ => Ex::If(
                    Box::new(self.ex(PT::Bool, env, depth - 1)),
                    Box::new(self.ex(PT::Str, env, depth - 1)),
                    Box::new(self.ex(PT::Str, env, depth - 1)),
                ),
            },
            _ => {
                let wide: Vec<usize> = (0..env.len()).filter(|&i| matches!(env[i].1, PT::I64 | PT::U8)).collect();
                let ww = if wide.is_empty() { 0 } else { 5 };
                match self.d.weighted(&[wa, 1, 4 * deep, ww, 2 * deep, 2 * deep]) {
                    0 => Ex::Atom(atoms[self.d.below(atoms.len())]),
                    1 => Ex::LitB(self.d.bool()),
                    2 => {
                        let a = Box::new(self.ex(PT::Int, env, depth - 1));
                        let b = Box::new(self.ex(PT::Int, env, depth - 1));
                        if self.d.bool() {
                            Ex::Lt(a, b)
                        } else {
                            Ex::EqI(a, b)
                        }
                    }
                    3 => {
                        let i = wide[self.d.below(wide.len())];
                        Ex::LtK(i, env[i].1, self.d.below(200) as i64)
                    }
                    4 => Ex::Not(Box::new(self.ex(PT::Bool, env, depth - 1))),
                    _ => {
                        let a = Box::new(self.ex(PT::Bool, env, depth - 1));
                        let b = Box::new(self.ex(PT::Bool, env, depth - 1));
                        if self.d.bool() {
                            Ex::And(a, b)
                        } else {
                            Ex::Or(a, b)
                        }
                    }
                }
            }
        }
    }
    /// a body that depends on self, the arguments and the constant `k`
    fn body_ex(&mut self, sig: &Sig, selfs: &[(String, PT)], k: i32) -> Ex {
        let mut env: Vec<(String, PT)> = selfs.to_vec();
        for (i, p) in sig.params.iter().enumerate() {
            env.push((format!("a{i}"), *p));
        }
        let e = self.ex(sig.ret, &env, 2);
        // a term of the result type computed from one self atom, so that the result depends
        // on the receiver's value
        let st: Option<Ex> = if selfs.is_empty() {
            None
        } else {
            let i = self.d.below(selfs.len());
            let a = Box::new(Ex::Atom(i));
            Some(match (sig.ret, selfs[i].1) {
                (PT::Int, PT::Int) => *a,
                (PT::Int, PT::Str) => Ex::Len(a),
                (PT::Int, PT::Bool) => Ex::If(a, Box::new(Ex::LitI(1)), Box::new(Ex::LitI(2))),
                (PT::Int, t) => Ex::If(Box::new(Ex::LtK(i, t, 5)), Box::new(Ex::LitI(3)), Box::new(Ex::LitI(4))),
                (PT::Str, t) => Ex::Show(a, t),
                (_, PT::Bool) => *a,
                (_, PT::Int) => Ex::Lt(a, Box::new(Ex::LitI(7))),
                (_, PT::Str) => Ex::Lt(Box::new(Ex::Len(a)), Box::new(Ex::LitI(2))),
                (_, t) => Ex::LtK(i, t, 60),
            })
        };
        match sig.ret {
            PT::Int => {
                let e = match st {
                    Some(t) => Ex::Add(Box::new(e), Box::new(t)),
                    None => e,
                };
                Ex::Add(Box::new(e), Box::new(Ex::LitI(k)))
            }
            PT::Str => {
                let e = match st {
                    Some(t) => Ex::Cat(Box::new(t), Box::new(e)),
                    None => e,
                };
                Ex::Cat(Box::new(Ex::LitS(format!("k{k}_"))), Box::new(e))
            }
            _ => match st {
                // bool results cannot carry the constant; mix the receiver in
                Some(t) => {
                    if k % 20 == 0 {
                        Ex::Or(Box::new(t), Box::new(e))
                    } else {
                        Ex::And(Box::new(t), Box::new(e))
                    }
                }
                None => e,
            },
        }
    }
    fn body(&mut self, m: &Model, rc: usize, sig: &Sig, k: i32) -> Body {
        match &m.recvs[rc].kind {
            RK::Enum(vs) => Body::Arms((0..vs.len()).map(|arm| self.body_ex(sig, &m.self_atoms(rc, arm), k + arm as i32)).collect()),
            _ => Body::One(self.body_ex(sig, &m.self_atoms(rc, 0), k)),
        }
    }
    fn sig(&mut self, name: &str) -> Sig {
        let np = self.d.below(3);
        Sig { name: name.to_string(), params: (0..np).map(|_| self.pt3()).collect(), ret: self.pt3() }
    }
    fn recv_value(&mut self, r: &Recv) -> RV {
        match &r.kind {
            RK::Struct(fs) => RV::Struct(fs.iter().map(|(_, t)| self.value(*t)).collect()),
            RK::Enum(vs) => {
                let k = self.d.below(vs.len());
                RV::Enum(k, vs[k].1.iter().map(|t| self.value(*t)).collect())
            }
            RK::Prim(p) => RV::Prim(self.value(*p)),
            RK::BoxOf(p) => RV::BoxOf(self.value(*p)),
        }
    }
}

#[derive(Clone, Copy, PartialEq, Eq, Debug)]
enum Mode {
    Forms,
    NegDyn,
    NegAmbiguous,
    Clash,
}

fn gen_model(g: &mut Gen, mode: Mode) -> Model {
    let mut m = Model::default();
    m.has_lib = mode != Mode::Clash && g.d.chance(70);
    if m.has_lib {
        g.label("lib");
    }
    // receivers
    let nr = match mode {
        Mode::Clash => 1,
        Mode::NegDyn => 2 + g.d.below(2),
        _ => 1 + g.d.below(4),
    };
    let mut prims_used: Vec<PT> = vec![];
    let mut boxes_used: Vec<PT> = vec![];
    for i in 0..nr {
        let lib_ok = m.has_lib;
        let kind = if mode == Mode::Clash { g.d.below(2) } else { g.d.weighted(&[4, 4, 3, 3]) };
        let r = match kind {
            0 => {
                let lib = lib_ok && g.d.chance(100);
                let nf = 1 + g.d.below(3);
                g.label("recv:struct");
                Recv {
                    name: format!("{}S{i}", if lib { "L" } else { "" }),
                    kind: RK::Struct((0..nf).map(|k| (format!("f{k}"), g.pt3())).collect()),
                    lib,
                }
            }
            1 => {
                let lib = lib_ok && g.d.chance(100);
                let nv = 1 + g.d.below(3);
                g.label("recv:enum");
                let pre = if lib { "L" } else { "" };
                Recv {
                    name: format!("{pre}E{i}"),
                    kind: RK::Enum(
                        (0..nv)
                            .map(|k| {
                                let np = g.d.below(3);
                                (format!("{pre}E{i}V{k}"), (0..np).map(|_| g.pt3()).collect())
                            })
                            .collect(),
                    ),
                    lib,
                }
            }
            2 => {
                let all = [PT::Int, PT::Str, PT::Bool, PT::I64, PT::U8];
                let free: Vec<PT> = all.iter().copied().filter(|p| !prims_used.contains(p)).collect();
                let p = free[g.d.below(free.len())];
                prims_used.push(p);
                g.label(&format!("recv:prim:{}", p.name()));
                Recv { name: p.name().to_string(), kind: RK::Prim(p), lib: false }
            }
            _ => {
                let all = [PT::Int, PT::Str, PT::Bool];
                let free: Vec<PT> = all.iter().copied().filter(|p| !boxes_used.contains(p)).collect();
                if free.is_empty() {
                    g.label("recv:struct");
                    Recv { name: format!("S{i}"), kind: RK::Struct(vec![("f0".into(), PT::Int)]), lib: false }
                } else {
                    let p = free[g.d.below(free.len())];
                    boxes_used.push(p);
                    g.label("recv:generic-instance");
                    Recv { name: "Box".into(), kind: RK::BoxOf(p), lib: false }
                }
            }
        };
        m.recvs.push(r);
    }
    if boxes_used.len() >= 2 {
        g.label("two-instances-of-one-generic");
    }
    // traits
    let nt = match mode {
        Mode::Clash => 1,
        Mode::NegAmbiguous => 2 + g.d.below(2),
        _ => 1 + g.d.below(3),
    };
    for t in 0..nt {
        let lib = m.has_lib && g.d.chance(90);
        let nm = 1 + g.d.below(3);
        let mut methods: Vec<Sig> = vec![];
        for _ in 0..nm {
            let mut name = g.d.pick(METHOD_NAMES).to_string();
            if methods.iter().any(|s| s.name == name) {
                name = format!("{}{}", name, methods.len());
            }
            methods.push(g.sig(&name));
        }
        if mode == Mode::NegAmbiguous && t == 1 {
            // the second trait repeats a method name of the first
            let name = m.traits[0].methods[0].name.clone();
            if !methods.iter().any(|s| s.name == name) {
                methods[0].name = name;
            }
        }
        m.traits.push(Trait { name: format!("{}Tr{}", if lib { "L" } else { "" }, (b'A' + t as u8) as char), lib, methods });
    }
    // shared method names between traits
    {
        let mut seen: BTreeMap<String, usize> = BTreeMap::new();
        for t in &m.traits {
            for s in &t.methods {
                *seen.entry(s.name.clone()).or_insert(0) += 1;
            }
        }
        if seen.values().any(|c| *c > 1) {
            g.label("same-method-name-in-two-traits");
        }
    }
    // impls
    for tr in 0..m.traits.len() {
        for rc in 0..m.recvs.len() {
            let force = match mode {
                Mode::Clash => true,
                Mode::NegAmbiguous => rc == 0 && tr < 2,
                Mode::NegDyn => tr == 0 && rc == 0,
                Mode::Forms => rc == 0 && tr == 0,
            };
            // the negative phase needs a trait that some but not all types implement
            let forbid = mode == Mode::NegDyn && tr == 0 && rc == 1;
            if forbid || !(force || g.d.chance(170)) {
                continue;
            }
            // a trait of Main cannot be implemented in Lib; everything else has a home
            let k = 1000 * (m.impls.len() as i32 + 1);
            let sigs = m.traits[tr].methods.clone();
            let bodies = sigs.iter().enumerate().map(|(j, s)| g.body(&m, rc, s, k + 10 * j as i32)).collect();
            m.impls.push(Impl { tr, rc, bodies });
        }
    }
    // inherent impls (never on primitives: not allowed)
    for rc in 0..m.recvs.len() {
        if matches!(m.recvs[rc].kind, RK::Prim(_)) {
            continue;
        }
        if !(mode == Mode::Clash || g.d.chance(150)) {
            continue;
        }
        let trait_names: Vec<String> = m
            .impls
            .iter()
            .filter(|i| i.rc == rc)
            .flat_map(|i| m.traits[i.tr].methods.iter().map(|s| s.name.clone()))
            .collect();
        let nm = 1 + g.d.below(2);
        let mut methods: Vec<(Sig, Body)> = vec![];
        for j in 0..nm {
            let mut name = if g.d.bool() { g.d.pick(METHOD_NAMES).to_string() } else { format!("im{j}") };
            if mode == Mode::Clash && j == 0 {
                name = m.traits[0].methods[0].name.clone();
            } else if trait_names.contains(&name) || methods.iter().any(|(s, _)| s.name == name) {
                // in the forms phase an inherent method never shares its name with a trait
                // method of the same type (that is the clash phase)
                name = format!("im{j}x");
            } else if m.traits.iter().any(|t| t.methods.iter().any(|s| s.name == name)) {
                g.label("inherent-name=trait-method-of-other-type");
            }
            let sig = if mode == Mode::Clash && j == 0 && g.d.bool() {
                let mut s = m.traits[0].methods[0].clone();
                s.name = name.clone();
                g.label("clash:same-signature");
                s
            } else {
                g.sig(&name)
            };
            let body = g.body(&m, rc, &sig, 500_000 + 1000 * rc as i32 + 10 * j as i32);
            methods.push((sig, body));
        }
        m.inhs.push(Inh { rc, methods });
    }
    // values: one or two per receiver
    for rc in 0..m.recvs.len() {
        let n = if matches!(m.recvs[rc].kind, RK::Enum(_)) { 1 + g.d.below(2) } else { 1 };
        for _ in 0..n {
            let r = m.recvs[rc].clone();
            let v = g.recv_value(&r);
            m.vals.push((rc, v));
        }
    }
    m
}

// ---------------------------------------------------------------- rendering

struct Prog {
    lib: String,
    decls: String,
    helpers: BTreeMap<String, String>,
    lets: Vec<String>,
    prints: Vec<String>,
    groups: Vec<Value>,
}

fn render_value(m: &Model, rc: usize, v: &RV) -> String {
    let r = &m.recvs[rc];
    let ty = m.ty_text(rc, false);
    match (&r.kind, v) {
        (RK::Struct(fs), RV::Struct(vs)) => {
            let parts: Vec<String> = fs.iter().zip(vs).map(|((n, _), v)| format!("{n}: {}", v.lit())).collect();
            format!("{ty} {{ {} }}", parts.join(", "))
        }
        (RK::Enum(vars), RV::Enum(k, ps)) => {
            if ps.is_empty() {
                format!("{ty}::{}", vars[*k].0)
            } else {
                format!("{ty}::{}({})", vars[*k].0, ps.iter().map(|p| p.lit()).collect::<Vec<_>>().join(", "))
            }
        }
        (RK::Prim(_), RV::Prim(v)) => v.lit(),
        (RK::BoxOf(_), RV::BoxOf(v)) => format!("Box {{ v: {} }}", v.lit()),
        _ => "?".into(),
    }
}

fn render_method(m: &Model, rc: usize, sig: &Sig, body: &Body, in_lib: bool) -> String {
    let ty = m.ty_text(rc, in_lib);
    let mut params = format!("self: {ty}");
    for (i, p) in sig.params.iter().enumerate() {
        params.push_str(&format!(", a{i}: {}", p.name()));
    }
    let names = |arm: usize| -> Vec<String> {
        let mut n: Vec<String> = m.self_atoms(rc, arm).into_iter().map(|(n, _)| n).collect();
        for i in 0..sig.params.len() {
            n.push(format!("a{i}"));
        }
        n
    };
    let text = match (body, &m.recvs[rc].kind) {
        (Body::Arms(es), RK::Enum(vs)) => {
            let mut s = String::from("match self {\n");
            for (arm, e) in es.iter().enumerate() {
                let (vn, ps) = &vs[arm];
                let pat = if ps.is_empty() {
                    format!("{ty}::{vn}")
                } else {
                    format!("{ty}::{vn}({})", (0..ps.len()).map(|i| format!("p{i}")).collect::<Vec<_>>().join(", "))
                };
                s.push_str(&format!("            {pat} => {},\n", render_ex(e, &names(arm))));
            }
            s.push_str("        }");
            s
        }
        (Body::One(e), _) => render_ex(e, &names(0)),
        _ => "?".into(),
    };
    format!("    fn {}({params}) -> {} {{\n        {text}\n    }}\n", sig.name, sig.ret.name())
}

fn render_decls(m: &Model) -> (String, String) {
    let mut lib = String::from("package Lib\n\n");
    let mut main = String::new();
    if m.has_lib {
        main.push_str("package Main\nimport Lib\n\n");
    }
    if m.recvs.iter().any(|r| matches!(r.kind, RK::BoxOf(_))) {
        main.push_str("struct Box[T] { v: T }\n\n");
    }
    for r in &m.recvs {
        let out = if r.lib { &mut lib } else { &mut main };
        match &r.kind {
            RK::Struct(fs) => {
                out.push_str(&format!(
                    "struct {} {{ {} }}\n\n",
                    r.name,
                    fs.iter().map(|(n, t)| format!("{n}: {}", t.name())).collect::<Vec<_>>().join(", ")
                ));
            }
            RK::Enum(vs) => {
                out.push_str(&format!("enum {} {{\n", r.name));
                for (n, ps) in vs {
                    if ps.is_empty() {
                        out.push_str(&format!("    {n},\n"));
                    } else {
                        out.push_str(&format!("    {n}({}),\n", ps.iter().map(|p| p.name()).collect::<Vec<_>>().join(", ")));
                    }
                }
                out.push_str("}\n\n");
            }
            _ => {}
        }
    }
    for t in &m.traits {
        let out = if t.lib { &mut lib } else { &mut main };
        out.push_str(&format!("trait {} {{\n", t.name));
        for s in &t.methods {
            let mut ps = String::from("Self");
            for p in &s.params {
                ps.push_str(&format!(", {}", p.name()));
            }
            out.push_str(&format!("    fn {}({ps}) -> {};\n", s.name, s.ret.name()));
        }
        out.push_str("}\n\n");
    }
    for im in &m.impls {
        let in_lib = m.impl_in_lib(im);
        let head = format!("impl {} for {} {{\n", m.trait_text(im.tr, in_lib), m.ty_text(im.rc, in_lib));
        let mut s = head;
        for (sig, body) in m.traits[im.tr].methods.iter().zip(&im.bodies) {
            s.push_str(&render_method(m, im.rc, sig, body, in_lib));
        }
        s.push_str("}\n\n");
        if in_lib {
            lib.push_str(&s);
        } else {
            main.push_str(&s);
        }
    }
    for ih in &m.inhs {
        let in_lib = m.recvs[ih.rc].lib;
        let mut s = format!("impl {} {{\n", m.ty_text(ih.rc, in_lib));
        for (sig, body) in &ih.methods {
            s.push_str(&render_method(m, ih.rc, sig, body, in_lib));
        }
        s.push_str("}\n\n");
        if in_lib {
            lib.push_str(&s);
        } else {
            main.push_str(&s);
        }
    }
    (lib, main)
}

fn show_call(ret: PT, call: &str) -> String {
    match ret {
        PT::Str => call.to_string(),
        t => format!("{}_to_string({call})", t.name()),
    }
}

fn params_decl(sig: &Sig) -> String {
    sig.params.iter().enumerate().map(|(i, p)| format!(", a{i}: {}", p.name())).collect()
}

fn args_pass(sig: &Sig) -> String {
    (0..sig.params.len()).map(|i| format!(", a{i}")).collect()
}

/// all the call forms of the program; `neg` adds the offending lines of a negative case
fn render_program(m: &Model, g: &mut Gen, hz: &str, mode: Mode) -> (Prog, Option<(String, Vec<String>, Vec<String>)>, bool) {
    let mut planted = false;
    let (lib, decls) = render_decls(m);
    let mut p = Prog { lib, decls, helpers: BTreeMap::new(), lets: vec![], prints: vec![], groups: vec![] };
    for (vi, (rc, v)) in m.vals.iter().enumerate() {
        p.lets.push(format!("    let x{vi}: {} = {};", m.ty_text(*rc, false), render_value(m, *rc, v)));
    }
    let mut dyn_lets: BTreeSet<(usize, usize)> = BTreeSet::new();
    for (vi, (rc, v)) in m.vals.iter().enumerate() {
        let rc = *rc;
        let is_box = matches!(m.recvs[rc].kind, RK::BoxOf(_));
        let is_int_prim = matches!(m.recvs[rc].kind, RK::Prim(PT::Int) | RK::Prim(PT::I64) | RK::Prim(PT::U8));
        let is_prim = matches!(m.recvs[rc].kind, RK::Prim(_));
        // trait methods
        for im in m.impls.iter().filter(|i| i.rc == rc) {
            let tr = im.tr;
            let tname = m.trait_text(tr, false);
            let tid = &m.traits[tr].name;
            for (mi, sig) in m.traits[tr].methods.iter().enumerate() {
                let args: Vec<V> = sig.params.iter().map(|t| g.value(*t)).collect();
                let expect = m.call(&im.bodies[mi], v, &args).show();
                let al: String = args.iter().map(|a| format!(", {}", a.lit())).collect();
                let gid = format!("v{vi}.{tid}.{}", sig.name);
                let mn = &sig.name;
                let ret = sig.ret.name();
                let pd = params_decl(sig);
                let ap = args_pass(sig);
                let mut forms: Vec<String> = vec![];
                let mut emit = |p: &mut Prog, form: &str, call: String| {
                    p.prints.push(format!("    string_println(\"{gid}.{form}=\" + {});", show_call(sig.ret, &call)));
                    forms.push(form.to_string());
                };
                // 1. UFCS on the concrete receiver
                emit(&mut p, "u", format!("{tname}::{mn}(x{vi}{al})"));
                // 1b. the same call inside a closure that captures the receiver
                if g.d.chance(70) {
                    let cv = format!("cu{vi}_{tid}_{mn}");
                    p.lets.push(format!("    let {cv} = || {tname}::{mn}(x{vi}{al});"));
                    emit(&mut p, "cu", format!("{cv}()"));
                }
                // 2. bounded generics
                let key = format!("{tid}_{mn}");
                if g.d.chance(200) {
                    p.helpers.insert(format!("gm_{key}"), format!("fn gm_{key}[U: {tname}](u: U{pd}) -> {ret} {{ u.{mn}({}) }}", ap.trim_start_matches(", ")));
                    emit(&mut p, "gm", format!("gm_{key}(x{vi}{al})"));
                    if g.d.chance(90) {
                        p.helpers.insert(format!("gg_{key}"), format!("fn gg_{key}[U: {tname}](u: U{pd}) -> {ret} {{ gm_{key}(u{ap}) }}"));
                        emit(&mut p, "gg", format!("gg_{key}(x{vi}{al})"));
                    }
                }
                if g.d.chance(150) {
                    p.helpers.insert(format!("gu_{key}"), format!("fn gu_{key}[U: {tname}](u: U{pd}) -> {ret} {{ {tname}::{mn}(u{ap}) }}"));
                    emit(&mut p, "gu", format!("gu_{key}(x{vi}{al})"));
                }
                if g.d.chance(90) {
                    // two bounded parameters: the other one is any value whose type implements the trait
                    let others: Vec<usize> = (0..m.vals.len()).filter(|&o| m.impl_of(tr, m.vals[o].0).is_some()).collect();
                    let o = others[g.d.below(others.len())];
                    p.helpers.insert(
                        format!("pr_{key}"),
                        format!("fn pr_{key}[U: {tname}, W: {tname}](u: U, w: W{pd}) -> {ret} {{ w.{mn}({}) }}", ap.trim_start_matches(", ")),
                    );
                    emit(&mut p, "pr", format!("pr_{key}(x{o}, x{vi}{al})"));
                }
                // 3. two bounds
                for im2 in m.impls.iter().filter(|i| i.rc == rc && i.tr != tr) {
                    if !g.d.chance(130) {
                        continue;
                    }
                    let t2 = &m.traits[im2.tr];
                    let t2name = m.trait_text(im2.tr, false);
                    let clash = t2.methods.iter().any(|s| &s.name == mn);
                    let hk = format!("h_{tid}_{}_{mn}", t2.name);
                    let body = if clash { format!("{tname}::{mn}(u{ap})") } else { format!("u.{mn}({})", ap.trim_start_matches(", ")) };
                    p.helpers.insert(hk.clone(), format!("fn {hk}[U: {tname} + {t2name}](u: U{pd}) -> {ret} {{ {body} }}"));
                    emit(&mut p, if clash { "h-ufcs" } else { "h" }, format!("{hk}(x{vi}{al})"));
                }
                // 4. dyn
                let dyn_ok = !is_box || hz == "dyn-instance";
                if dyn_ok {
                    let dk = format!("d_{key}");
                    let dfn = format!("fn {dk}(v: dyn {tname}{pd}) -> {ret} {{ {tname}::{mn}(v{ap}) }}");
                    if g.d.chance(200) {
                        p.helpers.insert(dk.clone(), dfn.clone());
                        emit(&mut p, "dp", format!("{dk}(x{vi}{al})"));
                        planted |= is_box;
                    }
                    if g.d.chance(150) {
                        if dyn_lets.insert((vi, tr)) {
                            p.lets.push(format!("    let dx{vi}_{tid}: dyn {tname} = x{vi};"));
                        }
                        emit(&mut p, "dl", format!("{tname}::{mn}(dx{vi}_{tid}{al})"));
                        planted |= is_box;
                        // a closure whose only use of the captured trait object is as the receiver
                        if g.d.chance(110) {
                            let cv = format!("cd{vi}_{tid}_{mn}");
                            p.lets.push(format!("    let {cv} = || {tname}::{mn}(dx{vi}_{tid}{al});"));
                            emit(&mut p, "cd", format!("{cv}()"));
                        }
                        if g.d.chance(128) {
                            p.helpers.insert(dk.clone(), dfn.clone());
                            emit(&mut p, "dd", format!("{dk}(dx{vi}_{tid}{al})"));
                        }
                    }
                    if matches!(m.recvs[rc].kind, RK::Struct(_) | RK::Enum(_)) && hz == "dyn-struct-lit" && g.d.chance(160) {
                        // a struct literal / constructor application itself where a dyn is expected
                        planted = true;
                        p.helpers.insert(dk.clone(), dfn.clone());
                        emit(&mut p, "dp-lit", format!("{dk}({}{al})", render_value(m, rc, v)));
                    }
                    if is_prim && g.d.chance(110) && (!is_int_prim || hz == "dyn-int-lit") {
                        planted |= is_int_prim;
                        // the literal itself where a dyn is expected
                        p.helpers.insert(dk.clone(), dfn.clone());
                        emit(&mut p, "dp-lit", format!("{dk}({}{al})", render_value(m, rc, v)));
                    }
                    if hz == "dyn-from-call" && g.d.chance(128) {
                        planted = true;
                        let mk = format!("mk_{tid}_r{rc}");
                        p.helpers.insert(mk.clone(), format!("fn {mk}(x: {}) -> dyn {tname} {{ x }}", m.ty_text(rc, false)));
                        if g.d.bool() {
                            emit(&mut p, "ret", format!("{tname}::{mn}({mk}(x{vi}){al})"));
                        } else {
                            p.helpers.insert(dk.clone(), dfn.clone());
                            emit(&mut p, "ret-dp", format!("{dk}({mk}(x{vi}){al})"));
                        }
                    }
                }
                if is_prim && g.d.chance(80) {
                    emit(&mut p, "u-lit", format!("{tname}::{mn}({}{al})", render_value(m, rc, v)));
                }
                for f in &forms {
                    g.label(&format!("form:{f}"));
                }
                p.groups.push(json!({"gid": gid, "expect": expect, "forms": forms, "kind": "trait"}));
            }
        }
        // inherent methods
        for ih in m.inhs.iter().filter(|i| i.rc == rc) {
            for (sig, body) in &ih.methods {
                let args: Vec<V> = sig.params.iter().map(|t| g.value(*t)).collect();
                let expect = m.call(body, v, &args).show();
                let al: String = args.iter().map(|a| format!(", {}", a.lit())).collect();
                let gid = format!("v{vi}.inh.{}", sig.name);
                let mut forms = vec![];
                p.prints.push(format!(
                    "    string_println(\"{gid}.im=\" + {});",
                    show_call(sig.ret, &format!("x{vi}.{}({})", sig.name, al.trim_start_matches(", ")))
                ));
                forms.push("im".to_string());
                if !is_box || hz == "inst-ufcs" {
                    planted |= is_box;
                    let tpath = if is_box { "Box".to_string() } else { m.ty_text(rc, false) };
                    p.prints.push(format!(
                        "    string_println(\"{gid}.it=\" + {});",
                        show_call(sig.ret, &format!("{tpath}::{}(x{vi}{al})", sig.name))
                    ));
                    forms.push("it".to_string());
                }
                for f in &forms {
                    g.label(&format!("form:{f}"));
                }
                p.groups.push(json!({"gid": gid, "expect": expect, "forms": forms, "kind": "inherent"}));
            }
        }
    }
    if matches!(mode, Mode::Forms) && g.d.chance(130) {
        effect_section(m, g, &mut p);
    }
    if matches!(mode, Mode::Forms) && g.d.chance(100) {
        dyn_impl_section(m, g, &mut p);
    }
    // the offending addition of a negative case
    let neg = match mode {
        Mode::NegDyn => neg_dyn(m, g),
        Mode::NegAmbiguous => neg_ambiguous(m, g),
        _ => None,
    };
    (p, neg, planted)
}

/// Calls whose result is discarded, in statement positions (tail of a function body, of a
/// `while` body, of an if branch / match arm inside a loop, `e;`, `let _ = e;`) through every
/// call form of a printing trait method: every call must still happen, in order.
fn effect_section(m: &Model, g: &mut Gen, p: &mut Prog) {
    let cands: Vec<usize> = (0..m.vals.len()).filter(|&vi| !matches!(m.recvs[m.vals[vi].0].kind, RK::BoxOf(_))).collect();
    if cands.is_empty() {
        return;
    }
    let mut rcs: Vec<usize> = vec![];
    let mut lines: Vec<String> = vec![];
    let mut helpers: Vec<(String, String)> = vec![];
    let mut calls: Vec<String> = vec![];
    let n = 2 + g.d.below(4);
    for k in 0..n {
        let vi = cands[g.d.below(cands.len())];
        let rc = m.vals[vi].0;
        if !rcs.contains(&rc) {
            rcs.push(rc);
        }
        let ty = m.ty_text(rc, false);
        let form = ["u", "gm", "gu", "dp"][g.d.below(4)];
        let ctxk = ["tail", "stmt", "let", "wt", "wif", "mt"][g.d.below(6)];
        let tag = format!("{form}-{ctxk}-{k}");
        let (generics, pty) = match form {
            "u" => ("", ty.clone()),
            "dp" => ("", "dyn Fx".to_string()),
            _ => ("[U: Fx]", "U".to_string()),
        };
        let call = |t: &str| -> String {
            if form == "gm" {
                format!("v.fx(\"{t}\")")
            } else {
                format!("Fx::fx(v, \"{t}\")")
            }
        };
        let name = format!("fx_{form}_{ctxk}_{k}");
        let body = match ctxk {
            "tail" => {
                lines.push(format!("fx.{tag}.r{rc}"));
                format!("    {}\n", call(&tag))
            }
            "stmt" => {
                lines.push(format!("fx.{tag}.r{rc}"));
                format!("    {};\n    ()\n", call(&tag))
            }
            "let" => {
                lines.push(format!("fx.{tag}.r{rc}"));
                format!("    let _ = {};\n    ()\n", call(&tag))
            }
            "wt" => {
                lines.push(format!("fx.{tag}.r{rc}"));
                lines.push(format!("fx.{tag}.r{rc}"));
                format!(
                    "    let i: Ref[int32] = ref(0);\n    while ref_get(i) < 2 {{\n        let _ = ref_set(i, ref_get(i) + 1);\n        {}\n    }}\n",
                    call(&tag)
                )
            }
            "wif" => {
                lines.push(format!("fx.{tag}b.r{rc}"));
                lines.push(format!("fx.{tag}a.r{rc}"));
                format!(
                    "    let i: Ref[int32] = ref(0);\n    while ref_get(i) < 2 {{\n        let _ = ref_set(i, ref_get(i) + 1);\n        if ref_get(i) > 1 {{ {} }} else {{ {} }}\n    }}\n",
                    call(&format!("{tag}a")),
                    call(&format!("{tag}b"))
                )
            }
            _ => {
                lines.push(format!("fx.{tag}.r{rc}"));
                format!(
                    "    let i: Ref[int32] = ref(0);\n    while ref_get(i) < 1 {{\n        let _ = ref_set(i, ref_get(i) + 1);\n        match ref_get(i) > 0 {{\n            true => {},\n            false => (),\n        }}\n    }}\n",
                    call(&tag)
                )
            }
        };
        helpers.push((name.clone(), format!("fn {name}{generics}(v: {pty}) -> unit {{\n{body}}}")));
        calls.push(format!("    let _ = {name}(x{vi});"));
        g.label(&format!("effect-form:{form}"));
        g.label(&format!("effect-ctx:{ctxk}"));
    }
    let mut decl = String::from("trait Fx {\n    fn fx(Self, string) -> unit;\n}\n\n");
    for rc in &rcs {
        let ty = m.ty_text(*rc, false);
        decl.push_str(&format!(
            "impl Fx for {ty} {{\n    fn fx(self: {ty}, a0: string) -> unit {{\n        string_println(\"fx.\" + a0 + \".r{rc}\")\n    }}\n}}\n\n"
        ));
    }
    p.decls.push_str(&decl);
    for (k, h) in helpers {
        p.helpers.insert(k, h);
    }
    p.prints.extend(calls);
    p.groups.push(json!({"gid": "fx", "kind": "effects", "lines": lines, "forms": []}));
    g.label("effects");
}

/// A second trait implemented *for a trait-object type* (`impl OutD for dyn Tr`), whose method
/// calls a method of `Tr` on its receiver, next to an impl of the same trait for one of the
/// concrete types that implement `Tr`: every call form on the trait object must run the
/// `dyn Tr` impl (and through it the receiver's own `Tr` impl), every form on the concrete value
/// the concrete impl.
fn dyn_impl_section(m: &Model, g: &mut Gen, p: &mut Prog) {
    let mut cands: Vec<(usize, usize)> = vec![];
    for (vi, (rc, _)) in m.vals.iter().enumerate() {
        if matches!(m.recvs[*rc].kind, RK::BoxOf(_)) {
            continue;
        }
        for im in m.impls.iter().filter(|i| i.rc == *rc) {
            cands.push((vi, im.tr));
        }
    }
    if cands.is_empty() {
        return;
    }
    let (_, tr) = cands[g.d.below(cands.len())];
    let tname = m.trait_text(tr, false);
    let tid = m.traits[tr].name.clone();
    let mi = g.d.below(m.traits[tr].methods.len());
    let inner = m.traits[tr].methods[mi].clone();
    // the outer method is named like the inner one half of the time
    let mut on = if g.d.bool() { inner.name.clone() } else { g.d.pick(METHOD_NAMES).to_string() };
    if m.inhs.iter().any(|ih| ih.methods.iter().any(|(s, _)| s.name == on)) {
        // an inherent method of the same name is the clash phase's subject
        on = "od".to_string();
    }
    let inner_args: Vec<V> = inner.params.iter().map(|t| g.value(*t)).collect();
    let ial: String = inner_args.iter().map(|a| format!(", {}", a.lit())).collect();
    let inner_call = show_call(inner.ret, &format!("{tname}::{}(self{ial})", inner.name));
    let mut decl = format!("trait OutD {{\n    fn {on}(Self, int32) -> string;\n}}\n\n");
    decl.push_str(&format!(
        "impl OutD for dyn {tname} {{\n    fn {on}(self: dyn {tname}, a0: int32) -> string {{\n        \"od<\" + {inner_call} + \">\" + int32_to_string(a0)\n    }}\n}}\n\n"
    ));
    // one concrete type that implements the inner trait also implements the outer one itself
    let vals_of_tr: Vec<usize> = cands.iter().filter(|(_, t)| *t == tr).map(|(v, _)| *v).collect();
    let plain_rc = if g.d.chance(150) { Some(m.vals[vals_of_tr[g.d.below(vals_of_tr.len())]].0) } else { None };
    if let Some(rc) = plain_rc {
        let ty = m.ty_text(rc, false);
        decl.push_str(&format!(
            "impl OutD for {ty} {{\n    fn {on}(self: {ty}, a0: int32) -> string {{\n        \"plain.r{rc}.\" + int32_to_string(a0)\n    }}\n}}\n\n"
        ));
        g.label("dyn-impl:with-concrete-impl");
    }
    p.decls.push_str(&decl);
    p.helpers.insert("od_gm".into(), format!("fn od_gm[U: OutD](u: U, a0: int32) -> string {{ u.{on}(a0) }}"));
    p.helpers.insert("od_gu".into(), format!("fn od_gu[U: OutD](u: U, a0: int32) -> string {{ OutD::{on}(u, a0) }}"));
    p.helpers.insert("od_gg".into(), "fn od_gg[U: OutD](u: U, a0: int32) -> string { od_gm(u, a0) }".to_string());
    p.helpers.insert("od_dp".into(), format!("fn od_dp(v: dyn OutD, a0: int32) -> string {{ OutD::{on}(v, a0) }}"));
    p.helpers.insert("od_pass".into(), format!("fn od_pass(v: dyn {tname}, a0: int32) -> string {{ OutD::{on}(v, a0) }}"));
    for &vi in &vals_of_tr {
        let (rc, v) = &m.vals[vi];
        let im = m.impl_of(tr, *rc).unwrap();
        let inner_val = m.call(&im.bodies[mi], v, &inner_args).show();
        let a0 = g.d.below(50) as i32;
        let expect = format!("od<{inner_val}>{a0}");
        let gid = format!("od{vi}.{tid}");
        let ox = format!("ox{vi}_{tid}");
        p.lets.push(format!("    let {ox}: dyn {tname} = x{vi};"));
        let mut forms: Vec<String> = vec![];
        let mut emit = |p: &mut Prog, form: &str, call: String| {
            p.prints.push(format!("    string_println(\"{gid}.{form}=\" + {call});"));
            forms.push(form.to_string());
        };
        emit(p, "ou", format!("OutD::{on}({ox}, {a0})"));
        if g.d.chance(180) {
            emit(p, "ogm", format!("od_gm({ox}, {a0})"));
        }
        if g.d.chance(180) {
            emit(p, "ogu", format!("od_gu({ox}, {a0})"));
        }
        if g.d.chance(100) {
            emit(p, "ogg", format!("od_gg({ox}, {a0})"));
        }
        if g.d.chance(130) {
            // the concrete value coerced at the call, then the dyn-typed impl
            emit(p, "opass", format!("od_pass(x{vi}, {a0})"));
        }
        if g.d.chance(110) {
            let cv = format!("oc{vi}_{tid}");
            p.lets.push(format!("    let {cv} = || OutD::{on}({ox}, {a0});"));
            emit(p, "ocu", format!("{cv}()"));
        }
        if g.d.chance(90) {
            let cv = format!("og{vi}_{tid}");
            p.lets.push(format!("    let {cv} = |k: int32| od_gm({ox}, k);"));
            emit(p, "ocg", format!("{cv}({a0})"));
        }
        for f in &forms {
            g.label(&format!("form:{f}"));
        }
        p.groups.push(json!({"gid": gid, "expect": expect, "forms": forms, "kind": "trait"}));
        if plain_rc == Some(*rc) {
            let expect = format!("plain.r{rc}.{a0}");
            let gid = format!("op{vi}.{tid}");
            let mut forms: Vec<String> = vec![];
            let mut emit = |p: &mut Prog, form: &str, call: String| {
                p.prints.push(format!("    string_println(\"{gid}.{form}=\" + {call});"));
                forms.push(form.to_string());
            };
            emit(p, "pu", format!("OutD::{on}(x{vi}, {a0})"));
            emit(p, "pgm", format!("od_gm(x{vi}, {a0})"));
            if g.d.bool() {
                emit(p, "pgu", format!("od_gu(x{vi}, {a0})"));
            }
            if g.d.bool() {
                emit(p, "pdp", format!("od_dp(x{vi}, {a0})"));
            }
            for f in &forms {
                g.label(&format!("form:{f}"));
            }
            p.groups.push(json!({"gid": gid, "expect": expect, "forms": forms, "kind": "trait"}));
        }
    }
    g.label("dyn-impl");
}

/// (kind, extra helper fns, extra main lines)
fn neg_dyn(m: &Model, g: &mut Gen) -> Option<(String, Vec<String>, Vec<String>)> {
    // a trait that cannot be used as `dyn`: a method returns Self (bare or nested in a type)
    if g.d.chance(70) {
        let cands: Vec<usize> = (0..m.vals.len()).filter(|&vi| !matches!(m.recvs[m.vals[vi].0].kind, RK::BoxOf(_))).collect();
        if !cands.is_empty() {
            let vi = cands[g.d.below(cands.len())];
            let ty = m.ty_text(m.vals[vi].0, false);
            let (ret, body, kind) = [
                ("Self".to_string(), "self".to_string(), "self"),
                ("(Self, Self)".to_string(), "(self, self)".to_string(), "tuple"),
                ("(int32, Self)".to_string(), "(1, self)".to_string(), "tuple-mixed"),
                ("Vec[Self]".to_string(), "vec_push(vec_new(), self)".to_string(), "vec"),
                ("Ref[Self]".to_string(), "ref(self)".to_string(), "ref"),
                ("[Self; 2]".to_string(), "[self, self]".to_string(), "array"),
            ][g.d.below(6)]
            .clone();
            let concrete = ret.replace("Self", &ty);
            let helpers = vec![
                format!("trait Dz {{\n    fn dup(Self) -> {ret};\n    fn one(Self) -> int32;\n}}"),
                format!("impl Dz for {ty} {{\n    fn dup(self: {ty}) -> {concrete} {{\n        {body}\n    }}\n    fn one(self: {ty}) -> int32 {{\n        1\n    }}\n}}"),
                "fn neg_dz(v: dyn Dz) -> int32 { Dz::one(v) }".to_string(),
            ];
            let lines = vec![format!("    string_println(\"neg=\" + int32_to_string(neg_dz(x{vi})));")];
            return Some((format!("dyn-unsafe-trait-{kind}"), helpers, lines));
        }
    }
    // a (trait, value) pair without impl, the trait having an impl for some other type
    let mut pairs = vec![];
    for tr in 0..m.traits.len() {
        if !m.impls.iter().any(|i| i.tr == tr) {
            continue;
        }
        for (vi, (rc, _)) in m.vals.iter().enumerate() {
            if m.impl_of(tr, *rc).is_none() {
                pairs.push((tr, vi, *rc));
            }
        }
    }
    if pairs.is_empty() {
        return None;
    }
    let (tr, vi, rc) = pairs[g.d.below(pairs.len())];
    let tname = m.trait_text(tr, false);
    let sig = &m.traits[tr].methods[0];
    let args: String = sig.params.iter().map(|t| format!(", {}", g.value(*t).lit())).collect();
    let mut kind = "dyn-no-impl".to_string();
    if let RK::BoxOf(_) = m.recvs[rc].kind {
        if m.impls.iter().any(|i| i.tr == tr && matches!(m.recvs[i.rc].kind, RK::BoxOf(_))) {
            kind = "dyn-other-instance".into();
        }
    }
    if m.recvs[rc].lib {
        kind.push_str("-lib-type");
    }
    let (helpers, lines) = if g.d.bool() {
        (
            vec![],
            vec![
                format!("    let bad: dyn {tname} = x{vi};"),
                format!("    string_println(\"neg=\" + {});", show_call(sig.ret, &format!("{tname}::{}(bad{args})", sig.name))),
            ],
        )
    } else {
        (
            vec![format!(
                "fn neg_d(v: dyn {tname}{}) -> {} {{ {tname}::{}(v{}) }}",
                params_decl(sig),
                sig.ret.name(),
                sig.name,
                args_pass(sig)
            )],
            vec![format!("    string_println(\"neg=\" + {});", show_call(sig.ret, &format!("neg_d(x{vi}{args})")))],
        )
    };
    Some((kind, helpers, lines))
}

fn neg_ambiguous(m: &Model, g: &mut Gen) -> Option<(String, Vec<String>, Vec<String>)> {
    // traits 0 and 1 share the name of a method; value of receiver 0 implements both
    let name = m.traits[0].methods[0].name.clone();
    let s0 = &m.traits[0].methods[0];
    if !m.traits[1].methods.iter().any(|s| s.name == name) {
        return None;
    }
    let vi = m.vals.iter().position(|(rc, _)| *rc == 0)?;
    m.impl_of(0, 0)?;
    m.impl_of(1, 0)?;
    let t0 = m.trait_text(0, false);
    let t1 = m.trait_text(1, false);
    let order = if g.d.bool() { format!("{t0} + {t1}") } else { format!("{t1} + {t0}") };
    let args: String = s0.params.iter().map(|t| format!(", {}", g.value(*t).lit())).collect();
    let helpers = vec![format!(
        "fn neg_amb[U: {order}](u: U{}) -> {} {{ u.{}({}) }}",
        params_decl(s0),
        s0.ret.name(),
        name,
        args_pass(s0).trim_start_matches(", ")
    )];
    let lines = vec![format!("    string_println(\"neg=\" + {});", show_call(s0.ret, &format!("neg_amb(x{vi}{args})")))];
    Some(("ambiguous-bound-method".into(), helpers, lines))
}

fn assemble(p: &Prog, has_lib: bool, extra_helpers: &[String], extra_lines: &[String]) -> Vec<(String, String)> {
    let mut main = p.decls.clone();
    for h in p.helpers.values() {
        main.push_str(h);
        main.push_str("\n\n");
    }
    for h in extra_helpers {
        main.push_str(h);
        main.push_str("\n\n");
    }
    main.push_str("fn main() {\n");
    for l in &p.lets {
        main.push_str(l);
        main.push('\n');
    }
    for l in &p.prints {
        main.push_str(l);
        main.push('\n');
    }
    for l in extra_lines {
        main.push_str(l);
        main.push('\n');
    }
    main.push_str("    ()\n}\n");
    let mut files = vec![("main.gom".to_string(), main)];
    if has_lib {
        files.push(("Lib/lib.gom".to_string(), p.lib.clone()));
    }
    files
}

// -------------------------------------------------------------------- judge

enum Pos {
    Pass,
    Discard(String),
    Fail(String, String),
    /// the compiler refused the program (stage, first message, all messages)
    Rejected(String, String, String),
}

fn all_text(files: &[(String, String)]) -> String {
    files.iter().map(|(n, t)| format!("--- {n}\n{t}")).collect::<Vec<_>>().join("\n")
}

fn judge_positive(files: &[(String, String)], groups: &[Value], ctx: &mut Ctx) -> Pos {
    let go_text = match goml::compile_project(ctx, files) {
        CompileRes::Panic(p) => return Pos::Fail(format!("C17|panic|{}", p.signature()), p.message.clone()),
        CompileRes::Err(e) => {
            let msgs = goml::diag_messages(e.diagnostics());
            let first = msgs.first().cloned().unwrap_or_default();
            let body = first.splitn(2, "] ").nth(1).unwrap_or(&first).to_string();
            return Pos::Rejected(goml::error_stage(&e).to_string(), body, msgs.join("\n"));
        }
        CompileRes::Ok(_, t) => t,
    };
    let prog = match behave::go_check(&go_text) {
        GoCheck::Ok(p) => p,
        GoCheck::Unsupported(u) => return Pos::Discard(format!("minigo:{}", u.split(' ').next().unwrap_or(""))),
        GoCheck::Rejected(errs) => {
            return Pos::Fail(format!("C17|go-rejected|{}", errs[0].rule), behave::describe_go_errors(&errs, &go_text))
        }
    };
    let run = minigo::run(&prog, &behave::go_opts());
    let out = String::from_utf8_lossy(&run.stdout).to_string();
    match &run.end {
        minigo::End::Exit0 => {}
        minigo::End::Panic(k, msg) => {
            let last = out.lines().last().unwrap_or("").to_string();
            return Pos::Fail(
                format!("C17|go-panic|{:?}", k),
                format!("the Go program panics: {msg}\nlast line printed before: {last}"),
            );
        }
        minigo::End::StepLimit | minigo::End::OutputLimit => return Pos::Discard("minigo:step-limit".into()),
        minigo::End::Unsupported(u) => return Pos::Discard(format!("minigo-run:{}", u.split(' ').next().unwrap_or(""))),
    }
    let mut got: BTreeMap<String, String> = BTreeMap::new();
    for l in out.lines() {
        if let Some((k, v)) = l.split_once('=') {
            got.insert(k.to_string(), v.to_string());
        }
    }
    for gr in groups {
        if gr["kind"].as_str() == Some("effects") {
            let want: Vec<&str> = gr["lines"].as_array().map(|a| a.iter().filter_map(|x| x.as_str()).collect()).unwrap_or_default();
            let have: Vec<&str> = out.lines().filter(|l| l.starts_with("fx.")).collect();
            if want != have {
                return Pos::Fail(
                    "C17|effect-calls".into(),
                    format!("method calls whose result is discarded: expected the lines\n  {}\nthe Go program prints\n  {}", want.join("\n  "), have.join("\n  ")),
                );
            }
            continue;
        }
        let gid = gr["gid"].as_str().unwrap_or("");
        let expect = gr["expect"].as_str().unwrap_or("");
        let forms: Vec<&str> = gr["forms"].as_array().map(|a| a.iter().filter_map(|x| x.as_str()).collect()).unwrap_or_default();
        let mut vals: Vec<(String, String)> = vec![];
        for f in &forms {
            match got.get(&format!("{gid}.{f}")) {
                Some(v) => vals.push((f.to_string(), v.clone())),
                None => return Pos::Fail("C17|output-shape".into(), format!("no line {gid}.{f}= in the output:\n{}", truncate_str(&out, 600))),
            }
        }
        let distinct: BTreeSet<&String> = vals.iter().map(|(_, v)| v).collect();
        let listing = vals.iter().map(|(f, v)| format!("  {gid}.{f} = {v}")).collect::<Vec<_>>().join("\n");
        if distinct.len() > 1 {
            return Pos::Fail(
                "C17|forms-disagree".into(),
                format!("the call forms of one method on one value give different results (the method body evaluates to {expect:?}):\n{listing}"),
            );
        }
        if let Some(v) = distinct.iter().next() {
            if v.as_str() != expect {
                return Pos::Fail(
                    "C17|wrong-impl".into(),
                    format!("all forms agree on a result that is not the one of the receiver's implementation ({expect:?}):\n{listing}"),
                );
            }
        }
    }
    Pos::Pass
}

/// a diagnostic without the names of the program: every word that is not part
/// of the compiler's diagnostic vocabulary becomes `_`
fn coarse(msg: &str) -> String {
    const VOCAB: &[&str] = &[
        "method", "not", "found", "for", "type", "no", "instance", "trait", "operator", "cannot", "convert", "non",
        "concrete", "to", "dyn", "does", "implement", "ambiguous", "types", "are", "equal", "and", "constructor",
        "expects", "arguments", "but", "got", "unresolved", "name", "unknown", "use", "ufcs", "like", "disambiguate",
        "candidates", "parameter", "inherent", "impl", "local", "is", "allowed", "violates", "orphan", "rule", "package",
        "member", "access", "or", "of", "in", "the", "a", "an", "expected", "mismatch", "argument", "call", "function",
        "return", "field", "struct", "enum", "variant", "pattern", "match", "unsupported", "invalid", "missing", "duplicate",
        "defined", "undefined", "static", "path", "must", "have", "at", "least", "segments", "with", "from", "on",
    ];
    let first = msg.lines().next().unwrap_or("");
    let mut out = String::new();
    let mut word = String::new();
    let flush = |word: &mut String, out: &mut String| {
        if word.is_empty() {
            return;
        }
        if VOCAB.contains(&word.to_lowercase().as_str()) {
            out.push_str(word);
        } else if !out.ends_with('_') {
            out.push('_');
        }
        word.clear();
    };
    for c in first.chars() {
        if c.is_alphanumeric() || c == '_' {
            word.push(c);
        } else {
            flush(&mut word, &mut out);
            if matches!(c, ':' | '{' | '}' | '(' | ')' | '<' | '>' | '[' | ']' | ',' | '.' | '`') {
                continue;
            }
            if c == ' ' && out.ends_with(' ') {
                continue;
            }
            out.push(c);
        }
    }
    flush(&mut word, &mut out);
    truncate_str(out.trim(), 60)
}

fn files_of(v: &Value) -> Vec<(String, String)> {
    // main.gom first
    let mut f = goml::files_from_json(v);
    f.sort_by_key(|(n, _)| n != "main.gom");
    f
}

fn nontrivial_groups(groups: &[Value]) -> bool {
    groups.iter().any(|g| {
        let forms: Vec<&str> = g["forms"].as_array().map(|a| a.iter().filter_map(|x| x.as_str()).collect()).unwrap_or_default();
        forms.len() >= 3 && forms.iter().any(|f| matches!(*f, "gm" | "gu" | "gg" | "pr" | "h" | "h-ufcs" | "dp" | "dl" | "dd" | "dp-lit" | "ret" | "ret-dp" | "cu" | "cd" | "ogm" | "ogu" | "ogg" | "ocu" | "ocg" | "opass" | "pgm" | "pdp"))
    })
}

impl Check for C17 {
    fn id(&self) -> &'static str {
        "C17"
    }
    fn phases(&self, tier: Tier) -> Vec<PhaseSpec> {
        vec![
            PhaseSpec { name: "forms", cases: tier.pick(20_000, 120_000), max_bytes: 600, exhaustive: false },
            PhaseSpec { name: "neg-dyn", cases: tier.pick(4_000, 24_000), max_bytes: 500, exhaustive: false },
            PhaseSpec { name: "neg-ambiguous", cases: tier.pick(3_000, 16_000), max_bytes: 500, exhaustive: false },
            PhaseSpec { name: "clash", cases: tier.pick(2_000, 12_000), max_bytes: 300, exhaustive: false },
        ]
    }
    fn make(&self, phase: &str, _index: u64, bytes: &[u8], ctx: &mut Ctx) -> Case {
        let mut d = Dec::new(bytes);
        let mode = match phase {
            "neg-dyn" => Mode::NegDyn,
            "neg-ambiguous" => Mode::NegAmbiguous,
            "clash" => Mode::Clash,
            _ => Mode::Forms,
        };
        let mut g = Gen { d: &mut d, labels: BTreeSet::new() };
        // at most one shape of an open known finding per program
        let hazards = ["none", "dyn-instance", "dyn-int-lit", "dyn-from-call", "inst-ufcs", "dyn-struct-lit"];
        let gates = ["", GATE_DYN_INSTANCE, GATE_DYN_INT_LITERAL, GATE_DYN_FROM_CALL, GATE_INHERENT_INSTANCE_UFCS, GATE_DYN_STRUCT_LITERAL];
        let k = g.d.weighted(&[6, 2, 1, 2, 1, 1]);
        let mut hz = hazards[k];
        if k > 0 && ctx.gated(gates[k]) {
            hz = "none";
        }
        let m = gen_model(&mut g, mode);
        let (p, neg, planted) = render_program(&m, &mut g, hz, mode);
        if !planted {
            hz = "none";
        }
        g.label(&format!("hazard:{hz}"));
        let base = assemble(&p, m.has_lib, &[], &[]);
        let mut input = json!({
            "mode": phase,
            "hazard": hz,
            "files": goml::files_to_json(&base),
            "groups": p.groups,
            "labels": g.labels.iter().cloned().collect::<Vec<_>>(),
        });
        if let Some((kind, helpers, lines)) = neg {
            let bad = assemble(&p, m.has_lib, &helpers, &lines);
            input["neg_kind"] = json!(kind);
            input["neg_files"] = goml::files_to_json(&bad);
        }
        Case::new(input)
    }
    fn judge(&self, phase: &str, case: &Case, ctx: &mut Ctx) -> CaseOut {
        let input = &case.input;
        let mode = input["mode"].as_str().unwrap_or(phase).to_string();
        let files = files_of(&input["files"]);
        let groups = input["groups"].as_array().cloned().unwrap_or_default();
        let mut labels: Vec<String> = input["labels"]
            .as_array()
            .map(|a| a.iter().filter_map(|x| x.as_str().map(|s| s.to_string())).collect())
            .unwrap_or_default();
        let text = all_text(&files);
        let key = fnv_str(&format!("{text}{}", input["neg_files"]));
        let nt = nontrivial_groups(&groups);
        // failures of a program that carries the shape of a known finding name the shape
        let hzs = match input["hazard"].as_str() {
            None | Some("none") => String::new(),
            Some(h) => format!("|{h}"),
        };
        let pos = judge_positive(&files, &groups, ctx);
        match pos {
            Pos::Discard(r) => return CaseOut::discard(&r),
            Pos::Fail(sig, detail) => return CaseOut::fail(format!("{sig}{hzs}"), format!("{detail}\n{text}"), key).labelled(labels),
            Pos::Rejected(stage, first, all) => {
                if mode == "clash" {
                    // "ambiguous method names are rejected rather than resolved arbitrarily":
                    // refusing a type whose inherent and trait methods share a name is allowed
                    labels.push("clash:rejected".into());
                    labels.push(format!("clash:rejected:{}", coarse(&first)));
                    return CaseOut::pass(false, key).labelled(labels);
                }
                return CaseOut::fail(
                    format!("C17|rejected|{}{hzs}", coarse(&first)),
                    format!("a well-formed program is rejected at stage {stage}:\n{all}\n{text}"),
                    key,
                )
                .labelled(labels);
            }
            Pos::Pass => {}
        }
        labels.push("accepted".into());
        if mode == "clash" {
            labels.push("clash:accepted".into());
        }
        if mode.starts_with("neg") {
            let Some(kind) = input["neg_kind"].as_str() else {
                labels.push("neg:none-applicable".into());
                return CaseOut::pass(nt, key).labelled(labels);
            };
            let bad = files_of(&input["neg_files"]);
            return match goml::compile_project(ctx, &bad) {
                CompileRes::Panic(p) => {
                    CaseOut::fail(format!("C17|panic|{}", p.signature()), format!("{}\n{}", p.message, all_text(&bad)), key).labelled(labels)
                }
                CompileRes::Ok(..) => CaseOut::fail(
                    format!("C17|negative-accepted|{kind}"),
                    format!(
                        "the program must be rejected ({kind}); it compiles. Without its `neg` lines it is the accepted program judged before.\n{}",
                        all_text(&bad)
                    ),
                    key,
                )
                .labelled(labels),
                CompileRes::Err(e) => {
                    let stage = goml::error_stage(&e);
                    let msgs = goml::diag_messages(e.diagnostics());
                    if stage == "parser" || !msgs.iter().any(|m| m.contains(":error]")) {
                        return CaseOut::fail(
                            format!("C17|negative-not-diagnosed|{stage}"),
                            format!("{}\n{}", msgs.join("\n"), all_text(&bad)),
                            key,
                        )
                        .labelled(labels);
                    }
                    labels.push(format!("neg:{kind}:rejected"));
                    CaseOut::pass(true, key).labelled(labels)
                }
            };
        }
        CaseOut::pass(nt, key).labelled(labels)
    }
    fn setup(&self, _ctx: &mut Ctx) -> Result<Value, String> {
        behave::calibrate()
    }
    fn rule(&self) -> String {
        "forms: random programs with 1-3 traits (1-3 methods, 0-2 extra parameters of int32/string/bool, result int32/string/bool; method names from a pool of sixteen, ten of which the Go back end has to escape (range, len, new, copy, default, select, init, map, func, var), so traits share names), 1-4 receiver types (struct, enum, the primitives int32/string/bool/int64/uint8, the instances Box[int32]/Box[string]/Box[bool] of one generic struct, structs/enums and traits declared in a second package Lib; impls placed according to the orphan rule), impls for a random subset of (trait, type), inherent impls (names may equal trait-method names of other types), every method body a random expression (arithmetic, concatenation, comparison, if, string_len, *_to_string) over the receiver's fields / payloads / value, the arguments and a per-impl constant; main binds 1-2 values per type and prints `<value>.<trait>.<method>.<form>=` + result for the call forms u (Tr::m(x,a)), gm (u.m(a) in fn[U: Tr]), gu (Tr::m(u,a) in fn[U: Tr]), gg (generic calling generic), pr (second of two bounded parameters), h / h-ufcs (fn[U: Tr + Tr2], UFCS when both traits declare the name), dp (x passed where dyn Tr is expected), dl (let d: dyn Tr = x; Tr::m(d,a)), dd (a dyn passed on), dp-lit / u-lit (a literal receiver), ret (a function returning dyn Tr), im / it (inherent x.m(a) and T::m(x,a)). Oracle: the program is accepted, its Go is accepted by the Go-subset checker and runs to completion, all forms of one (value, method) print the same text and that text is the value of the receiver type's method body computed by the check's own evaluator. neg-dyn: the same plus a coercion to dyn Tr of a value whose type has no impl of Tr (let or argument position): must be rejected with an error diagnostic while the program without these lines is accepted; neg-ambiguous: plus fn[U: A + B](u) { u.m() } with m declared by both traits: must be rejected, while A::m(u) (form h-ufcs) is accepted and runs A's impl; clash: one type with an inherent method and a trait method of the same name: rejecting is allowed, if accepted x.m(a) and T::m(x,a) must both give the inherent method's result and the trait forms the trait impl's. The shapes of open known findings (dyn Tr of a generic instance, an integer literal where dyn Tr is expected, a dyn Tr value taken from a call (ret, ret-dp), T::m(x) for an inherent impl on a generic instance) occur in at most one kind per program, are excluded by the findings' gates (counted under excluded_by_gate) and put their kind at the end of the failure signature. Non-trivial = some (value, method) with >= 3 forms of which one is bounded-generic or dyn; negative cases count when rejected; distinct by hash of the files. Calls are also made from inside closures that capture the receiver (cu) or the trait object (cd). A third of the forms programs additionally declare a printing trait Fx and call it with the result discarded in tail / statement / let / while-tail / if-tail / match-arm position through the concrete, bounded (u.fx, Fx::fx) and dyn forms: the lines printed must be exactly the expected ones in order. Negative dyn programs also include traits that are not dyn-safe (a method returning Self bare or nested in a tuple, Vec, Ref or array).".into()
    }
    fn assumptions(&self) -> Vec<String> {
        vec![
            "miniGo stands for the Go toolchain (calibrated in setup against the recorded corpus)".into(),
            "observed limits of the language are respected, not judged: x.m(a) on a concrete receiver is only used for inherent methods, dyn values are called through Tr::m only, inherent impls are not written for primitives (refused by design), dyn values are taken from annotated lets and parameters".into(),
            "in the clash phase the statement does not say which method x.m(a) denotes: a rejection passes; on acceptance x.m(a) and T::m(x,a) must agree with each other and with the inherent body (T::m names the type, so it can only mean the inherent method)".into(),
            "bool-returning bodies cannot carry the per-impl constant: a wrong impl is visible there only when the bodies differ on the chosen values".into(),
        ]
    }
    fn required_labels(&self, _tier: Tier) -> Vec<&'static str> {
        vec![
            "recv:struct",
            "recv:enum",
            "recv:prim:int32",
            "recv:prim:string",
            "recv:generic-instance",
            "two-instances-of-one-generic",
            "lib",
            "form:u",
            "form:gm",
            "form:gu",
            "form:h",
            "form:h-ufcs",
            "form:dp",
            "form:dl",
            "form:im",
            "form:it",
            "same-method-name-in-two-traits",
            "neg:dyn-no-impl:rejected",
            "neg:ambiguous-bound-method:rejected",
        ]
    }
    fn max_discard_fraction(&self) -> f64 {
        0.1
    }
}
