//! C16 — packages are isolated by imports and trait implementations are coherent.

use crate::driver::*;
use crate::goml::{self, CompileRes};
use crate::projgen::{self, RenderOpts, RenderTweaks};
use crate::sep;
use crate::util::*;
use diagnostics::Severity;
use serde_json::{json, Map, Value};
use std::path::Path;

pub struct C16;

/// changed / added files of a variant relative to the base (removed = null)
fn patch_of(base: &[(String, String)], variant: &[(String, String)]) -> Value {
    let mut m = Map::new();
    for (p, t) in variant {
        if base.iter().find(|(bp, _)| bp == p).map(|(_, bt)| bt) != Some(t) {
            m.insert(p.clone(), Value::String(t.clone()));
        }
    }
    for (p, _) in base {
        if !variant.iter().any(|(vp, _)| vp == p) {
            m.insert(p.clone(), Value::Null);
        }
    }
    Value::Object(m)
}

fn apply_patch(base: &[(String, String)], patch: &Value) -> Vec<(String, String)> {
    let mut out: Vec<(String, String)> = base.to_vec();
    if let Some(m) = patch.as_object() {
        for (p, t) in m {
            out.retain(|(bp, _)| bp != p);
            if let Some(t) = t.as_str() {
                out.push((p.clone(), t.to_string()));
            }
        }
    }
    out.sort();
    out
}

fn compile_in(dir: &Path, files: &[(String, String)], reverse: bool) -> CompileRes {
    let _ = std::fs::remove_dir_all(dir);
    let perm: Vec<usize> = if reverse { (0..files.len()).rev().collect() } else { (0..files.len()).collect() };
    projgen::materialise_perm(dir, files, &perm);
    let main_src = files.iter().find(|(p, _)| p == "main.gom").map(|(_, t)| t.clone()).unwrap_or_default();
    goml::compile_at(dir.join("main.gom"), &main_src)
}

fn has_error(e: &compiler::pipeline::pipeline::CompilationError) -> bool {
    e.diagnostics().iter().any(|x| x.severity() == Severity::Error)
}

/// Err(sig, detail) unless `res` is a clean rejection
fn must_reject(res: &CompileRes, kind: &str, how: &str) -> Result<(), (String, String)> {
    match res {
        CompileRes::Panic(p) => Err((format!("C16|panic|{}", p.signature()), format!("{how}: panic at {}:{}: {}", p.file, p.line, p.message))),
        CompileRes::Ok(..) => Err((format!("C16|defect-accepted|{kind}|{how}"), format!("the project with the defect `{kind}` is accepted by {how}"))),
        CompileRes::Err(e) => {
            if has_error(e) {
                Ok(())
            } else {
                Err((format!("C16|rejected-without-error|{kind}"), format!("{how}: Err without an error diagnostic")))
            }
        }
    }
}

fn sep_must_reject<T>(res: &Result<T, sep::SepErr>, kind: &str, how: &str) -> Result<(), (String, String)> {
    match res {
        Ok(_) => Err((format!("C16|defect-accepted|{kind}|{how}"), format!("the package with the defect `{kind}` is accepted by {how}"))),
        Err(e) if e.is_panic() => Err(projgen::sep_sig("C16", "", e)),
        Err(sep::SepErr::Compile(_, ce)) if !has_error(ce) => {
            Err((format!("C16|rejected-without-error|{kind}"), format!("{how}: Err without an error diagnostic")))
        }
        Err(_) => Ok(()),
    }
}

fn judge_case(input: &Value, ctx: &mut Ctx) -> CaseOut {
    let base = goml::files_from_json(&input["files"]);
    if base.is_empty() {
        return CaseOut::discard("no-files");
    }
    let mut labels: Vec<String> = input["labels"]
        .as_array()
        .map(|a| a.iter().filter_map(|x| x.as_str().map(|s| s.to_string())).collect())
        .unwrap_or_default();
    let key = fnv_str(&input.to_string());
    let npk = labels.iter().find_map(|l| l.strip_prefix("pkgs:").and_then(|n| n.parse::<usize>().ok())).unwrap_or(1);
    let kind = input["defect"]["kind"].as_str().unwrap_or("").to_string();
    let dpkg = input["defect"]["package"].as_str().unwrap_or("").to_string();
    let dir = ctx.scratch.fresh_dir();
    let r = (|| -> Result<Result<bool, String>, (String, String)> {
        // ---- the legal base
        let b = compile_in(&dir.join("base"), &base, false);
        let base_go = match &b {
            CompileRes::Ok(_, go) => go.clone(),
            CompileRes::Panic(p) => {
                return Err((format!("C16|panic|{}", p.signature()), format!("base: panic at {}:{}: {}", p.file, p.line, p.message)))
            }
            CompileRes::Err(_) => {
                return Err(("C16|legal-project-rejected".into(), format!("the generated legal project is rejected: {}", projgen::describe_compile(&b))))
            }
        };
        // the separate pipeline accepts it too (artifacts are the dependencies' interfaces below)
        let art = dir.join("art");
        let disc = match sep::discover(&dir.join("base")) {
            Ok(d) => d,
            Err(e) => return Err(projgen::sep_sig("C16", "legal-project-rejected|separate", &e)),
        };
        let linked = match sep::build_all(&disc, &disc.order, &art).and_then(|_| sep::link_dir(&art, &disc.order)) {
            Ok(l) => l,
            Err(e) => return Err(projgen::sep_sig("C16", "legal-project-rejected|separate", &e)),
        };
        if kind.is_empty() {
            // ---- invariance of the legal project
            // (1) creation order of files and directories reversed
            match compile_in(&dir.join("rev"), &base, true) {
                CompileRes::Ok(_, go) if go == base_go => {}
                other => {
                    return Err((
                        "C16|verdict-depends-on-creation-order".into(),
                        format!("files created in reverse order: {} (Go text {})", projgen::describe_compile(&other), "differs or missing"),
                    ))
                }
            }
            // (2) import lines in the opposite order
            let rev_imports = apply_patch(&base, &input["reversed_imports"]);
            match compile_in(&dir.join("revimp"), &rev_imports, false) {
                CompileRes::Ok(_, go) if go == base_go => {}
                other => {
                    return Err((
                        "C16|verdict-depends-on-import-order".into(),
                        format!("import lines reversed: {}; the Go text differs or is missing", projgen::describe_compile(&other)),
                    ))
                }
            }
            // (3) an unrelated, not imported package directory next to the project
            if !input["stray"].is_null() {
                let with_stray = apply_patch(&base, &input["stray"]);
                match compile_in(&dir.join("stray"), &with_stray, false) {
                    CompileRes::Ok(_, go) if go == base_go => labels.push("stray-dir".into()),
                    other => {
                        return Err((
                            "C16|meaning-depends-on-unimported-package".into(),
                            format!("with a package directory nobody imports: {}; the Go text differs or is missing", projgen::describe_compile(&other)),
                        ))
                    }
                }
            }
            // (4) whole and separate agree on behaviour
            let wr = projgen::run_go(&base_go);
            let sr = projgen::run_go(&linked.go_text);
            if !wr.same_behaviour(&sr) {
                return Err(("C16|whole-vs-separate-behaviour".into(), format!("whole: {:?}\nseparate: {:?}", wr, sr)));
            }
            labels.push("legal".into());
            return Ok(Ok(npk >= 3));
        }
        // ---- the defect
        labels.push(format!("defect:{kind}"));
        let bad = apply_patch(&base, &input["defect"]["patch"]);
        if !input["defect"]["control"].is_null() {
            let control = apply_patch(&base, &input["defect"]["control"]);
            match compile_in(&dir.join("control"), &control, false) {
                CompileRes::Ok(..) => labels.push("control-accepted".into()),
                other => return Ok(Err(format!("control-rejected:{}", truncate_str(&projgen::describe_compile(&other), 120)))),
            }
        }
        let w1 = compile_in(&dir.join("bad"), &bad, false);
        must_reject(&w1, &kind, "whole-program compile")?;
        let w2 = compile_in(&dir.join("badrev"), &bad, true);
        must_reject(&w2, &kind, "whole-program compile (reverse creation order)")?;
        // ---- the separate pipeline, where the defect is visible to it
        let bad_root = dir.join("bad");
        let local = input["defect"]["local"].as_bool().unwrap_or(false);
        let pdir = if dpkg == "Main" { bad_root.clone() } else { bad_root.join(&dpkg) };
        if local && pdir.is_dir() {
            let c = sep::check_one(&dpkg, &pdir, &art);
            sep_must_reject(&c, &kind, "check")?;
            let bld = sep::build_one(&dpkg, &pdir, &art);
            sep_must_reject(&bld, &kind, "build")?;
            labels.push("separate-checked".into());
        } else {
            // graph-level defect: goml's own discovery of the build order must fail, or
            // building what can be built and linking must fail
            match sep::discover(&bad_root) {
                Err(e) if e.is_panic() => return Err(projgen::sep_sig("C16", "", &e)),
                Err(_) => labels.push("separate-discover-rejects".into()),
                Ok(d2) => {
                    let art2 = dir.join("art2");
                    let r = sep::build_all(&d2, &d2.order, &art2).and_then(|_| sep::link_dir(&art2, &d2.order));
                    sep_must_reject(&r, &kind, "build+link")?;
                    labels.push("separate-checked".into());
                }
            }
            if kind == "import-cycle" && pdir.is_dir() {
                // with the interfaces of an earlier legal build still around, the package with
                // the back edge may build; the link of the result must fail
                if let Ok(u) = sep::build_one(&dpkg, &pdir, &art) {
                    let art3 = dir.join("art3");
                    let _ = std::fs::create_dir_all(&art3);
                    for p in &disc.order {
                        for ext in ["interface", "core"] {
                            let _ = std::fs::copy(art.join(format!("{p}.{ext}")), art3.join(format!("{p}.{ext}")));
                        }
                    }
                    let _ = sep::write_unit(&art3, &u);
                    let r = sep::link_dir(&art3, &disc.order);
                    sep_must_reject(&r, &kind, "link-after-rebuild")?;
                    labels.push("cycle-link-rejected".into());
                }
            }
        }
        Ok(Ok(npk >= 3 && dpkg != "Main"))
    })();
    ctx.scratch.remove(&dir);
    match r {
        Ok(Ok(nt)) => CaseOut::pass(nt, key).labelled(labels),
        Ok(Err(why)) => {
            let mut o = CaseOut::discard(&why);
            o.labels = labels;
            o
        }
        Err((sig, detail)) => CaseOut::fail(sig, detail, key).labelled(labels),
    }
}

/// an unrelated package with popular names (never imported)
fn stray_package() -> Vec<(String, String)> {
    vec![(
        "Omega/lib.gom".to_string(),
        "package Omega\n\nstruct Pt {\n    x: string,\n}\n\nenum Col {\n    Red,\n    Rgb(string),\n}\n\ntrait Show {\n    fn show(Self) -> string;\n}\n\nimpl Show for int32 {\n    fn show(self: int32) -> string {\n        \"omega\"\n    }\n}\n\nimpl Show for Pt {\n    fn show(self: Pt) -> string {\n        self.x\n    }\n}\n\nfn make() -> int32 {\n    99\n}\n\nfn same[T](x: T) -> T {\n    x\n}\n".to_string(),
    )]
}

impl Check for C16 {
    fn id(&self) -> &'static str {
        "C16"
    }
    fn phases(&self, tier: Tier) -> Vec<PhaseSpec> {
        vec![
            PhaseSpec { name: "legal", cases: tier.pick(2_000, 10_000), max_bytes: 1500, exhaustive: false },
            PhaseSpec { name: "defect", cases: tier.pick(9_000, 46_000), max_bytes: 1600, exhaustive: false },
        ]
    }
    fn make(&self, phase: &str, index: u64, bytes: &[u8], ctx: &mut Ctx) -> Case {
        let mut d = Dec::new(bytes);
        let proj = projgen::gen_project(&mut d, ctx);
        let labels = proj.features();
        let mut files = proj.render();
        files.sort();
        if phase == "legal" {
            let mut labels = labels;
            let mut tw = RenderTweaks::default();
            tw.reverse_imports = true;
            let mut rev = proj.render_with(&RenderOpts { erase_bodies: false }, &tw);
            // an extern "go" function of an imported package called through the package path
            if d.chance(70) && projgen::add_cross_package_extern(&mut files) {
                projgen::add_cross_package_extern(&mut rev);
                labels.push("extern-go:called-from-importer".into());
            }
            // a trait whose impls for another package's types live in the trait's package, used as dyn from a third
            if d.chance(70) && projgen::add_dyn_third_package(&mut files) {
                projgen::add_dyn_third_package(&mut rev);
                labels.push("dyn:impl-in-trait-package-used-from-third".into());
            }
            let mut with_stray = files.clone();
            with_stray.extend(stray_package());
            let stray = if proj.pkgs.iter().any(|p| p.name == "Omega") { Value::Null } else { patch_of(&files, &with_stray) };
            return Case::new(json!({"files": goml::files_to_json(&files), "labels": labels,
                "reversed_imports": patch_of(&files, &rev), "stray": stray}));
        }
        // the defect kind is fixed by the case index (every kind gets the same share);
        // a project without a place for it gets the next kind that fits
        let k0 = (index % projgen::DEFECT_KINDS.len() as u64) as usize;
        for off in 0..projgen::DEFECT_KINDS.len() {
            let which = (k0 + off) % projgen::DEFECT_KINDS.len();
            if let Some(inj) = projgen::inject(&proj, which, &mut d) {
                // known finding: check/build of one package accept a self import; while it is
                // open only the whole-program pipeline (and goml's own discovery) is judged
                let local = inj.local && !(inj.kind == "self-import" && ctx.gated("import:self"));
                let control = inj.control.as_ref().map(|c| patch_of(&files, c)).unwrap_or(Value::Null);
                return Case::new(json!({"files": goml::files_to_json(&files), "labels": labels,
                    "defect": {"kind": inj.kind, "package": proj.pkgs[inj.pkg].name, "local": local, "note": inj.note,
                               "patch": patch_of(&files, &inj.files), "control": control}}));
            }
        }
        Case::new(json!({"files": goml::files_to_json(&files), "labels": labels}))
    }
    fn judge(&self, _phase: &str, case: &Case, ctx: &mut Ctx) -> CaseOut {
        judge_case(&case.input, ctx)
    }
    fn rule(&self) -> String {
        format!(
            "legal: generated legal projects (projgen, 1-5 packages, same item names in several packages): accepted by whole-program compile and by build+link; the Go text is identical when files/directories are created in reverse order, when every file's import lines are reversed, and when an unrelated package directory that nobody imports (same popular item names, impls of a same-named trait) lies next to it; whole and separate programs behave the same under miniGo. defect: one of {} injected defects (kind fixed by the case index): import cycle, self import, import of a missing / of an empty package directory, directory whose files declare another package, one file declaring another package, a reference to an item of a loaded but not imported package (transitive dependency or unrelated) as call, signature type, field type, variant payload, type argument, struct literal, enum constructor, match pattern, trait bound, implemented trait, impl target type, trait call, inherent call; orphan impl (imported trait for imported or builtin type), the same impl twice in one package, the same impl in two further packages. Oracle: never a panic; the whole-program compile (both creation orders) returns Err with >= 1 error diagnostic; for defects inside one package `check` and `build` of that package against the interfaces of a legal build of its dependencies return Err, for graph defects goml's own discovery or build+link fails (for a cycle also: rebuilding the package with the back edge against stale interfaces and linking fails); for not-imported references the control project with the one import added must be accepted (else the case is discarded as a generator mistake). Non-trivial = >= 3 packages and the defect (if any) not in Main; distinct by hash of the case.",
            projgen::DEFECT_KINDS.len()
        )
    }
    fn assumptions(&self) -> Vec<String> {
        vec![
            "A defect counts as reported when the entry point returns Err with an error diagnostic; which message is not judged".into(),
            "`Packages loaded` are those reachable from Main through imports; an unreachable directory is never read".into(),
            "Cross-package duplicate impls that are not also orphans cannot be written (both packages would have to import each other), so the duplicate-impl-sibling-packages defect is always also an orphan impl".into(),
        ]
    }
    fn required_labels(&self, tier: Tier) -> Vec<&'static str> {
        let mut v = vec!["legal", "stray-dir", "control-accepted", "separate-checked", "separate-discover-rejects", "cycle-link-rejected"];
        v.extend([
            "defect:import-cycle",
            "defect:self-import",
            "defect:missing-package",
            "defect:empty-package-dir",
            "defect:dir-name-mismatch",
            "defect:second-file-other-package",
            "defect:not-imported:call",
            "defect:not-imported:sig-type",
            "defect:not-imported:field-type",
            "defect:not-imported:variant-type",
            "defect:not-imported:type-arg",
            "defect:not-imported:struct-lit",
            "defect:not-imported:ctor",
            "defect:not-imported:bound",
            "defect:not-imported:impl-trait",
            "defect:not-imported:impl-type",
            "defect:not-imported:trait-call",
            "defect:not-imported:inherent-call",
            "defect:orphan-impl",
            "defect:orphan-impl-builtin-type",
            "defect:duplicate-impl-same-package",
            "defect:duplicate-impl-sibling-packages",
        ]);
        if tier == Tier::Thorough {
            // needs an imported package whose function returns an enum of a third package: rare
            v.push("defect:not-imported:pattern");
        }
        v
    }
    fn max_discard_fraction(&self) -> f64 {
        0.1
    }
}
