//! C14 — separate compilation is equivalent to whole-program compilation.

use crate::corpus;
use crate::driver::*;
use crate::goml::{self, CompileRes};
use crate::projgen::{self, GoRun};
use crate::sandbox;
use crate::sep;
use crate::util::*;
use serde_json::{json, Value};

pub struct C14;

const MAX_ORDERS: usize = 24;

/// text-level breakages of a legal project (both pipelines must reject or both accept)
const BREAKS: &[(&str, &str)] = &[
    ("int32", "string"),
    ("string", "bool"),
    ("-> int32", "-> bool"),
    ("fn ", "fn x"),
    ("struct ", "struct X"),
    ("enum ", "enum X"),
    ("trait ", "trait X"),
    ("import ", "import X"),
    ("::", "::x"),
    (" + ", " - "),
    ("Self", "Self, int32"),
    ("true", "1"),
    ("(", "(0, "),
];

fn labels_of(case: &Value) -> Vec<String> {
    case["labels"]
        .as_array()
        .map(|a| a.iter().filter_map(|x| x.as_str().map(|s| s.to_string())).collect())
        .unwrap_or_default()
}

pub fn judge_files(files: &[(String, String)], case: &Value, ctx: &mut Ctx) -> CaseOut {
    let mut labels = labels_of(case);
    let key = fnv_str(&goml::files_to_json(files).to_string());
    let nontrivial_shape = {
        let libs = labels.iter().find_map(|l| l.strip_prefix("pkgs:").and_then(|n| n.parse::<usize>().ok())).unwrap_or(1);
        libs >= 3 && labels.iter().any(|l| l == "xgeneric" || l == "xtrait" || l == "xbounded")
    };
    let dir = ctx.scratch.fresh_dir();
    let src = dir.join("src");
    sandbox::materialise(&src, files);
    let main_src = files.iter().find(|(p, _)| p == "main.gom").map(|(_, t)| t.clone()).unwrap_or_default();
    let out = (|| -> Result<bool, (String, String)> {
        // ---- whole program
        let whole = goml::compile_at(src.join("main.gom"), &main_src);
        if let CompileRes::Panic(p) = &whole {
            return Err((format!("C14|panic|{}", p.signature()), format!("whole: panic at {}:{}: {}", p.file, p.line, p.message)));
        }
        labels.push(format!("whole:{}", whole.stage()));
        // ---- separate
        let disc = match sep::discover(&src) {
            Ok(d) => d,
            Err(e) => {
                if e.is_panic() {
                    return Err(projgen::sep_sig("C14", "", &e));
                }
                // the package graph itself is rejected: the whole-program compile must reject too
                labels.push("sep:discover-err".into());
                return match &whole {
                    CompileRes::Ok(..) => Err(("C14|acceptance|whole-ok-sep-err|discover".into(), e.describe())),
                    _ => Ok(false),
                };
            }
        };
        let orders = projgen::all_topo_orders(&disc.imports, MAX_ORDERS);
        labels.push(format!("orders:{}", if orders.len() >= 6 { ">=6".to_string() } else { orders.len().to_string() }));
        let mut linked_texts: Vec<String> = vec![];
        let mut first_err: Option<sep::SepErr> = None;
        for (oi, order) in orders.iter().enumerate() {
            let art = dir.join(format!("art{oi}"));
            let mut res: Result<(), sep::SepErr> = Ok(());
            for pkg in order {
                let pdir = disc.dirs.iter().find(|(p, _)| p == pkg).map(|(_, d)| d.clone()).unwrap();
                // `check` and `build` emit the same interface
                let chk = if oi == 0 { Some(sep::check_one(pkg, &pdir, &art)) } else { None };
                match sep::build_one(pkg, &pdir, &art) {
                    Ok(unit) => {
                        if let Some(chk) = chk {
                            match chk {
                                Ok(i) => {
                                    let a = serde_json::to_string(&i).unwrap_or_default();
                                    let b = serde_json::to_string(&unit.interface).unwrap_or_default();
                                    if a != b {
                                        return Err((
                                            "C14|check-build-interface-differs".into(),
                                            format!("package {pkg}: check emits\n{}\nbuild emits\n{}", truncate_str(&a, 800), truncate_str(&b, 800)),
                                        ));
                                    }
                                }
                                Err(e) => {
                                    if e.is_panic() {
                                        return Err(projgen::sep_sig("C14", "", &e));
                                    }
                                    return Err(("C14|acceptance|check-err-build-ok".into(), format!("package {pkg}: {}", e.describe())));
                                }
                            }
                        }
                        if let Err(e) = sep::write_unit(&art, &unit) {
                            res = Err(e);
                            break;
                        }
                    }
                    Err(e) => {
                        if let Some(Ok(_)) = chk {
                            if !e.is_panic() && matches!(&e, sep::SepErr::Compile(_, ce) if goml::error_stage(ce) == "typer") {
                                return Err(("C14|acceptance|check-ok-build-err".into(), format!("package {pkg}: {}", e.describe())));
                            }
                        }
                        res = Err(e);
                        break;
                    }
                }
            }
            let res = res.and_then(|_| sep::link_dir(&art, order));
            match res {
                Ok(l) => linked_texts.push(l.go_text),
                Err(e) => {
                    if e.is_panic() {
                        return Err(projgen::sep_sig("C14", "", &e));
                    }
                    if first_err.is_none() {
                        first_err = Some(e);
                    }
                }
            }
        }
        // ---- acceptance
        if !linked_texts.is_empty() && first_err.is_some() {
            return Err((
                "C14|acceptance|depends-on-build-order".into(),
                format!("{} of {} orders link, another fails: {}", linked_texts.len(), orders.len(), first_err.unwrap().describe()),
            ));
        }
        match (&whole, &first_err) {
            (CompileRes::Ok(..), Some(e)) => {
                return Err((format!("C14|acceptance|whole-ok-sep-err|{}", projgen::sep_step(e)), e.describe()));
            }
            (CompileRes::Err(e), None) => {
                return Err((
                    format!("C14|acceptance|whole-err-sep-ok|{}", goml::error_stage(e)),
                    format!("whole-program compile: {}", projgen::describe_compile(&whole)),
                ));
            }
            (CompileRes::Err(_), Some(_)) => {
                labels.push("both-reject".into());
                return Ok(false);
            }
            _ => {}
        }
        labels.push("both-accept".into());
        // ---- the linked program does not depend on the build order
        for (i, t) in linked_texts.iter().enumerate().skip(1) {
            if *t != linked_texts[0] {
                return Err((
                    "C14|link-depends-on-build-order".into(),
                    format!("order {:?} and order {:?} link to different Go texts", orders[0], orders[i]),
                ));
            }
        }
        // ---- behaviour
        let CompileRes::Ok(_, wgo) = &whole else { unreachable!() };
        let wr = projgen::run_go(wgo);
        let sr = projgen::run_go(&linked_texts[0]);
        labels.push(format!("go:{}", wr.kind()));
        if !wr.same_behaviour(&sr) {
            let show = |r: &GoRun| match r {
                GoRun::Ran { stdout, end } => format!("ends {end}, prints:\n{}", truncate_str(&String::from_utf8_lossy(stdout), 800)),
                GoRun::Unsupported(u) => format!("outside miniGo: {u}"),
                GoRun::Rejected(m) => format!("Go rejected: {m}"),
            };
            let what = match (&wr, &sr) {
                (GoRun::Ran { .. }, GoRun::Ran { .. }) => "C14|behaviour".to_string(),
                _ => format!("C14|behaviour|{}-vs-{}", wr.kind(), sr.kind()),
            };
            return Err((what, format!("whole-program:\n{}\nseparately compiled and linked:\n{}", show(&wr), show(&sr))));
        }
        Ok(matches!(wr, GoRun::Ran { .. }))
    })();
    ctx.scratch.remove(&dir);
    match out {
        Ok(ran) => CaseOut::pass(nontrivial_shape && ran, key).labelled(labels),
        Err((sig, detail)) => CaseOut::fail(sig, detail, key).labelled(labels),
    }
}

impl Check for C14 {
    fn id(&self) -> &'static str {
        "C14"
    }
    fn phases(&self, tier: Tier) -> Vec<PhaseSpec> {
        vec![
            PhaseSpec { name: "corpus", cases: corpus::project_cases().len() as u64, max_bytes: 0, exhaustive: true },
            PhaseSpec { name: "gen", cases: tier.pick(6_000, 30_000), max_bytes: 1500, exhaustive: false },
            PhaseSpec { name: "broken", cases: tier.pick(2_000, 10_000), max_bytes: 1500, exhaustive: false },
            // the isolation / coherence defects of C16: here only the agreement of the two pipelines is judged
            PhaseSpec { name: "defect", cases: tier.pick(3_000, 15_000), max_bytes: 1600, exhaustive: false },
        ]
    }
    fn make(&self, phase: &str, index: u64, bytes: &[u8], ctx: &mut Ctx) -> Case {
        if phase == "corpus" {
            let ps = corpus::project_cases();
            let p = &ps[index as usize % ps.len().max(1)];
            return Case::new(json!({"files": goml::files_to_json(&p.files), "labels": ["corpus", "pkgs:3", "xtrait"], "name": p.name}));
        }
        let mut d = Dec::new(bytes);
        let proj = projgen::gen_project(&mut d, ctx);
        let mut labels = proj.features();
        let mut files = proj.render();
        if phase == "gen" && d.chance(70) {
            // float literals with many digits: the artifacts carry them as JSON numbers, and the
            // linked program must still contain exactly the value that was written
            if let Some((_, main)) = files.iter_mut().find(|(p, _)| p == "main.gom") {
                let lines: Vec<&str> = main.lines().collect();
                if let Some(mi) = lines.iter().position(|l| l.starts_with("fn main(") && l.trim_end().ends_with('{')) {
                    let mut extra = String::new();
                    for _ in 0..(1 + d.below(3)) {
                        let digits = 12 + d.below(6);
                        let mut lit = format!("{}.", d.below(1000));
                        for _ in 0..digits {
                            lit.push((b'0' + d.below(10) as u8) as char);
                        }
                        extra.push_str(&format!("    let _ = string_println(float64_to_string({lit}));\n"));
                    }
                    let mut out = String::new();
                    for (i, l) in lines.iter().enumerate() {
                        out.push_str(l);
                        out.push('\n');
                        if i == mi {
                            out.push_str(&extra);
                        }
                    }
                    *main = out;
                    labels.push("float-literals".into());
                }
            }
        }
        if phase == "gen" && d.chance(90) {
            // trait objects across packages: a marker trait without methods and a trait with one method,
            // both implemented in a library for a library type; the entry package coerces a value of that
            // type to `dyn` (the impls must have reached it through the interface file just as through the
            // whole-program environment)
            let main_text = files.iter().find(|(p, _)| p == "main.gom").map(|(_, t)| t.clone()).unwrap_or_default();
            let libs: Vec<String> = main_text
                .lines()
                .filter_map(|l| l.strip_prefix("import "))
                .map(|l| l.trim().to_string())
                .filter(|l| files.iter().any(|(p, _)| p.starts_with(&format!("{l}/"))))
                .collect();
            if !libs.is_empty() {
                let lib = libs[d.below(libs.len())].clone();
                let marker_only = d.chance(80);
                let lib_text = "trait Marker14 {}\n\ntrait Named14 {\n    fn name14(Self) -> string;\n}\n\nstruct Tag14 {\n    n: int32,\n}\n\nimpl Marker14 for Tag14 {}\n\nimpl Named14 for Tag14 {\n    fn name14(self: Tag14) -> string {\n        \"tag\" + int32_to_string(self.n)\n    }\n}\n\nfn mk_tag14(n: int32) -> Tag14 {\n    Tag14 { n: n }\n}\n";
                if let Some((_, t)) = files.iter_mut().find(|(p, _)| p.starts_with(&format!("{lib}/"))) {
                    t.push('\n');
                    t.push_str(lib_text);
                }
                if let Some((_, main)) = files.iter_mut().find(|(p, _)| p == "main.gom") {
                    let lines: Vec<&str> = main.lines().collect();
                    if let Some(mi) = lines.iter().position(|l| l.starts_with("fn main(") && l.trim_end().ends_with('{')) {
                        let helpers = format!(
                            "fn use_marker14(m: dyn {lib}::Marker14) -> int32 {{\n    14\n}}\n\nfn use_named14(m: dyn {lib}::Named14) -> string {{\n    {lib}::Named14::name14(m)\n}}\n\n"
                        );
                        let mut calls = format!("    let t14: {lib}::Tag14 = {lib}::mk_tag14(3);\n    let _ = string_println(int32_to_string(use_marker14(t14)));\n");
                        if !marker_only {
                            calls.push_str("    let _ = string_println(use_named14(t14));\n");
                        }
                        let mut out = String::new();
                        for (i, l) in lines.iter().enumerate() {
                            if i == mi {
                                out.push_str(&helpers);
                            }
                            out.push_str(l);
                            out.push('\n');
                            if i == mi {
                                out.push_str(&calls);
                            }
                        }
                        *main = out;
                        labels.push("dyn-across-packages".into());
                        labels.push("marker-trait".into());
                    }
                }
            }
        }
        if phase == "defect" {
            let k0 = (index % projgen::DEFECT_KINDS.len() as u64) as usize;
            for off in 0..projgen::DEFECT_KINDS.len() {
                let which = (k0 + off) % projgen::DEFECT_KINDS.len();
                if let Some(inj) = projgen::inject(&proj, which, &mut d) {
                    if inj.kind == "self-import" && ctx.gated("import:self") {
                        continue;
                    }
                    labels.push(format!("defect:{}", inj.kind));
                    files = inj.files;
                    break;
                }
            }
        }
        if phase == "broken" && d.chance(40) {
            // an error of the compile stage (after type checking): an integer match without a catch-all
            let fi = d.below(files.len());
            files[fi].1.push_str("\nfn zz_partial(n: int32) -> int32 {\n    match n {\n        0 => 1,\n        1 => 2,\n    }\n}\n");
            labels.push("break:compile-stage".into());
            if fi > 0 && files[fi].0.contains('/') {
                labels.push("break-in-lib".into());
            }
        } else if phase == "broken" {
            // one text replacement in one file
            let fi = d.below(files.len());
            let (from, to) = BREAKS[d.below(BREAKS.len())];
            let mut occ: Vec<usize> = files[fi].1.match_indices(from).map(|(i, _)| i).collect();
            if ctx.gated("main:missing-main") {
                // renaming `main` away: whole-program compile accepts a Main without main (known finding)
                occ.retain(|i| !files[fi].1[*i..].starts_with("fn main("));
            }
            if !occ.is_empty() {
                let at = occ[d.below(occ.len())];
                files[fi].1.replace_range(at..at + from.len(), to);
                labels.push(format!("break:{from}"));
                if fi > 0 && files[fi].0.contains('/') {
                    labels.push("break-in-lib".into());
                }
            }
        }
        Case::new(json!({"files": goml::files_to_json(&files), "labels": labels}))
    }
    fn judge(&self, _phase: &str, case: &Case, ctx: &mut Ctx) -> CaseOut {
        let files = goml::files_from_json(&case.input["files"]);
        if files.is_empty() {
            return CaseOut::discard("no-files");
        }
        judge_files(&files, &case.input, ctx)
    }
    fn rule(&self) -> String {
        format!(
            "corpus: the {} sample projects; gen: generated legal projects of 1-5 packages (projgen: DAG of Main + libs, structs, plain and generic enums, traits with impls in the trait's or the type's package, inherent impls, plain, generic and trait-bounded functions called across packages, several files per package); (libraries may consist of declarations only; a quarter of the projects print float literals of 12-17 digits from main); broken: the same with one text replacement (type, keyword, path, operator) in one file or an appended function with a compile-stage error (integer match without catch-all); defect: the same with one of the isolation/coherence defects of C16 injected. Per project: whole-program compile vs, for EVERY topological order of the discovered package graph (at most {MAX_ORDERS}, thinned evenly beyond), build_package of each package against the interface files written so far, artifacts written as JSON files, read_core of every core file, link_cores. Oracle: no panic; all orders agree on acceptance; whole-program accepted <=> separate accepted; in the first order check_package's interface JSON == build_package's interface JSON for every package (and check accepts iff build's typer accepts); linked Go text identical for all orders; stdout and end state of the two Go programs under miniGo equal (Go rejected on both sides is left to C02). Non-trivial = >= 2 library packages and a cross-package generic or trait call and both programs ran; distinct by hash of the files.",
            corpus::project_cases().len()
        )
    }
    fn assumptions(&self) -> Vec<String> {
        vec![
            "miniGo stands for the Go toolchain (calibrated in C01/C09); both programs run under the same interpreter, so an interpreter defect affects both sides equally".into(),
            "In-process separate::{check,build}_package / read_core / link_cores with artifacts round-tripped through files stand for `goml check/build/link`".into(),
            "The topological orders are those of the import graph goml itself discovers".into(),
        ]
    }
    fn required_labels(&self, _tier: Tier) -> Vec<&'static str> {
        vec!["both-accept", "both-reject", "xgeneric", "xtrait", "xbounded", "impl-in-type-pkg", "orders:>=6", "multi-file", "shape:diamond", "shape:chain", "break-in-lib", "go:ran"]
    }
}
