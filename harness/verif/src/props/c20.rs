//! C20 — editor queries are crash-free and agree with the compiler.
//!
//! Phases: `crash` (hover / dot / colon-colon completion on valid, edited and
//! broken texts at positions inside and outside the text), `hover` (the type
//! reported on every local-variable occurrence of a generated well-typed
//! program equals the generator's type), `completion` (every item offered
//! after `v.` / `Name::` exists when it is inserted).

use crate::corpus;
use crate::driver::*;
use crate::gen::build::{gen_program, GenCfg};
use crate::gen::model::*;
use crate::gen::render::{render_ty, render_with_marks};
use crate::goml::{self, CompileRes};
use crate::sandbox::{self, PanicInfo};
use crate::textgen;
use crate::util::*;
use compiler::query;
use serde_json::{json, Value};
use std::path::{Path, PathBuf};

pub struct C20;

/// hover at a position whose byte offset lies beyond the end of the text
pub const GATE_HOVER_OUTSIDE: &str = "query:hover-outside-text";
/// a text with an item keyword (fn / enum / struct / trait) whose name is missing
pub const GATE_UNNAMED_ITEM: &str = "query:unnamed-item";
/// completion at a position inside a multi-byte character
pub const GATE_COMPLETION_MIDCHAR: &str = "query:completion-inside-char";
/// `v.to_string` offered although v's type is still a type variable when methods are looked up
pub const GATE_METHOD_UNRESOLVED: &str = "completion:method-on-unresolved-receiver";
/// fields of S offered for a receiver of type Ref[S]
pub const GATE_FIELD_THROUGH_REF: &str = "completion:field-through-ref";

fn qpath(ctx: &Ctx) -> PathBuf {
    ctx.scratch.empty_dir().join("main.gom")
}

/// signature of a panic: site file (registry hash removed), enclosing function, message head
pub fn panic_sig(p: &PanicInfo) -> String {
    let s = p.signature();
    if let Some(i) = s.find("/registry/src/") {
        let rest = &s[i + "/registry/src/".len()..];
        if let Some(j) = rest.find('/') {
            return rest[j + 1..].to_string();
        }
    }
    s
}

// ---------------------------------------------------------------------------
// positions

fn line_starts(text: &str) -> Vec<usize> {
    let mut v = vec![0];
    for (i, b) in text.bytes().enumerate() {
        if b == b'\n' {
            v.push(i + 1);
        }
    }
    v
}

/// (line, col) of a byte offset in the convention of query_test.rs: 0-based
/// line, 0-based column in UTF-8 bytes from the line start
pub fn line_col(text: &str, off: usize) -> (u32, u32) {
    let starts = line_starts(text);
    let line = match starts.binary_search(&off) {
        Ok(i) => i,
        Err(i) => i - 1,
    };
    (line as u32, (off - starts[line]) as u32)
}

/// byte offset the queries compute for (line, col); None = line beyond the text
fn offset_of(text: &str, line: u32, col: u32) -> Option<u64> {
    let starts = line_starts(text);
    starts.get(line as usize).map(|s| *s as u64 + col as u64)
}

// ---------------------------------------------------------------------------
// running queries

#[derive(Clone, Copy, PartialEq, Eq, Debug)]
enum Q {
    Hover,
    Dot,
    Colon,
    WasmHover,
    WasmDot,
    WasmColon,
}

const CORE_Q: [Q; 3] = [Q::Hover, Q::Dot, Q::Colon];
const WASM_Q: [Q; 3] = [Q::WasmHover, Q::WasmDot, Q::WasmColon];

impl Q {
    fn name(self) -> &'static str {
        match self {
            Q::Hover => "hover_type",
            Q::Dot => "dot_completions",
            Q::Colon => "colon_colon_completions",
            Q::WasmHover => "wasm hover",
            Q::WasmDot => "wasm dot_completions",
            Q::WasmColon => "wasm colon_colon_completions",
        }
    }
    fn is_hover(self) -> bool {
        matches!(self, Q::Hover | Q::WasmHover)
    }
}

/// Ok(answered?) or the panic
fn run_query(q: Q, path: &Path, text: &str, line: u32, col: u32) -> Result<bool, PanicInfo> {
    sandbox::cli(|| match q {
        Q::Hover => query::hover_type(path, text, line, col).is_ok(),
        Q::Dot => query::dot_completions(path, text, line, col).map_or(false, |v| !v.is_empty()),
        Q::Colon => query::colon_colon_completions(path, text, line, col).map_or(false, |v| !v.is_empty()),
        Q::WasmHover => !wasm_app::hover(text, line, col).starts_with("error"),
        Q::WasmDot => wasm_app::dot_completions(text, line, col) != "[]",
        Q::WasmColon => wasm_app::colon_colon_completions(text, line, col) != "[]",
    })
}

// ---------------------------------------------------------------------------
// phase crash: texts

fn lex_ranges(text: &str) -> Vec<(usize, usize, bool)> {
    // (start, end, is_trivia)
    match sandbox::guarded(|| {
        lexer::lex(text)
            .iter()
            .map(|t| {
                let s: usize = t.range.start().into();
                let e: usize = t.range.end().into();
                (s, e, t.text.trim().is_empty() || t.text.starts_with("//"))
            })
            .collect::<Vec<_>>()
    }) {
        Ok(v) => v,
        Err(_) => vec![],
    }
}

fn small_cfg(nodes: u32) -> GenCfg {
    let mut c = GenCfg::full(nodes);
    c.fails = false;
    c.ticks = false;
    c
}

fn base_text(d: &mut Dec, ctx: &mut Ctx) -> (String, &'static str) {
    match d.below(4) {
        0 => {
            let nodes = 12 + d.below(30) as u32;
            let p = gen_program(d, small_cfg(nodes), ctx);
            (crate::gen::render::render(&p), "generated")
        }
        1 | 2 => {
            // a corpus file, cut at line starts when it is long
            let srcs = corpus::sources();
            let s = &srcs[d.below(srcs.len())];
            if s.len() <= 1400 {
                (s.clone(), "corpus")
            } else {
                let starts = line_starts(s);
                let a = starts[d.below(starts.len())];
                let mut b = (a + 300 + d.below(900)).min(s.len());
                while !s.is_char_boundary(b) {
                    b -= 1;
                }
                (s[a..b].to_string(), "corpus-window")
            }
        }
        _ => (textgen::mutate_corpus(d, corpus::sources()), "corpus-mutated"),
    }
}

const INSERTS: [&str; 14] = ["\"", "é", "😀", "\\\\", "x.", "::", "Self::", ".", "{", "}", "(", "let ", "\u{feff}", "\r"];

fn edit_text(d: &mut Dec, text: String) -> (String, &'static str) {
    let toks = lex_ranges(&text);
    let real: Vec<(usize, usize)> = toks.iter().filter(|t| !t.2).map(|t| (t.0, t.1)).collect();
    if real.is_empty() {
        return (text, "none");
    }
    let pick = |d: &mut Dec| real[d.below(real.len())];
    match d.below(9) {
        0 => (text, "none"),
        1 => {
            // what the editor sees while the program is being typed
            let (s, _) = pick(d);
            (text[..s].to_string(), "prefix")
        }
        2 => {
            let (s, e) = pick(d);
            // ... in the middle of a token
            let mut cut = s + d.below(e - s + 1);
            while !text.is_char_boundary(cut) {
                cut -= 1;
            }
            (text[..cut].to_string(), "prefix-midtoken")
        }
        3 => {
            let (s, e) = pick(d);
            (format!("{}{}", &text[..s], &text[e..]), "delete-token")
        }
        4 => {
            let (s, _) = pick(d);
            let ins = if d.bool() { d.pick(&INSERTS) } else { d.pick(textgen::TOKENS) };
            (format!("{}{}{}", &text[..s], ins, &text[s..]), "insert-token")
        }
        5 => {
            // unterminated string: drop the closing quote of a string literal, or add an opening one
            if let Some((_, e)) = real.iter().copied().filter(|(s, e)| text[*s..*e].starts_with('"') && *e - *s >= 2).nth(0) {
                (format!("{}{}", &text[..e - 1], &text[e..]), "unterminated-string")
            } else {
                let (s, _) = pick(d);
                (format!("{}\"{}", &text[..s], &text[s..]), "unterminated-string")
            }
        }
        6 => {
            // dropped brace / parenthesis
            let braces: Vec<(usize, usize)> = real.iter().copied().filter(|(s, e)| matches!(&text[*s..*e], "{" | "}" | "(" | ")" | "[" | "]")).collect();
            if braces.is_empty() {
                return (text, "none");
            }
            let (s, e) = braces[d.below(braces.len())];
            (format!("{}{}", &text[..s], &text[e..]), "dropped-brace")
        }
        7 => {
            // a member access being typed: `<ident>.` or `<Ident>::`
            let idents: Vec<(usize, usize)> = real.iter().copied().filter(|(s, e)| text[*s..*e].chars().all(|c| c.is_ascii_alphanumeric() || c == '_') && text[*s..*e].chars().next().map_or(false, |c| c.is_ascii_alphabetic())).collect();
            if idents.is_empty() {
                return (text, "none");
            }
            let (s, e) = idents[d.below(idents.len())];
            let upper = text[s..e].chars().next().map_or(false, |c| c.is_ascii_uppercase());
            let ins = if upper { "::" } else { "." };
            (format!("{}{}{}", &text[..e], ins, &text[e..]), "member-access")
        }
        _ => {
            // non-ASCII text inside a string / comment / identifier position
            let (s, _) = pick(d);
            let ins = d.pick(&["é", "😀", "// ü\n", "\"ñ\"", "\u{2028}"]);
            (format!("{}{}{}", &text[..s], ins, &text[s..]), "insert-unicode")
        }
    }
}

fn positions_for(d: &mut Dec, text: &str) -> Vec<(u32, u32, &'static str)> {
    let starts = line_starts(text);
    let nl = starts.len();
    let line_len = |l: usize| -> usize {
        let s = starts[l];
        let e = if l + 1 < nl { starts[l + 1] - 1 } else { text.len() };
        e - s
    };
    let mut out: Vec<(u32, u32, &'static str)> = vec![];
    if d.chance(40) {
        // every column of one line, two columns beyond its end included
        let l = d.below(nl);
        let n = line_len(l).min(44);
        for c in 0..=n + 2 {
            out.push((l as u32, c as u32, if c > line_len(l) { "col-beyond-line" } else { "sweep" }));
        }
        return out;
    }
    let n = 6 + d.below(8);
    // byte offsets just after "." and "::" and inside multi-byte characters
    let triggers: Vec<usize> = text.match_indices('.').map(|(i, _)| i + 1).chain(text.match_indices("::").map(|(i, _)| i + 2)).collect();
    let multibyte: Vec<usize> = text.char_indices().filter(|(_, c)| c.len_utf8() > 1).map(|(i, _)| i + 1).collect();
    for _ in 0..n {
        let l = d.below(nl);
        let len = line_len(l);
        match d.below(10) {
            0 | 1 | 2 => out.push((l as u32, d.below(len + 1) as u32, "inside")),
            3 => out.push((l as u32, len as u32, "line-end")),
            4 => out.push((l as u32, (len + 1 + d.below(5)) as u32, "col-beyond-line")),
            5 => {
                let extra = d.below(3);
                out.push(((nl + extra) as u32, d.below(3) as u32, "line-beyond-text"))
            }
            6 => out.push(d.pick(&[(0u32, 0u32, "origin"), (u32::MAX, 0, "huge"), (0, u32::MAX, "huge"), (u32::MAX, u32::MAX, "huge"), (1 << 31, 1 << 31, "huge"), (0, 65536, "huge"), (65536, 0, "huge")])),
            7 => {
                if multibyte.is_empty() {
                    out.push(((nl - 1) as u32, line_len(nl - 1) as u32, "text-end"))
                } else {
                    let off = multibyte[d.below(multibyte.len())];
                    let (pl, pc) = line_col(text, off);
                    out.push((pl, pc, "inside-char"))
                }
            }
            8 => {
                if triggers.is_empty() {
                    out.push((l as u32, len as u32, "line-end"))
                } else {
                    let off = triggers[d.below(triggers.len())];
                    let (pl, pc) = line_col(text, off);
                    out.push((pl, pc, "after-trigger"))
                }
            }
            _ => out.push(((nl - 1) as u32, (line_len(nl - 1) + d.below(2)) as u32, "text-end")),
        }
    }
    out
}

/// an item keyword that is not followed by an identifier
fn has_unnamed_item(text: &str) -> bool {
    let toks: Vec<(usize, usize)> = lex_ranges(text).iter().filter(|t| !t.2).map(|t| (t.0, t.1)).collect();
    for (i, (s, e)) in toks.iter().enumerate() {
        if matches!(&text[*s..*e], "fn" | "enum" | "struct" | "trait") {
            let next = toks.get(i + 1).map(|(a, b)| &text[*a..*b]);
            if !next.map_or(false, is_ident) {
                return true;
            }
        }
    }
    false
}

fn make_crash(d: &mut Dec, ctx: &mut Ctx) -> Value {
    let (base, src_kind) = base_text(d, ctx);
    let (mut text, mut edit) = edit_text(d, base.clone());
    if has_unnamed_item(&text) && ctx.gated(GATE_UNNAMED_ITEM) {
        // known to panic every query (open finding): keep the unedited text unless it has the shape too
        if has_unnamed_item(&base) {
            text = "fn main() {\n    ()\n}\n".to_string();
        } else {
            text = base;
        }
        edit = "none";
    }
    let pos = positions_for(d, &text);
    let wasm = d.chance(64);
    json!({"kind":"crash","text":text,"source":src_kind,"edit":edit,"wasm":wasm,
           "positions": pos.iter().map(|(l, c, k)| json!([l, c, k])).collect::<Vec<_>>()})
}

/// one (text, position) through the three editor queries (libFuzzer target `fz_query`)
pub fn fuzz_query(ctx: &mut Ctx, text: &str, line: u32, col: u32) -> Option<(String, String)> {
    let path = qpath(ctx);
    let off = offset_of(text, line, col);
    let outside = off.map_or(false, |o| o > text.len() as u64);
    let midchar = off.map_or(false, |o| o <= text.len() as u64 && !text.is_char_boundary(o as usize));
    for q in CORE_Q.iter().copied() {
        if outside && q.is_hover() && ctx.gated(GATE_HOVER_OUTSIDE) {
            continue;
        }
        if midchar && !q.is_hover() && ctx.gated(GATE_COMPLETION_MIDCHAR) {
            continue;
        }
        if let Err(pn) = run_query(q, &path, text, line, col) {
            return Some((
                format!("C20|panic|{}", panic_sig(&pn)),
                format!("{}(line {line}, col {col}) panics: {} ({}:{})\n--- text\n{}", q.name(), pn.message, pn.file, pn.line, truncate_str(text, 1500)),
            ));
        }
    }
    None
}

fn judge_crash(input: &Value, ctx: &mut Ctx) -> CaseOut {
    let text = input["text"].as_str().unwrap_or("");
    let path = qpath(ctx);
    let wasm = input["wasm"].as_bool().unwrap_or(false);
    let positions = input["positions"].as_array().cloned().unwrap_or_default();
    let mut labels = vec![format!("source:{}", input["source"].as_str().unwrap_or("?")), format!("edit:{}", input["edit"].as_str().unwrap_or("?"))];
    let parses = sandbox::cli(|| !parser::parse(&path, text).has_errors()).unwrap_or(false);
    labels.push(if parses { "text:parses".into() } else { "text:parse-errors".into() });
    let mut answered = 0u64;
    let mut calls = 0u64;
    let mut off_token = false;
    let tok_starts: std::collections::HashSet<usize> = lex_ranges(text).iter().map(|t| t.0).collect();
    let mut first_fail: Option<(String, String)> = None;
    for p in &positions {
        let line = p[0].as_u64().unwrap_or(0) as u32;
        let col = p[1].as_u64().unwrap_or(0) as u32;
        let kind = p[2].as_str().unwrap_or("?");
        let off = offset_of(text, line, col);
        let outside = off.map_or(false, |o| o > text.len() as u64);
        let midchar = off.map_or(false, |o| o <= text.len() as u64 && !text.is_char_boundary(o as usize));
        labels.push(format!("pos:{kind}"));
        if outside {
            labels.push("pos:offset-outside-text".into());
        }
        if midchar {
            labels.push("pos:mid-char".into());
        }
        if off.map_or(true, |o| !tok_starts.contains(&(o as usize))) {
            off_token = true;
        }
        let qs: Vec<Q> = if wasm { CORE_Q.iter().chain(WASM_Q.iter()).copied().collect() } else { CORE_Q.to_vec() };
        for q in qs {
            if outside && q.is_hover() && ctx.gated(GATE_HOVER_OUTSIDE) {
                continue;
            }
            if midchar && !q.is_hover() && ctx.gated(GATE_COMPLETION_MIDCHAR) {
                continue;
            }
            calls += 1;
            match run_query(q, &path, text, line, col) {
                Ok(true) => answered += 1,
                Ok(false) => {}
                Err(pn) => {
                    if first_fail.is_none() {
                        first_fail = Some((
                            format!("C20|panic|{}", panic_sig(&pn)),
                            format!("{}(line {line}, col {col}) panics: {} ({}:{})\nposition kind: {kind}; offset {:?} in a text of {} bytes\n--- text\n{}", q.name(), pn.message, pn.file, pn.line, off, text.len(), truncate_str(text, 1500)),
                        ));
                    }
                }
            }
        }
    }
    let key = fnv_str(&format!("{}|{}", text, input["positions"]));
    if let Some((sig, detail)) = first_fail {
        return CaseOut::fail(sig, detail, key);
    }
    if calls == 0 {
        return CaseOut::discard("no-calls");
    }
    if answered > 0 {
        labels.push("query:answered".into());
    }
    labels.sort();
    labels.dedup();
    CaseOut::pass(!parses || off_token, key).labelled(labels)
}

// ---------------------------------------------------------------------------
// phase hover

/// generator type -> the text hover_type prints (tast::Ty::to_pretty): the
/// notation coincides with goml's own type syntax
fn hover_text(p: &GProg, t: &Ty) -> Option<String> {
    fn covered(t: &Ty) -> bool {
        match t {
            Ty::Unit | Ty::Bool | Ty::Int(_) | Ty::Float(_) | Ty::Str | Ty::Param(_) => true,
            Ty::Tuple(ts) => ts.iter().all(covered),
            Ty::Array(t, _) | Ty::Vec(t) | Ty::Ref(t) => covered(t),
            Ty::Fn(ps, r) => ps.iter().all(covered) && covered(r),
            Ty::Adt(_, a) => a.iter().all(covered),
            Ty::Dyn(_) => true,
        }
    }
    if covered(t) {
        Some(render_ty(p, t))
    } else {
        None
    }
}

/// programs whose types carry #[derive(ToString)] / #[derive(ToJson)]: the generated methods exist
/// for the editor as they do for the compiler (binders typed only through a call of one of them)
fn derive_program(d: &mut Dec) -> (String, Vec<(u32, u32, String, String, bool)>) {
    let both = d.bool();
    let json = both || d.bool();
    let string = both || !json;
    let attrs = match (string, json, d.bool()) {
        (true, true, true) => "#[derive(ToString, ToJson)]\n".to_string(),
        (true, true, false) => "#[derive(ToString)]\n#[derive(ToJson)]\n".to_string(),
        (true, false, _) => "#[derive(ToString)]\n".to_string(),
        _ => "#[derive(ToJson)]\n".to_string(),
    };
    let is_enum = d.bool();
    let tname = ["Point", "Shape", "Rec"][d.below(3)];
    let mut t = String::new();
    let value = if is_enum {
        t.push_str(&format!("{attrs}enum {tname} {{\n    Dot,\n    At(int32, int32),\n}}\n\n"));
        format!("{tname}::At(1, 2)")
    } else {
        t.push_str(&format!("{attrs}struct {tname} {{\n    x: int32,\n    y: int32,\n}}\n\n"));
        format!("{tname} {{ x: 1, y: 2 }}")
    };
    t.push_str("fn main() {\n");
    let mut marks: Vec<(u32, u32, String, String, bool)> = vec![];
    let mut line = t.matches('\n').count() as u32;
    let mut push = |t: &mut String, marks: &mut Vec<(u32, u32, String, String, bool)>, text: String, ms: Vec<(&str, String, bool)>| {
        for (name, ty, binder) in ms {
            if let Some(col) = text.find(name) {
                marks.push((line, col as u32, name.to_string(), ty, binder));
            }
        }
        t.push_str(&text);
        t.push('\n');
        line += 1;
    };
    push(&mut t, &mut marks, format!("    let pv: {tname} = {value};"), vec![("pv", tname.to_string(), true)]);
    if string {
        push(&mut t, &mut marks, "    let text = pv.to_string();".to_string(), vec![("text", "string".into(), true), ("to_string", format!("({tname}) -> string"), false)]);
        push(&mut t, &mut marks, "    let pair = (text, 7);".to_string(), vec![("pair", "(string, int32)".into(), true)]);
    }
    if json {
        push(&mut t, &mut marks, "    let js = pv.to_json();".to_string(), vec![("js", "string".into(), true), ("to_json", format!("({tname}) -> string"), false)]);
        push(&mut t, &mut marks, "    let arr = [js, js];".to_string(), vec![("arr", "[string; 2]".into(), true)]);
    }
    t.push_str("    ()\n}\n");
    (t, marks)
}

fn make_hover(d: &mut Dec, ctx: &mut Ctx, tier: Tier) -> Value {
    if d.chance(14) {
        let (text, ms) = derive_program(d);
        let marks: Vec<Value> = ms
            .iter()
            .map(|(line, col, name, ty, binder)| {
                let at = if d.bool() { "start" } else { "middle" };
                let c = if at == "start" { *col } else { col + (name.len() / 2) as u32 };
                json!({"line":line,"col":c,"at":at,"name":name,"binder":binder,"expect":ty,"nested":false,"shadowed":false,"method":!*binder,"derive":true})
            })
            .collect();
        return json!({"kind":"hover","text":text,"marks":marks,"literals":[]});
    }
    if d.chance(40) {
        // method names in calls on receivers of generic instances: the type at that call
        let (text, ms) = method_program_ex(d, true);
        let marks: Vec<Value> = ms
            .iter()
            .map(|(line, col, name, ty)| {
                let at = if d.bool() { "start" } else { "middle" };
                let c = if at == "start" { *col } else { col + (name.len() / 2) as u32 };
                json!({"line":line,"col":c,"at":at,"name":name,"binder":false,"expect":ty,"nested":false,"shadowed":false,"method":true})
            })
            .collect();
        return json!({"kind":"hover","text":text,"marks":marks,"literals":[]});
    }
    let nodes = 20 + d.below(tier.pick(40, 90) as usize) as u32;
    let mut cfg = small_cfg(nodes);
    cfg.ticks = d.bool();
    let p = gen_program(d, cfg, ctx);
    let (text, marks) = render_with_marks(&p);
    // spellings bound more than once
    let mut count: std::collections::HashMap<&str, std::collections::HashSet<VarId>> = Default::default();
    for m in &marks {
        count.entry(p.vars[m.var as usize].spelling.as_str()).or_default().insert(m.var);
    }
    let starts = line_starts(&text);
    let mut out = vec![];
    let step = (marks.len() / 60).max(1);
    for (i, m) in marks.iter().enumerate() {
        if i % step != 0 {
            continue;
        }
        let v = &p.vars[m.var as usize];
        let (line, col) = line_col(&text, m.start);
        let ls = starts[line as usize];
        let indent = text[ls..].bytes().take_while(|b| *b == b' ').count();
        let where_ = match d.below(4) {
            0 => "end",
            1 if m.end - m.start > 1 => "middle",
            _ => "start",
        };
        let c = match where_ {
            "end" => col + (m.end - m.start) as u32,
            "middle" => col + ((m.end - m.start) / 2) as u32,
            _ => col,
        };
        out.push(json!({"line":line,"col":c,"at":where_,"name":v.spelling,"binder":m.binder,
            "expect":hover_text(&p, &v.ty),"nested":indent > 4,"shadowed":count.get(v.spelling.as_str()).map_or(0, |s| s.len()) > 1}));
    }
    // literal tokens whose type is fixed by their spelling
    let mut lits = vec![];
    let toks = sandbox::guarded(|| {
        lexer::lex(&text)
            .iter()
            .map(|t| {
                let s: usize = t.range.start().into();
                (s, t.text.to_string())
            })
            .collect::<Vec<_>>()
    })
    .unwrap_or_default();
    for (start, tt) in &toks {
        let expect = if tt.starts_with('"') && tt.len() >= 2 {
            Some("string")
        } else if tt == "true" || tt == "false" {
            Some("bool")
        } else if tt.chars().next().map_or(false, |c| c.is_ascii_digit()) {
            ["i8", "i16", "i32", "i64", "u8", "u16", "u32", "u64"]
                .iter()
                .zip(["int8", "int16", "int32", "int64", "uint8", "uint16", "uint32", "uint64"])
                .find(|(suf, _)| tt.ends_with(*suf) && tt[..tt.len() - suf.len()].chars().all(|c| c.is_ascii_digit()))
                .map(|(_, n)| n)
        } else {
            None
        };
        if let Some(e) = expect {
            if lits.len() < 30 && d.chance(128) {
                let (line, col) = line_col(&text, *start + if tt.len() > 1 { 1 } else { 0 });
                lits.push(json!({"line":line,"col":col,"expect":e,"token":tt}));
            }
        }
    }
    json!({"kind":"hover","text":text,"marks":out,"literals":lits})
}

fn judge_hover(input: &Value, ctx: &mut Ctx) -> CaseOut {
    let text = input["text"].as_str().unwrap_or("");
    let key = fnv_str(text);
    let marks = input["marks"].as_array().cloned().unwrap_or_default();
    if marks.is_empty() {
        return CaseOut::discard("no-marks");
    }
    match goml::compile_single(ctx, text) {
        CompileRes::Ok(..) => {}
        other => return CaseOut::discard(&format!("not-compiled:{}", other.stage())),
    }
    let path = qpath(ctx);
    let mut labels: Vec<String> = vec![];
    let mut nontrivial = false;
    let mut judged = 0;
    for m in &marks {
        let line = m["line"].as_u64().unwrap_or(0) as u32;
        let col = m["col"].as_u64().unwrap_or(0) as u32;
        let name = m["name"].as_str().unwrap_or("?");
        let binder = m["binder"].as_bool().unwrap_or(false);
        let Some(expect) = m["expect"].as_str() else {
            labels.push("mark:type-not-covered".into());
            continue;
        };
        let r = match sandbox::cli(|| query::hover_type(&path, text, line, col)) {
            Ok(r) => r,
            Err(pn) => {
                return CaseOut::fail(
                    format!("C20|panic|{}", panic_sig(&pn)),
                    format!("hover_type(line {line}, col {col}) on `{name}` panics: {} ({}:{})\n--- text\n{text}", pn.message, pn.file, pn.line),
                    key,
                )
            }
        };
        judged += 1;
        let what = format!("{} of `{name}` at line {line}, col {col} ({})", if binder { "binder" } else { "use" }, m["at"].as_str().unwrap_or("start"));
        match r {
            Ok(t) if t == expect => {}
            Ok(t) => {
                return CaseOut::fail(
                    format!("C20|hover|wrong-type|{}", if binder { "binder" } else { "use" }),
                    format!("hover on the {what} reports {t:?}; the variable has type {expect:?}\n--- text\n{text}"),
                    key,
                )
            }
            Err(e) => {
                return CaseOut::fail(
                    format!("C20|hover|no-answer|{}", if binder { "binder" } else { "use" }),
                    format!("hover on the {what} gives no type ({}); the variable has type {expect:?}\n--- text\n{text}", truncate_str(&e, 200)),
                    key,
                )
            }
        }
        if m["method"].as_bool() == Some(true) {
            labels.push("mark:method-name".into());
            nontrivial = true;
        }
        labels.push(if binder { "mark:binder".into() } else { "mark:use".into() });
        labels.push(format!("at:{}", m["at"].as_str().unwrap_or("start")));
        if m["nested"].as_bool() == Some(true) && !binder {
            labels.push("mark:nested-use".into());
            nontrivial = true;
        }
        if m["shadowed"].as_bool() == Some(true) {
            labels.push("mark:shadowed".into());
            nontrivial = true;
        }
        if expect.contains('[') || expect.contains('(') {
            labels.push("type:composite".into());
        }
        if expect.contains("->") {
            labels.push("type:function".into());
        }
    }
    for m in input["literals"].as_array().cloned().unwrap_or_default() {
        let line = m["line"].as_u64().unwrap_or(0) as u32;
        let col = m["col"].as_u64().unwrap_or(0) as u32;
        let expect = m["expect"].as_str().unwrap_or("?");
        let tok = m["token"].as_str().unwrap_or("?");
        let r = match sandbox::cli(|| query::hover_type(&path, text, line, col)) {
            Ok(r) => r,
            Err(pn) => return CaseOut::fail(format!("C20|panic|{}", panic_sig(&pn)), format!("hover_type(line {line}, col {col}) on the literal {tok} panics: {}\n--- text\n{text}", pn.message), key),
        };
        match r {
            Ok(t) if t == expect => labels.push("mark:literal".into()),
            Ok(t) => {
                return CaseOut::fail(
                    "C20|hover|wrong-type|literal".into(),
                    format!("hover on the literal {tok} at line {line}, col {col} reports {t:?}; its spelling fixes the type {expect:?}\n--- text\n{text}"),
                    key,
                )
            }
            Err(e) => {
                return CaseOut::fail(
                    "C20|hover|no-answer|literal".into(),
                    format!("hover on the literal {tok} at line {line}, col {col} gives no type ({}); its spelling fixes the type {expect:?}\n--- text\n{text}", truncate_str(&e, 200)),
                    key,
                )
            }
        }
    }
    if judged == 0 {
        return CaseOut::discard("no-covered-marks");
    }
    labels.sort();
    labels.dedup();
    labels.push(format!("hovers:{}", if judged >= 20 { "20+" } else if judged >= 5 { "5-19" } else { "1-4" }));
    CaseOut::pass(nontrivial, key).labelled(labels)
}

/// fixed programs with the answers query_test.rs pins down: validates the
/// position convention and the type notation before any generated case is judged
fn validate_hover(ctx: &Ctx) -> Result<Value, String> {
    let path = qpath(ctx);
    let src = "struct P { x: int32, y: string }\nenum E[T] { A, B(T) }\n\nfn f[T](a: T, b: int32) -> T {\n    let c = a;\n    c\n}\n\nfn main() {\n    let p = P { x: 1, y: \"a\" };\n    let (u, v) = (1i8, \"s\");\n    let g = |k| k + 1;\n    let r = ref(p);\n    let w = match E::B(2u16) {\n        E::B(n) => n,\n        E::A => 0u16,\n    };\n    let arr = [true, false];\n    let vv: Vec[E[int64]] = vec_new();\n    let _ = g(3);\n    let _ = (u, v, r, w, arr, vv, f);\n    ()\n}\n";
    let cases: [(&str, &str); 16] = [
        ("a: T", "T"),
        ("c = a", "T"),
        ("a;", "T"),
        ("p = P", "P"),
        ("u, v", "int8"),
        ("v) =", "string"),
        ("g = |k|", "(int32) -> int32"),
        ("k| k", "int32"),
        ("k + 1", "int32"),
        ("r = ref", "Ref[P]"),
        ("w = match", "uint16"),
        ("n) =>", "uint16"),
        ("n,", "uint16"),
        ("arr = [", "[bool; 2]"),
        ("vv: Vec", "Vec[E[int64]]"),
        ("g(3)", "(int32) -> int32"),
    ];
    let mut n = 0;
    for (needle, want) in cases {
        let off = src.find(needle).ok_or_else(|| format!("validation text lacks {needle:?}"))?;
        let (l, c) = line_col(src, off);
        let got = sandbox::cli(|| query::hover_type(&path, src, l, c)).map_err(|p| format!("hover validation panics: {}", p.message))?;
        if got.as_deref() != Ok(want) {
            return Err(format!("hover validation: at {needle:?} (line {l}, col {c}) expected {want:?}, hover_type gives {got:?}: the position convention or the type notation is not what the check assumes"));
        }
        n += 1;
    }
    // the answers query_test.rs itself expects
    let smoke = "enum Color { Red, Green, Blue }\n\nfn main() {\n    let a = 1;\n    let a = (true, 2);\n    let a = Green;\n    ()\n}\n";
    for (l, c, want) in [(3u32, 8u32, Ok("int32")), (3, 9, Ok("int32")), (4, 8, Ok("(bool, int32)")), (5, 8, Ok("Color"))] {
        let got = sandbox::cli(|| query::hover_type(&path, smoke, l, c)).map_err(|p| format!("hover validation panics: {}", p.message))?;
        if got.as_deref().map_err(|_| ()) != want {
            return Err(format!("hover validation (query_test smoke_test): ({l},{c}) expected {want:?}, got {got:?}"));
        }
        n += 1;
    }
    // generator notation == compiler notation on one generated program per seed
    Ok(json!({"hover_fixed_answers_checked": n}))
}

// ---------------------------------------------------------------------------
// phase completion

fn is_ident(s: &str) -> bool {
    !s.is_empty() && s.chars().all(|c| c.is_ascii_alphanumeric() || c == '_') && s.chars().next().map_or(false, |c| c.is_ascii_alphabetic())
}

/// one-line `let <ident> [: ty] = ...;` statements and `fn name(p: T, ...) {` headers: (line index, indent of the new line, names)
fn dot_sites(text: &str) -> Vec<(usize, usize, Vec<String>)> {
    let mut out = vec![];
    for (i, l) in text.lines().enumerate() {
        let indent = l.bytes().take_while(|b| *b == b' ').count();
        let t = l.trim();
        if let Some(rest) = t.strip_prefix("let ") {
            if !t.ends_with(';') || t.matches('{').count() != t.matches('}').count() || t.matches('(').count() != t.matches(')').count() {
                continue;
            }
            let name: String = rest.chars().take_while(|c| c.is_ascii_alphanumeric() || *c == '_').collect();
            let after = rest[name.len()..].trim_start();
            if is_ident(&name) && name != "_" && (after.starts_with('=') || after.starts_with(':')) && !after.starts_with("==") {
                out.push((i, indent, vec![name]));
            }
        } else if t.starts_with("fn ") && t.ends_with('{') {
            if let (Some(a), Some(b)) = (t.find('('), t.rfind(')')) {
                if a < b {
                    let mut names = vec![];
                    let mut depth = 0;
                    let mut cur = String::new();
                    for ch in t[a + 1..b].chars().chain(std::iter::once(',')) {
                        match ch {
                            '(' | '[' => {
                                depth += 1;
                                cur.push(ch)
                            }
                            ')' | ']' => {
                                depth -= 1;
                                cur.push(ch)
                            }
                            ',' if depth == 0 => {
                                if let Some((n, _)) = cur.split_once(':') {
                                    if is_ident(n.trim()) {
                                        names.push(n.trim().to_string());
                                    }
                                }
                                cur.clear();
                            }
                            _ => cur.push(ch),
                        }
                    }
                    if !names.is_empty() {
                        out.push((i, indent + 4, names));
                    }
                }
            }
        }
    }
    out
}

/// names of the enums / structs / traits a text declares
fn type_names(text: &str) -> Vec<String> {
    let mut out = vec![];
    for l in text.lines() {
        for kw in ["enum ", "struct ", "trait "] {
            if let Some(rest) = l.strip_prefix(kw) {
                let name: String = rest.chars().take_while(|c| c.is_ascii_alphanumeric() || *c == '_').collect();
                if is_ident(&name) {
                    out.push(name);
                }
            }
        }
    }
    out
}

fn completion_sources() -> Vec<&'static str> {
    corpus::pipeline_cases().iter().filter(|c| c.source.len() < 6000 && !c.source.contains("import ") && !c.source.contains("extern ")).map(|c| c.source.as_str()).collect()
}

fn imports_of(text: &str) -> Vec<String> {
    text.lines().filter_map(|l| l.trim().strip_prefix("import ")).map(|r| r.trim().trim_end_matches(';').to_string()).filter(|n| is_ident(n)).collect()
}

/// a program with generic and plain types, inherent impls (generic ones and ones on a single
/// instantiation), a trait impl, and let-bound receivers of several instantiations
fn method_program(d: &mut Dec) -> String {
    method_program_ex(d, false).0
}

/// the same, optionally with method calls on every receiver in `main`; the second result lists
/// (line, column of the method name, method name, the method's type at that call)
fn method_program_ex(d: &mut Dec, with_calls: bool) -> (String, Vec<(u32, u32, String, String)>) {
    let prims = [("int32", "1"), ("string", "\"s\""), ("bool", "true"), ("int64", "2i64")];
    let spec = d.below(prims.len());
    let two = d.chance(110);
    let gname = if two { ["Pair", "Duo"][d.below(2)] } else { ["Box", "Cell", "Wrap"][d.below(3)] };
    let mut t = String::new();
    // (receiver type text, literal) per receiver; (method, type text) per receiver
    let mut recvs: Vec<(String, String)> = vec![];
    let mut meths: Vec<Vec<(String, String)>> = vec![];
    let only = ["double", "only_here", "special"][d.below(3)];
    let n = 2 + d.below(3);
    if two {
        t.push_str(&format!("struct {gname}[A, B] {{\n    first: A,\n    second: B,\n    tag: int32,\n}}\n\n"));
        t.push_str(&format!("impl[A, B] {gname}[A, B] {{\n    fn get(self: {gname}[A, B]) -> A {{\n        self.first\n    }}\n}}\n\n"));
        // an impl for one instance; other receivers share one of its two arguments
        let (a0, _) = prims[spec];
        let (b0, _) = prims[(spec + 1) % prims.len()];
        t.push_str(&format!("impl {gname}[{a0}, {b0}] {{\n    fn {only}(self: {gname}[{a0}, {b0}]) -> int32 {{\n        self.tag\n    }}\n}}\n\n"));
        for i in 0..n {
            let (a, al) = if i % 2 == 0 { prims[spec] } else { prims[(spec + 2) % prims.len()] };
            let (b, bl) = if i < 2 { prims[(spec + 1) % prims.len()] } else { prims[(spec + 3) % prims.len()] };
            let ty = format!("{gname}[{a}, {b}]");
            let mut ms = vec![("get".to_string(), format!("({ty}) -> {a}"))];
            if a == a0 && b == b0 {
                ms.push((only.to_string(), format!("({ty}) -> int32")));
            }
            recvs.push((ty, format!("{gname} {{ first: {al}, second: {bl}, tag: {i} }}")));
            meths.push(ms);
        }
    } else {
        t.push_str(&format!("struct {gname}[T] {{\n    value: T,\n    tag: int32,\n}}\n\n"));
        t.push_str(&format!("impl[T] {gname}[T] {{\n    fn get(self: {gname}[T]) -> T {{\n        self.value\n    }}\n}}\n\n"));
        // methods that exist for one instantiation only
        let (st, _) = prims[spec];
        t.push_str(&format!("impl {gname}[{st}] {{\n    fn {only}(self: {gname}[{st}]) -> int32 {{\n        self.tag\n    }}\n}}\n\n"));
        let second = d.bool();
        let (st2, _) = prims[(spec + 1) % prims.len()];
        if second {
            t.push_str(&format!("impl {gname}[{st2}] {{\n    fn other(self: {gname}[{st2}]) -> int32 {{\n        self.tag + 1\n    }}\n}}\n\n"));
        }
        for i in 0..n {
            let (ty0, lit) = prims[(spec + i) % prims.len()];
            let ty = format!("{gname}[{ty0}]");
            let mut ms = vec![("get".to_string(), format!("({ty}) -> {ty0}"))];
            if ty0 == st {
                ms.push((only.to_string(), format!("({ty}) -> int32")));
            }
            if second && ty0 == st2 {
                ms.push(("other".to_string(), format!("({ty}) -> int32")));
            }
            recvs.push((ty, format!("{gname} {{ value: {lit}, tag: {i} }}")));
            meths.push(ms);
        }
    }
    t.push_str("struct P {\n    x: int32,\n    y: string,\n}\n\nimpl P {\n    fn sum(self: P) -> int32 {\n        self.x\n    }\n}\n\n");
    t.push_str("trait Show {\n    fn show(Self) -> string;\n}\n\nimpl Show for P {\n    fn show(self: P) -> string {\n        self.y\n    }\n}\n\n");
    t.push_str("fn main() {\n");
    for (i, (ty, lit)) in recvs.iter().enumerate() {
        t.push_str(&format!("    let r{i}: {ty} = {lit};\n"));
    }
    t.push_str("    let p: P = P { x: 1, y: \"a\" };\n");
    let mut marks = vec![];
    if with_calls {
        let mut k = 0;
        let mut emit = |t: &mut String, recv: &str, m: &str, mty: &str| {
            let line = t.matches('\n').count() as u32;
            let head = format!("    let u{k} = {recv}.");
            marks.push((line, head.len() as u32, m.to_string(), mty.to_string()));
            t.push_str(&format!("{head}{m}();\n"));
            k += 1;
        };
        for (i, ms) in meths.iter().enumerate() {
            for (m, mty) in ms {
                emit(&mut t, &format!("r{i}"), m, mty);
            }
        }
        emit(&mut t, "p", "sum", "(P) -> int32");
    }
    t.push_str("    ()\n}\n");
    (t, marks)
}

fn make_completion(d: &mut Dec, ctx: &mut Ctx) -> Value {
    if d.chance(50) {
        let text = method_program(d);
        let sites = dot_sites(&text);
        if !sites.is_empty() {
            let (line, indent, ns) = sites[d.below(sites.len())].clone();
            let recv = ns[d.below(ns.len())].clone();
            return json!({"kind":"completion","mode":"dot","text":text,"after_line":line,"indent":indent,"recv":recv,"prefix":"",
                          "form": if d.bool() { "let" } else { "bare" }, "source":"methods"});
        }
    }
    if d.chance(40) && !corpus::project_cases().is_empty() {
        // a multi-package project: requests in its main.gom
        let pc = &corpus::project_cases()[d.below(corpus::project_cases().len())];
        let text = pc.files.iter().find(|(p, _)| p == "main.gom").map(|(_, t)| t.clone()).unwrap_or_default();
        let files = goml::files_to_json(&pc.files);
        let lines: Vec<&str> = text.lines().collect();
        let mut names = imports_of(&text);
        names.extend(type_names(&text));
        let main_line = lines.iter().position(|l| l.starts_with("fn main(") && l.trim_end().ends_with('{'));
        let sites = dot_sites(&text);
        if d.bool() || sites.is_empty() {
            if let (false, Some(ml)) = (names.is_empty(), main_line) {
                let recv = names[d.below(names.len())].clone();
                // items of the entry package whose names merely START with the name of an imported
                // package are not members of that package
                if imports_of(&text).contains(&recv) && d.chance(140) {
                    let extra = format!("\nenum {recv}Kind {{\n    Flat{recv},\n}}\n\nstruct {recv}Stats {{\n    n: int32,\n}}\n\nfn {recv}helper() -> int32 {{\n    1\n}}\n");
                    let text2 = format!("{text}{extra}");
                    let mut fs = pc.files.clone();
                    for (p, t) in fs.iter_mut() {
                        if p == "main.gom" {
                            *t = text2.clone();
                        }
                    }
                    return json!({"kind":"completion","mode":"colon","text":text2,"files":goml::files_to_json(&fs),"after_line":ml,"indent":4,"recv":recv,"prefix":"",
                                  "form": if d.bool() { "let" } else { "bare" }, "source":"project-prefix-twins"});
                }
                // one more imported package whose name ENDS with (or starts with) the name of the package that
                // is completed: its members are not members of that package
                if imports_of(&text).contains(&recv) && d.chance(110) {
                    let twin = if d.chance(180) { format!("{}{recv}", ["Str", "My", "X"][d.below(3)]) } else { format!("{recv}Extra") };
                    if !imports_of(&text).contains(&twin) {
                        let mut out_lines: Vec<String> = vec![];
                        let last_import = lines.iter().rposition(|l| l.trim().starts_with("import "));
                        for (i, l) in lines.iter().enumerate() {
                            out_lines.push(l.to_string());
                            if Some(i) == last_import {
                                out_lines.push(format!("import {twin}"));
                            }
                        }
                        let text2 = out_lines.join("\n") + "\n";
                        let mut fs = pc.files.clone();
                        for (p, t) in fs.iter_mut() {
                            if p == "main.gom" {
                                *t = text2.clone();
                            }
                        }
                        fs.push((
                            format!("{twin}/lib.gom"),
                            format!("package {twin}\n\nstruct TwinBox {{\n    n: int32,\n}}\n\nenum TwinKind {{\n    TwinFlat,\n}}\n\nfn twin_only() -> int32 {{\n    1\n}}\n"),
                        ));
                        return json!({"kind":"completion","mode":"colon","text":text2,"files":goml::files_to_json(&fs),"after_line":ml + 1,"indent":4,"recv":recv,"prefix":"",
                                      "form": if d.bool() { "let" } else { "bare" }, "source":"project-package-twins"});
                    }
                }
                return json!({"kind":"completion","mode":"colon","text":text,"files":files,"after_line":ml,"indent":4,"recv":recv,"prefix":"",
                              "form": if d.bool() { "let" } else { "bare" }, "source":"project"});
            }
        }
        if !sites.is_empty() {
            let (line, indent, ns) = sites[d.below(sites.len())].clone();
            let recv = ns[d.below(ns.len())].clone();
            return json!({"kind":"completion","mode":"dot","text":text,"files":files,"after_line":line,"indent":indent,"recv":recv,"prefix":"",
                          "form": if d.bool() { "let" } else { "bare" }, "source":"project"});
        }
    }
    let from_corpus = d.chance(96);
    let text: String = if from_corpus {
        let srcs = completion_sources();
        if srcs.is_empty() {
            "fn main() {\n    let a = 1;\n    ()\n}\n".into()
        } else {
            srcs[d.below(srcs.len())].to_string()
        }
    } else {
        let mut cfg = small_cfg(25 + d.below(40) as u32);
        cfg.ticks = false;
        let p = gen_program(d, cfg, ctx);
        crate::gen::render::render(&p)
    };
    let colon = d.chance(80);
    let lines: Vec<&str> = text.lines().collect();
    if colon {
        let names = type_names(&text);
        let main_line = lines.iter().position(|l| l.starts_with("fn main(") && l.trim_end().ends_with('{'));
        if let (false, Some(ml)) = (names.is_empty(), main_line) {
            let recv = names[d.below(names.len())].clone();
            let prefix = if d.chance(64) { ((b'A' + d.below(26) as u8) as char).to_string() } else { String::new() };
            return json!({"kind":"completion","mode":"colon","text":text,"after_line":ml,"indent":4,"recv":recv,"prefix":prefix,
                          "form": if d.bool() { "let" } else { "bare" }, "source": if from_corpus { "corpus" } else { "generated" }});
        }
    }
    let sites = dot_sites(&text);
    if sites.is_empty() {
        return json!({"kind":"completion","mode":"none","text":text});
    }
    let (line, indent, names) = sites[d.below(sites.len())].clone();
    let recv = names[d.below(names.len())].clone();
    let prefix = if d.chance(64) { ((b'a' + d.below(26) as u8) as char).to_string() } else { String::new() };
    json!({"kind":"completion","mode":"dot","text":text,"after_line":line,"indent":indent,"recv":recv,"prefix":prefix,
           "form": if d.bool() { "let" } else { "bare" }, "source": if from_corpus { "corpus" } else { "generated" }})
}

fn with_line(text: &str, after_line: usize, new_line: &str) -> String {
    let mut out = String::new();
    for (i, l) in text.split_inclusive('\n').enumerate() {
        out.push_str(l);
        if i == after_line {
            if !l.ends_with('\n') {
                out.push('\n');
            }
            out.push_str(new_line);
            out.push('\n');
        }
    }
    out
}

fn typecheck_errors(path: &Path, text: &str) -> Result<Vec<String>, PanicInfo> {
    sandbox::cli(|| match compiler::pipeline::pipeline::typecheck_with_packages_and_results(path, text) {
        Ok((_, _, _, diags)) => diags.iter().filter(|d| d.severity() == diagnostics::Severity::Error).map(|d| d.message().to_string()).collect(),
        Err(e) => e.diagnostics().iter().map(|d| d.message().to_string()).collect(),
    })
}

/// the diagnostic says that the inserted name does not exist
fn says_unknown(msg: &str, item: &str) -> bool {
    let m = msg;
    (m.contains("not found") || m.contains("has no field") || m.contains("Unknown") || m.contains("Unresolved") || m.contains("unknown field")) && m.contains(item)
}

fn judge_completion(input: &Value, ctx: &mut Ctx) -> CaseOut {
    let mode = input["mode"].as_str().unwrap_or("none");
    if mode == "none" {
        return CaseOut::discard("no-completion-site");
    }
    let project_dir = if input["files"].is_object() {
        let dir = ctx.scratch.fresh_dir();
        sandbox::materialise(&dir, &goml::files_from_json(&input["files"]));
        Some(dir)
    } else {
        None
    };
    let path = match &project_dir {
        Some(d) => d.join("main.gom"),
        None => qpath(ctx),
    };
    let out = judge_completion_at(input, ctx, &path);
    if let Some(d) = project_dir {
        ctx.scratch.remove(&d);
    }
    out
}

fn judge_completion_at(input: &Value, ctx: &mut Ctx, path: &Path) -> CaseOut {
    let text = input["text"].as_str().unwrap_or("");
    let mode = input["mode"].as_str().unwrap_or("none");
    let path = path.to_path_buf();
    let after = input["after_line"].as_u64().unwrap_or(0) as usize;
    let indent = " ".repeat(input["indent"].as_u64().unwrap_or(4) as usize);
    let recv = input["recv"].as_str().unwrap_or("x");
    let prefix = input["prefix"].as_str().unwrap_or("");
    let form = input["form"].as_str().unwrap_or("bare");
    let sep = if mode == "dot" { "." } else { "::" };
    let key = fnv_str(&format!("{text}|{after}|{recv}|{prefix}|{form}|{mode}"));
    // the text without the insertion must be well-typed
    match typecheck_errors(&path, text) {
        Ok(e) if e.is_empty() => {}
        Ok(_) => return CaseOut::discard("base-not-well-typed"),
        Err(_) => return CaseOut::discard("base-typecheck-panic"),
    }
    let (typed, cursor_col) = if form == "let" {
        (format!("{indent}let _ = {recv}{sep}{prefix};"), indent.len() + 8 + recv.len() + sep.len() + prefix.len())
    } else {
        (format!("{indent}{recv}{sep}{prefix}"), indent.len() + recv.len() + sep.len() + prefix.len())
    };
    let text2 = with_line(text, after, &typed);
    let line = after as u32 + 1;
    let col = cursor_col as u32;
    let mut labels = vec![format!("mode:{mode}"), format!("form:{form}"), format!("source:{}", input["source"].as_str().unwrap_or("?")), if prefix.is_empty() { "prefix:none".to_string() } else { "prefix:letter".to_string() }];
    // (name, kind, detail)
    let items: Vec<(String, String, String)> = match sandbox::cli(|| {
        if mode == "dot" {
            query::dot_completions(&path, &text2, line, col).map(|v| v.into_iter().map(|i| (i.name, format!("{:?}", i.kind), i.detail.unwrap_or_default())).collect::<Vec<_>>())
        } else {
            query::colon_colon_completions(&path, &text2, line, col).map(|v| v.into_iter().map(|i| (i.name, format!("{:?}", i.kind), i.detail.unwrap_or_default())).collect::<Vec<_>>())
        }
    }) {
        Ok(Some(v)) => v,
        Ok(None) => {
            labels.push("list:none".into());
            return CaseOut::pass(false, key).labelled(labels);
        }
        Err(pn) => {
            return CaseOut::fail(
                format!("C20|panic|{}", panic_sig(&pn)),
                format!("{mode} completion at line {line}, col {col} panics: {} ({}:{})\n--- text\n{}", pn.message, pn.file, pn.line, truncate_str(&text2, 1500)),
                key,
            )
        }
    };
    if items.is_empty() {
        labels.push("list:empty".into());
        return CaseOut::pass(false, key).labelled(labels);
    }
    labels.push("list:items".into());
    for (name, kind, detail) in &items {
        labels.push(format!("item:{kind}"));
        if !name.starts_with(prefix) {
            return CaseOut::fail(
                "C20|completion|prefix-ignored".into(),
                format!("the item {name:?} does not start with the typed prefix {prefix:?}\n--- text\n{}", truncate_str(&text2, 1200)),
                key,
            );
        }
        let n_params = if detail.starts_with('(') { detail_param_count(detail) } else { 0 };
        let use_expr = match kind.as_str() {
            "Field" => format!("{recv}.{name}"),
            // a method call with the receiver as the only argument type-checks completely
            "Method" if mode == "dot" => format!("{recv}.{name}()"),
            "Method" => format!("{recv}::{name}()"),
            "Variant" if n_params > 0 => format!("{recv}::{name}()"),
            "Variant" | "Value" => format!("{recv}::{name}"),
            // types and traits of a package namespace cannot be checked by an expression
            _ => continue,
        };
        let text3 = with_line(text, after, &format!("{indent}let _ = {use_expr};"));
        let errs = match typecheck_errors(&path, &text3) {
            Ok(e) => e,
            Err(pn) => {
                return CaseOut::fail(
                    format!("C20|panic|{}", panic_sig(&pn)),
                    format!("type-checking the text with the offered item inserted (`{use_expr}`) panics: {} ({}:{})", pn.message, pn.file, pn.line),
                    key,
                )
            }
        };
        if let Some(bad) = errs.iter().find(|m| says_unknown(m, name)) {
            // KF-49: the builtin to_string offered on a receiver whose numeric type is not resolved yet
            // (KF-49: method lookup before the receiver's type is resolved; the receivers of
            // the `methods` source are annotated, so there the message means the method is bogus)
            let annotated = input["source"].as_str() == Some("methods");
            let why = if bad.contains("for type ExprId") && !annotated { "|unresolved-receiver" } else { "" };
            if !why.is_empty() && ctx.gated(GATE_METHOD_UNRESOLVED) {
                labels.push("gated:method-on-unresolved-receiver".into());
                continue;
            }
            return CaseOut::fail(
                format!("C20|completion|bogus-item|{mode}|{kind}{why}"),
                format!("{mode} completion after `{recv}{sep}{prefix}` offers {kind} {name:?} ({detail}); inserting `{use_expr}` is rejected: {bad}\nall offered: {:?}\n--- text with the request\n{}", items.iter().map(|i| i.0.as_str()).collect::<Vec<_>>(), truncate_str(&text2, 1500)),
                key,
            );
        }
        let complete_call = matches!(kind.as_str(), "Field") || (kind == "Method" && mode == "dot" && n_params == 1) || (kind == "Method" && mode == "colon" && n_params == 0) || (kind == "Variant" && n_params == 0);
        if errs.is_empty() {
            labels.push("inserted:well-typed".into());
        } else if kind == "Field" {
            // a field access needs nothing but the receiver: any error is about the offered item
            let through_ref = errs.iter().any(|m| m.contains("StructFieldAccess") && m.contains("expr_ty: TRef"));
            if through_ref && ctx.gated(GATE_FIELD_THROUGH_REF) {
                labels.push("gated:field-through-ref".into());
                continue;
            }
            return CaseOut::fail(
                format!("C20|completion|ill-typed-item|dot|Field{}", if through_ref { "|through-ref" } else { "" }),
                format!("dot completion after `{recv}{sep}{prefix}` offers the field {name:?} ({detail}); `let _ = {use_expr};` does not type-check: {}\n--- text with the request\n{}", truncate_str(&errs[0], 300), truncate_str(&text2, 1500)),
                key,
            );
        } else if complete_call {
            labels.push("inserted:other-error".into());
        } else {
            labels.push("inserted:arity-or-inference-error".into());
        }
    }
    labels.sort();
    labels.dedup();
    CaseOut::pass(true, key).labelled(labels)
}

/// number of parameters in a detail like "(P, int32) -> int32"
fn detail_param_count(detail: &str) -> usize {
    let mut depth = 0;
    let mut n = 0;
    let mut any = false;
    for ch in detail.chars() {
        match ch {
            '(' | '[' => {
                depth += 1;
            }
            ')' | ']' => {
                depth -= 1;
                if depth == 0 {
                    break;
                }
            }
            ',' if depth == 1 => n += 1,
            c if depth >= 1 && !c.is_whitespace() => any = true,
            _ => {}
        }
    }
    if any {
        n + 1
    } else {
        0
    }
}

// ---------------------------------------------------------------------------

impl Check for C20 {
    fn id(&self) -> &'static str {
        "C20"
    }
    fn phases(&self, tier: Tier) -> Vec<PhaseSpec> {
        vec![
            PhaseSpec { name: "crash", cases: tier.pick(50_000, 300_000), max_bytes: 420, exhaustive: false },
            PhaseSpec { name: "hover", cases: tier.pick(8_000, 40_000), max_bytes: 500, exhaustive: false },
            PhaseSpec { name: "completion", cases: tier.pick(24_000, 120_000), max_bytes: 400, exhaustive: false },
            // the fixed programs whose answers query_test.rs pins down: a labelled case, not part of setup, so that
            // a hover that answers them wrongly is a violation and not an inconclusive run
            PhaseSpec { name: "fixed", cases: 1, max_bytes: 0, exhaustive: true },
        ]
    }
    fn make(&self, phase: &str, _index: u64, bytes: &[u8], ctx: &mut Ctx) -> Case {
        let mut d = Dec::new(bytes);
        let tier = ctx.tier;
        Case::new(match phase {
            "crash" => make_crash(&mut d, ctx),
            "hover" => make_hover(&mut d, ctx, tier),
            "fixed" => json!({"kind": "fixed"}),
            _ => make_completion(&mut d, ctx),
        })
    }
    fn judge(&self, _phase: &str, case: &Case, ctx: &mut Ctx) -> CaseOut {
        match case.input["kind"].as_str().unwrap_or("") {
            "crash" => judge_crash(&case.input, ctx),
            "hover" => judge_hover(&case.input, ctx),
            "fixed" => {
                if let Err(e) = validate_hover(ctx) {
                    return CaseOut::fail("C20|hover|fixed-answers".into(), e, 1);
                }
                let path = qpath(ctx);
                let good = "struct P { x: int32 }\n\nfn main() {\n    let p = P { x: 1 };\n    p.\n}\n";
                match sandbox::cli(|| query::dot_completions(&path, good, 4, 6)) {
                    Err(p) => CaseOut::fail("C20|completion|fixed-control".into(), format!("completion control panics: {}", p.message), 1),
                    Ok(items) if items.as_ref().map_or(true, |v| v.len() != 1 || v[0].name != "x") => CaseOut::fail(
                        "C20|completion|fixed-control".into(),
                        format!("expected the single field x after `p.` in\n{good}\ngot {items:?}"),
                        1,
                    ),
                    Ok(_) => CaseOut::pass(true, 1).labelled(vec!["fixed:answers-ok".to_string()]),
                }
            }
            _ => judge_completion(&case.input, ctx),
        }
    }
    fn rule(&self) -> String {
        format!(
            "crash: text = a generated program (12-42 nodes), a corpus file (<=1400 bytes, else a 300-1200 byte window cut at a line start) or textgen::mutate_corpus of the {n} corpus sources; one editor-style edit (none, prefix at a token boundary, prefix inside a token, one token deleted, one token inserted, unterminated string, dropped brace/parenthesis, `ident.` / `Ident::` typed after an identifier, non-ASCII text inserted); positions = either every column 0..=len+2 of one line or 6-13 positions drawn from: inside a line, line end, 1-5 columns beyond the line end, 0-2 lines beyond the last line, (0,0), huge values (u32::MAX, 2^31, 65536), inside a multi-byte character, just after a `.` / `::`, end of text. At every position hover_type, dot_completions and colon_colon_completions are called (for a quarter of the cases also the three wasm-app wrappers) with a path in an empty directory; any panic fails, Err/None answers are fine. hover: a generated well-typed program (fails=false, 20-60 nodes quick / 20-110 thorough) that goml compiles; for up to 60 local-variable occurrences (binders and uses, from render_with_marks) hover_type at the first byte, a middle byte or just after the identifier must answer the generator's type of that variable in the compiler's notation (validated in setup against fixed programs); a different type = wrong-type, Err = no-answer. completion: a corpus program without imports (or a generated one) that type-checks cleanly; after a one-line `let v = ..;` or at the top of a function with parameter v the line `v.<prefix>` (bare or as `let _ = v.<prefix>;`) is inserted, or `Name::<prefix>` for a declared enum/struct/trait at the top of main; every offered item must start with the typed prefix and, inserted as `let _ = v.field;` / `v.method()` / `Name::Variant` / `Name::method()`, must not draw a diagnostic saying that the name is unknown (arity and inference errors of the synthesized call are not held against the item). Non-trivial = crash: the text has parse errors or some position is not a token start; hover: some judged occurrence is a use inside a nested block or of a name bound more than once; completion: a non-empty list whose items were all inserted and checked. Distinct by hash of text (+ positions / request). Half of the dot-completion requests and 15% of the hover cases use method programs: a generic struct with one or two type parameters, a generic inherent impl, an inherent impl for ONE instance (and possibly a second one), a plain struct with inherent and trait impl, annotated receivers of several instances; every offered method must type-check when called, and a hover on the method name of a call reports the method's type at that instance.",
            n = corpus::sources().len()
        )
    }
    fn assumptions(&self) -> Vec<String> {
        vec![
            "line and column are 0-based, columns count UTF-8 bytes (line_index::LineCol as used by query.rs and query_test.rs); validated in setup on fixed programs with known answers".into(),
            "the generator's type of a local variable is the type a correct compiler assigns to it (generated programs are monomorphic apart from type parameters and are accepted by goml before any hover is judged)".into(),
            "tast::Ty::to_pretty prints types in goml's own type syntax, which render_ty produces; function parameters are answered with the source text of their annotation".into(),
            "completeness and ordering of completion lists, the `detail` strings and hover answers on anything but local-variable identifiers are not judged".into(),
            "the queries are called with a path inside an empty directory, so no sibling files or packages take part (the wasm-app wrappers use the relative path `dummy`, i.e. the working directory of the harness)".into(),
            "an inserted item is judged by the type checker's diagnostics (pipeline::typecheck_with_packages_and_results), not by the later compilation stages".into(),
        ]
    }
    fn setup(&self, ctx: &mut Ctx) -> Result<Value, String> {
        // the completion oracle must be able to see a bogus item: a fixed negative control
        let path = qpath(ctx);
        let bad = "struct P { x: int32 }\n\nfn main() {\n    let p = P { x: 1 };\n    let _ = p.zz;\n    let _ = P::nope();\n    ()\n}\n";
        let errs = typecheck_errors(&path, bad).map_err(|p| format!("negative control panics: {}", p.message))?;
        if !errs.iter().any(|m| says_unknown(m, "zz")) || !errs.iter().any(|m| says_unknown(m, "nope")) {
            return Err(format!("negative control: unknown field / method are not recognised in {errs:?}"));
        }
        Ok(json!({"hover": "20 fixed answers are the case of phase `fixed`", "completion_controls": 2}))
    }
    fn required_labels(&self, _tier: Tier) -> Vec<&'static str> {
        vec![
            "text:parses",
            "text:parse-errors",
            "edit:prefix",
            "edit:delete-token",
            "edit:insert-token",
            "edit:unterminated-string",
            "edit:dropped-brace",
            "edit:member-access",
            "source:generated",
            "source:corpus",
            "pos:inside",
            "pos:col-beyond-line",
            "pos:line-beyond-text",
            "pos:huge",
            "pos:inside-char",
            "pos:after-trigger",
            "pos:sweep",
            "query:answered",
            "mark:binder",
            "mark:use",
            "mark:nested-use",
            "mark:shadowed",
            "type:composite",
            "type:function",
            "mode:dot",
            "mode:colon",
            "list:items",
            "item:Field",
            "item:Method",
            "item:Variant",
            "item:Value",
            "source:project",
            "mark:literal",
            "inserted:well-typed",
            "fixed:answers-ok",
        ]
    }
    fn max_discard_fraction(&self) -> f64 {
        0.4
    }
}
