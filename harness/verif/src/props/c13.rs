//! C13 — compilation is deterministic and reproducible.

use crate::corpus;
use crate::driver::*;
use crate::goml::{self, CompileRes};
use crate::projgen;
use crate::sandbox;
use crate::sep;
use crate::util::*;
use serde_json::{json, Value};
use std::path::Path;
use std::process::{Command, Stdio};

pub struct C13;

const W: usize = goml::PRETTY_WIDTH;

/// (section name, text) of everything one whole-program compile shows
pub fn whole_outputs(root: &Path, main_src: &str) -> Result<Vec<(String, String)>, (String, String)> {
    let res = goml::compile_at(root.join("main.gom"), main_src);
    let rootstr = root.display().to_string();
    let mut out = vec![];
    match res {
        CompileRes::Panic(p) => {
            return Err((format!("C13|panic|{}", p.signature()), format!("panic at {}:{}: {}", p.file, p.line, p.message)))
        }
        CompileRes::Err(e) => {
            out.push(("stage".to_string(), goml::error_stage(&e).to_string()));
            let mut s = String::new();
            for d in e.diagnostics().iter() {
                s.push_str(&format!(
                    "{}|{:?}|{:?}|{}\n",
                    d.stage().as_str(),
                    d.severity() == diagnostics::Severity::Error,
                    d.range(),
                    d.message().replace(&rootstr, "<ROOT>")
                ));
            }
            out.push(("diagnostics".to_string(), s));
        }
        CompileRes::Ok(c, go) => {
            out.push(("stage".to_string(), "ok".to_string()));
            out.push(("go".to_string(), go));
            let dumps = sandbox::guarded(|| {
                let hctx = compiler::pprint::hir_pprint::HirPrintCtx::new(&c.hir_table);
                vec![
                    ("ast".to_string(), c.ast.to_pretty(W)),
                    ("hir".to_string(), c.hir.to_pretty(&hctx, W)),
                    ("tast".to_string(), c.tast.to_pretty(&c.genv, W)),
                    ("core".to_string(), c.core.to_pretty(&c.genv, W)),
                    ("mono".to_string(), c.mono.to_pretty(&c.monoenv, W)),
                    ("lift".to_string(), c.lambda.to_pretty(&c.liftenv, W)),
                    ("anf".to_string(), c.anf.to_pretty(&c.anfenv, W)),
                ]
            });
            match dumps {
                Ok(d) => out.extend(d),
                Err(p) => {
                    return Err((format!("C13|panic|{}", p.signature()), format!("dump: panic at {}:{}: {}", p.file, p.line, p.message)))
                }
            }
        }
    }
    for (name, text) in &out {
        if name != "diagnostics" && text.contains(&rootstr) {
            return Err((format!("C13|path-leak|{name}"), format!("the {name} output mentions the project directory {rootstr}")));
        }
    }
    Ok(out)
}

/// separate pipeline: (section, text) per package: interface hash, interface
/// JSON, core JSON (source paths relative to the root) or the error
pub fn separate_outputs(root: &Path, art: &Path) -> Result<Vec<(String, String)>, (String, String)> {
    let rootstr = root.display().to_string();
    let artstr = art.display().to_string();
    let norm = |s: String| s.replace(&artstr, "<ART>").replace(&rootstr, "<ROOT>");
    let mut out = vec![];
    let d = match sep::discover(root) {
        Ok(d) => d,
        Err(e) => {
            if e.is_panic() {
                return Err(projgen::sep_sig("C13", "", &e));
            }
            out.push(("discover".to_string(), norm(e.describe())));
            return Ok(out);
        }
    };
    out.push(("order".to_string(), d.order.join(",")));
    for pkg in &d.order {
        let pdir = d.dirs.iter().find(|(p, _)| p == pkg).map(|(_, d)| d.clone()).unwrap();
        match sep::check_one(pkg, &pdir, art) {
            Ok(i) => {
                out.push((format!("{pkg}.check.hash"), i.interface_hash.clone()));
                out.push((format!("{pkg}.check.json"), serde_json::to_string_pretty(&i).unwrap_or_default()));
            }
            Err(e) => {
                if e.is_panic() {
                    return Err(projgen::sep_sig("C13", "", &e));
                }
                out.push((format!("{pkg}.check.err"), norm(e.describe())));
            }
        }
        match sep::build_one(pkg, &pdir, art) {
            Ok(u) => {
                out.push((format!("{pkg}.build.hash"), u.interface.interface_hash.clone()));
                let ij = serde_json::to_string_pretty(&u.interface).unwrap_or_default();
                if ij.contains(&rootstr) {
                    return Err(("C13|path-leak|interface".into(), format!("{pkg}.interface mentions the project directory")));
                }
                out.push((format!("{pkg}.interface"), ij));
                out.push((format!("{pkg}.core"), norm(serde_json::to_string_pretty(&u).unwrap_or_default())));
                if let Err(e) = sep::write_unit(art, &u) {
                    out.push((format!("{pkg}.write"), e.describe()));
                }
            }
            Err(e) => {
                if e.is_panic() {
                    return Err(projgen::sep_sig("C13", "", &e));
                }
                out.push((format!("{pkg}.build.err"), norm(e.describe())));
                return Ok(out);
            }
        }
    }
    match sep::link_dir(art, &d.order) {
        Ok(l) => out.push(("linked.go".to_string(), l.go_text)),
        Err(e) => {
            if e.is_panic() {
                return Err(projgen::sep_sig("C13", "", &e));
            }
            out.push(("link.err".to_string(), norm(e.describe())));
        }
    }
    Ok(out)
}

fn digest(sections: &[(String, String)]) -> String {
    let mut h = 0xcbf29ce484222325u64;
    for (n, t) in sections {
        h = mix(h, fnv_str(n));
        h = mix(h, fnv_str(t));
        h = mix(h, t.len() as u64);
    }
    format!("{h:016x}")
}

fn first_diff(a: &[(String, String)], b: &[(String, String)]) -> Option<(String, String)> {
    for i in 0..a.len().max(b.len()) {
        match (a.get(i), b.get(i)) {
            (Some((n1, t1)), Some((n2, t2))) => {
                if n1 != n2 {
                    return Some(("sections".into(), format!("section {i} is {n1} in one run and {n2} in the other")));
                }
                if t1 != t2 {
                    let l = t1.lines().zip(t2.lines()).position(|(x, y)| x != y).unwrap_or(0);
                    return Some((
                        section_class(n1),
                        format!(
                            "{n1} differs at line {}:\n  {}\n  {}",
                            l + 1,
                            truncate_str(t1.lines().nth(l).unwrap_or(""), 300),
                            truncate_str(t2.lines().nth(l).unwrap_or(""), 300)
                        ),
                    ));
                }
            }
            (Some((n, _)), None) | (None, Some((n, _))) => return Some(("sections".into(), format!("section {n} only in one run"))),
            _ => {}
        }
    }
    None
}

/// coarse class of an output section for signatures
fn section_class(name: &str) -> String {
    if let Some((_, rest)) = name.split_once('.') {
        return rest.to_string();
    }
    name.to_string()
}

fn everything(root: &Path, art: &Path, main_src: &str) -> Result<Vec<(String, String)>, (String, String)> {
    let mut all = whole_outputs(root, main_src)?;
    all.extend(separate_outputs(root, art)?);
    Ok(all)
}

fn judge_project(files: &[(String, String)], input: &Value, ctx: &mut Ctx) -> CaseOut {
    let mut labels: Vec<String> = input["labels"]
        .as_array()
        .map(|a| a.iter().filter_map(|x| x.as_str().map(|s| s.to_string())).collect())
        .unwrap_or_default();
    let key = fnv_str(&goml::files_to_json(files).to_string());
    let main_src = files.iter().find(|(p, _)| p == "main.gom").map(|(_, t)| t.clone()).unwrap_or_default();
    let dir = ctx.scratch.fresh_dir();
    // the order in which files (and so directories) are created
    let perm1: Vec<usize> = input["perm"]
        .as_array()
        .map(|a| a.iter().filter_map(|x| x.as_u64().map(|x| x as usize)).filter(|i| *i < files.len()).collect())
        .filter(|v: &Vec<usize>| v.len() == files.len())
        .unwrap_or_else(|| (0..files.len()).collect());
    let perm2: Vec<usize> = perm1.iter().rev().copied().collect();

    // ---- the child mode: print the digest of everything and stop
    if input["mode"].as_str() == Some("dump") {
        let root = dir.join("child-root");
        projgen::materialise_perm(&root, files, &perm1);
        let r = everything(&root, &dir.join("child-art"), &main_src);
        ctx.scratch.remove(&dir);
        return match r {
            Ok(all) => {
                println!("DIGEST {}", digest(&all));
                CaseOut::pass(false, key)
            }
            Err((sig, detail)) => CaseOut::fail(sig, detail, key),
        };
    }

    let res = (|| -> Result<bool, (String, String)> {
        let root1 = dir.join("a");
        projgen::materialise_perm(&root1, files, &perm1);
        // (a) twice in this process
        let o1 = everything(&root1, &dir.join("art1"), &main_src)?;
        let o2 = everything(&root1, &dir.join("art2"), &main_src)?;
        if let Some((class, d)) = first_diff(&o1, &o2) {
            return Err((format!("C13|same-process|{class}"), d));
        }
        let stage = o1.iter().find(|(n, _)| n == "stage").map(|(_, t)| t.clone()).unwrap_or_default();
        labels.push(format!("stage:{stage}"));
        let ndiag = o1.iter().find(|(n, _)| n == "diagnostics").map(|(_, t)| t.lines().count()).unwrap_or(0);
        if ndiag >= 2 {
            labels.push("diagnostics>=2".into());
        }
        // (c) another root, files and directories created in the opposite order
        let root2 = dir.join("elsewhere").join("deeper").join("b");
        projgen::materialise_perm(&root2, files, &perm2);
        // ... and a package's files handed to check/build in another order
        sep::FILE_ORDER.store(1, std::sync::atomic::Ordering::Relaxed);
        let o3 = everything(&root2, &dir.join("art3"), &main_src);
        sep::FILE_ORDER.store(0, std::sync::atomic::Ordering::Relaxed);
        let o3 = o3?;
        if let Some((class, d)) = first_diff(&o1, &o3) {
            return Err((format!("C13|other-root-and-order|{class}"), d));
        }
        // (b) fresh processes
        let k = input["processes"].as_u64().unwrap_or(2);
        if k > 0 {
            let rp = dir.join("dump.json");
            let body = json!({"property":"C13","phase":"child","input":{"files": goml::files_to_json(files), "mode":"dump", "perm": perm1}});
            std::fs::write(&rp, body.to_string()).map_err(|e| ("C13|infra".to_string(), e.to_string()))?;
            let want = digest(&o1);
            for i in 0..k {
                let exe = std::env::current_exe().map_err(|e| ("C13|infra".to_string(), e.to_string()))?;
                let o = Command::new(exe)
                    .arg("replay")
                    .arg("C13")
                    .arg(&rp)
                    .arg("--json")
                    .stdin(Stdio::null())
                    .stderr(Stdio::null())
                    .output()
                    .map_err(|e| ("C13|infra".to_string(), e.to_string()))?;
                let so = String::from_utf8_lossy(&o.stdout).to_string();
                let got = so.lines().find_map(|l| l.strip_prefix("DIGEST ").map(|s| s.trim().to_string()));
                match got {
                    Some(g) if g == want => {}
                    Some(g) => {
                        return Err((
                            "C13|other-process".into(),
                            format!("process {i} computes digest {g}, this process {want} (same files, same creation order)"),
                        ))
                    }
                    None => {
                        return Err((
                            "C13|other-process|no-digest".into(),
                            format!("child process gave no digest (status {:?}): {}", o.status.code(), truncate_str(&so, 400)),
                        ))
                    }
                }
            }
            labels.push("processes".into());
        }
        let two_imports = labels.iter().any(|l| l == "imports>=2");
        Ok(two_imports || ndiag >= 2)
    })();
    ctx.scratch.remove(&dir);
    match res {
        Ok(nt) => CaseOut::pass(nt, key).labelled(labels),
        Err((sig, detail)) => CaseOut::fail(sig, detail, key).labelled(labels),
    }
}

const BREAKS: &[(&str, &str)] = &[
    ("int32", "string"),
    ("string", "bool"),
    ("-> int32", "-> bool"),
    ("::", "::x"),
    (" + ", " && "),
    ("true", "1"),
    ("(", "(0, "),
    ("import ", "import X"),
    ("struct ", "struct X"),
];

impl Check for C13 {
    fn id(&self) -> &'static str {
        "C13"
    }
    fn phases(&self, tier: Tier) -> Vec<PhaseSpec> {
        vec![
            PhaseSpec { name: "corpus", cases: corpus::project_cases().len() as u64, max_bytes: 0, exhaustive: true },
            PhaseSpec { name: "gen", cases: tier.pick(2_000, 10_000), max_bytes: 1500, exhaustive: false },
            PhaseSpec { name: "failing", cases: tier.pick(1_600, 8_000), max_bytes: 1500, exhaustive: false },
        ]
    }
    fn make(&self, phase: &str, index: u64, bytes: &[u8], ctx: &mut Ctx) -> Case {
        if phase == "corpus" {
            let ps = corpus::project_cases();
            let p = &ps[index as usize % ps.len().max(1)];
            let mut labels = vec!["corpus".to_string()];
            if p.files.iter().any(|(_, t)| t.matches("\nimport ").count() >= 2) {
                labels.push("imports>=2".into());
            }
            return Case::new(json!({"files": goml::files_to_json(&p.files), "labels": labels, "name": p.name, "processes": 2}));
        }
        let mut d = Dec::new(bytes);
        let proj = projgen::gen_project(&mut d, ctx);
        let mut labels = proj.features();
        let mut files = proj.render();
        if phase == "failing" {
            let n = 1 + d.below(4);
            for _ in 0..n {
                let fi = d.below(files.len());
                let (from, to) = BREAKS[d.below(BREAKS.len())];
                let occ: Vec<usize> = files[fi].1.match_indices(from).map(|(i, _)| i).collect();
                if !occ.is_empty() {
                    let at = occ[d.below(occ.len())];
                    files[fi].1.replace_range(at..at + from.len(), to);
                }
            }
            labels.push("broken".into());
        }
        // bindings to several Go packages: the import block of the emitted Go must not depend on the process
        if d.chance(80) {
            const EXT: &[(&str, &str, &str)] = &[
                ("strings", "ToUpper", "ext_upper"),
                ("path", "Base", "ext_base"),
                ("html", "EscapeString", "ext_html"),
                ("strconv", "Quote", "ext_quote"),
                ("os", "Getenv", "ext_env"),
                ("net/url", "QueryEscape", "ext_query"),
            ];
            let k = 2 + d.below(3);
            let start = d.below(EXT.len());
            if let Some((_, main)) = files.iter_mut().find(|(p, _)| p == "main.gom") {
                let mut decls = String::new();
                let mut calls = String::new();
                for j in 0..k {
                    let (pkg, sym, name) = EXT[(start + j * 5) % EXT.len()];
                    if decls.contains(name) {
                        continue;
                    }
                    decls.push_str(&format!("extern \"go\" \"{pkg}\" \"{sym}\" {name}(s: string) -> string\n"));
                    calls.push_str(&format!("    let _ = {name}(\"a\");\n"));
                }
                let lines: Vec<&str> = main.lines().collect();
                if let Some(mi) = lines.iter().position(|l| l.starts_with("fn main(") && l.trim_end().ends_with('{')) {
                    // declarations go right before `fn main`, the calls first thing in its body
                    let mut out = String::new();
                    for (i, l) in lines.iter().enumerate() {
                        if i == mi {
                            out.push_str(&decls);
                            out.push('\n');
                        }
                        out.push_str(l);
                        out.push('\n');
                        if i == mi {
                            out.push_str(&calls);
                        }
                    }
                    *main = out;
                    labels.push("extern-go>=2".into());
                }
            }
        }
        // types with derived impls (one attribute listing both traits, two stacked attributes, one
        // trait only), used: the order of the generated impls must not depend on the process
        if d.chance(90) {
            let fi = d.below(files.len());
            let n = 1 + d.below(3);
            let mut decls = String::new();
            let mut uses = vec![];
            for j in 0..n {
                let attrs = match d.below(4) {
                    0 => "#[derive(ToString, ToJson)]\n",
                    1 => "#[derive(ToJson, ToString)]\n",
                    2 => "#[derive(ToString)]\n#[derive(ToJson)]\n",
                    _ => "#[derive(ToJson)]\n",
                };
                let both = !attrs.starts_with("#[derive(ToJson)]\n") || attrs.contains("ToString");
                if d.bool() {
                    decls.push_str(&format!("{attrs}struct Dv{j} {{ a: int32, b: int32 }}\n"));
                    uses.push(format!("Dv{j} {{ a: {j}, b: 2 }}.to_json()"));
                    if both {
                        uses.push(format!("Dv{j} {{ a: {j}, b: 3 }}.to_string()"));
                    }
                } else {
                    decls.push_str(&format!("{attrs}enum Dw{j} {{ Da{j}, Db{j}(int32) }}\n"));
                    uses.push(format!("Dw{j}::Db{j}({j}).to_json()"));
                    if both {
                        uses.push(format!("Dw{j}::Da{j}.to_string()"));
                    }
                }
            }
            decls.push_str(&format!("fn derived_{fi}() -> string {{\n    {}\n}}\n", uses.join(" + ")));
            files[fi].1.push('\n');
            files[fi].1.push_str(&decls);
            labels.push("derive>=1".into());
            if decls.contains("ToString, ToJson") || decls.contains("ToJson, ToString") || decls.contains("#[derive(ToString)]\n#[derive(ToJson)]") {
                labels.push("derive:both-traits".into());
            }
        }
        // generic instances that occur only in the fields of non-generic types nobody uses: the order
        // in which their definitions are emitted must not depend on the process
        if d.chance(70) {
            let fi = d.below(files.len());
            let mut t = String::from("enum Opt13[T] { None13, Some13(T) }\nstruct Pair13[A, B] { fst: A, snd: B }\n");
            const ARGS: [&str; 6] = ["int32", "string", "bool", "int64", "uint8", "unit"];
            let n = 2 + d.below(4);
            for j in 0..n {
                let a = ARGS[(j + d.below(3)) % ARGS.len()];
                let b = ARGS[(j * 2 + 1) % ARGS.len()];
                if d.bool() {
                    t.push_str(&format!("enum Holder13x{j} {{ H{j}a(Opt13[{a}]), H{j}b(Pair13[{a}, {b}]) }}\n"));
                } else {
                    t.push_str(&format!("struct Holder13x{j} {{ o: Opt13[{b}], p: Pair13[{b}, {a}] }}\n"));
                }
            }
            files[fi].1.push('\n');
            files[fi].1.push_str(&t);
            labels.push("unused-generic-instances".into());
        }
        // an impl that lacks several of its trait's methods / defines several the trait does not have:
        // the diagnostics (several for one item) must come in one order in every process
        if d.chance(40) {
            let fi = d.below(files.len());
            let nm = 3 + d.below(4);
            let have = d.below(2);
            let mut t = String::from("trait Wide13 {\n");
            for m in 0..nm {
                t.push_str(&format!("    fn w{m}(Self) -> int32;\n"));
            }
            t.push_str("}\nstruct Narrow13 { x: int32 }\nimpl Wide13 for Narrow13 {\n");
            for m in 0..have {
                t.push_str(&format!("    fn w{m}(self: Narrow13) -> int32 {{ self.x }}\n"));
            }
            for m in 0..d.below(3) {
                t.push_str(&format!("    fn extra{m}(self: Narrow13) -> int32 {{ {m} }}\n"));
            }
            t.push_str("}\n");
            files[fi].1.push('\n');
            files[fi].1.push_str(&t);
            labels.push("broken".into());
            labels.push("broken:impl-missing-methods".into());
        }
        // a random creation order of the files
        let mut perm: Vec<usize> = (0..files.len()).collect();
        for i in 0..perm.len() {
            let j = i + d.below(perm.len() - i);
            perm.swap(i, j);
        }
        // files_to_json sorts by path: the permutation refers to that order
        let sorted = goml::files_from_json(&goml::files_to_json(&files));
        let processes = if index % 4 == 0 { 2 } else { 1 };
        Case::new(json!({"files": goml::files_to_json(&sorted), "labels": labels, "perm": perm, "processes": processes}))
    }
    fn judge(&self, _phase: &str, case: &Case, ctx: &mut Ctx) -> CaseOut {
        let files = goml::files_from_json(&case.input["files"]);
        if files.is_empty() {
            return CaseOut::discard("no-files");
        }
        judge_project(&files, &case.input, ctx)
    }
    fn rule(&self) -> String {
        format!(
            "corpus: the {} sample projects; gen: generated legal projects (projgen, 1-5 packages); failing: the same with 1-4 text replacements spread over the files (several diagnostics from several packages). One run's output = whole-program compile (stage; Go text; ast, hir, tast, core, mono, lift, anf dumps as the CLI prints them; or the diagnostics with stage, severity, range and message in order, project root replaced by <ROOT>) + separate pipeline in goml's own topological order (per package: check_package's interface_hash and JSON, build_package's interface_hash, interface JSON and core JSON with the root prefix of `sources` normalised, or the error; the linked Go text). Oracle: (a) two runs in one process (every HashMap gets fresh keys) give identical outputs; (b) 1-2 fresh processes (`verif replay C13` on a dump case) report the same digest; (c) the project written to another, deeper root with files and directories created in the reverse of a random order gives identical outputs; no output except diagnostics mentions the root path. A third of the generated projects bind 2-4 Go packages with extern declarations that main calls; packages may have files whose names differ only in case; in the third run every package's files are handed to check/build in reverse order. Non-trivial = some package has >= 2 imports or the compile reports >= 2 diagnostics; distinct by hash of the files.",
            corpus::project_cases().len()
        )
    }
    fn assumptions(&self) -> Vec<String> {
        vec![
            "Directory enumeration order on tmpfs follows creation order (reverse or hashed), so creating entries in another order changes what read_dir yields".into(),
            "Hash seeds: std's RandomState draws fresh keys per process and per map; no other source of nondeterminism (time, addresses, threads) is varied explicitly".into(),
            "Stage dumps are taken through the same to_pretty entry points the CLI's --dump-* flags use".into(),
        ]
    }
    fn required_labels(&self, _tier: Tier) -> Vec<&'static str> {
        vec!["stage:ok", "stage:typer", "diagnostics>=2", "imports>=2", "processes", "multi-file", "shape:diamond", "derive:both-traits", "extern-go>=2", "broken:impl-missing-methods", "unused-generic-instances"]
    }
}
