//! C11 — source text is read as written: precedence, associativity, literal
//! fidelity.  Trees of the harness' own syntax model (`treegen`) are printed
//! with only the necessary parentheses and random trivia, parsed with
//! `parse_ast_file`, converted back and compared; literal spellings are
//! compared with the characters / values they denote.

use crate::driver::*;
use crate::goml;
use crate::sandbox;
use crate::treegen::{self as tg, File, PrintOpts, Sx, E};
use crate::util::*;
use ast::ast as A;
use diagnostics::Severity;
use serde_json::{json, Value};
use std::path::Path;

pub struct C11;

// ---------------------------------------------------------------- tree cases

fn pseudo_bytes(seed: u64, n: usize) -> Vec<u8> {
    let mut out = Vec::with_capacity(n);
    let mut x = seed;
    while out.len() < n {
        x = splitmix(x);
        // two thirds of the gaps keep the tightest spelling
        for b in x.to_le_bytes() {
            out.push(if b % 3 == 0 { b } else { 0 });
        }
    }
    out.truncate(n);
    out
}

fn tree_case(file: &File, d: &mut Dec, mut opts: PrintOpts, extra_labels: &[&str], ctx: &mut Ctx) -> Value {
    let sh = tg::shapes_file(file);
    if sh.labels.contains("item:attr") && ctx.closed_gates.contains(tg::GATE_ATTR_COMMENT) {
        ctx.gated(tg::GATE_ATTR_COMMENT);
        opts.no_comment_after_attr = true;
    }
    let printed = tg::print_file(file, d, opts);
    let mut labels: Vec<String> = sh.labels.iter().cloned().collect();
    if printed.needed_parens > 0 {
        labels.push("shape:parens-needed".into());
    }
    if !printed.text.is_ascii() || printed.text.contains("//") {
        labels.push("trivia:comment-or-unicode".into());
    }
    for l in extra_labels {
        labels.push(l.to_string());
    }
    // exhaustive phases cannot avoid a gated shape: the case is discarded
    let mut gated = Value::Null;
    for (hit, gate) in [
        (sh.callee_complex, tg::GATE_CALLEE),
        (sh.prefix_call, tg::GATE_PREFIX_CALL),
        (opts.full_parens && sh.has_call, tg::GATE_PAREN_CALLEE),
    ] {
        if hit && ctx.gated(gate) {
            gated = json!(gate);
        }
    }
    json!({
        "kind": "tree",
        "gated": gated,
        "mode": if opts.full_parens { "fullparen" } else { "minimal" },
        "text": printed.text,
        "expected": tg::render_file(file),
        "labels": labels,
        "nontrivial": sh.nontrivial,
        "nodes": sh.nodes,
    })
}

fn first_error(e: &compiler::pipeline::pipeline::CompilationError) -> String {
    e.diagnostics()
        .iter()
        .find(|d| d.severity() == Severity::Error)
        .map(|d| d.message().to_string())
        .unwrap_or_else(|| "no error diagnostic".into())
}

fn coarse_message(m: &str) -> String {
    if m.starts_with("Cannot apply arguments to") {
        return "Cannot apply arguments".into();
    }
    let n = sandbox::normalise(m);
    let cut = n.find(" {").or_else(|| n.find(": ")).unwrap_or(n.len());
    truncate_plain(&n[..cut], 70)
}

fn truncate_plain(s: &str, max: usize) -> String {
    let mut end = s.len().min(max);
    while !s.is_char_boundary(end) {
        end -= 1;
    }
    s[..end].trim_end().to_string()
}

enum Parsed {
    Ok(A::File),
    Rejected(String, String),
    Panic(sandbox::PanicInfo),
}

fn parse(text: &str) -> Parsed {
    let r = sandbox::cli(|| compiler::pipeline::pipeline::parse_ast_file(Path::new("main.gom"), text));
    match r {
        Err(p) => Parsed::Panic(p),
        Ok(Err(e)) => Parsed::Rejected(goml::error_stage(&e).to_string(), first_error(&e)),
        Ok(Ok(f)) => Parsed::Ok(f),
    }
}

/// The tree oracle: Ok(()) or Err((signature, detail)).
pub fn tree_oracle(text: &str, expected: &str, mode: &str) -> Result<(), (String, String)> {
    let tag = if mode == "fullparen" { "roundtrip-fullparen" } else { "roundtrip" };
    match parse(text) {
        Parsed::Panic(p) => Err((
            format!("C11|panic|{}", p.signature()),
            format!("panic at {}:{}: {}\n--- text\n{}", p.file, p.line, p.message, text),
        )),
        Parsed::Rejected(stage, msg) => {
            let kind = if mode == "fullparen" { "rejected-fullparen" } else { "rejected" };
            Err((
                format!("C11|{kind}|{stage}|{}", coarse_message(&msg)),
                format!("the printed tree does not parse: [{stage}] {msg}\n--- text\n{text}\n--- expected tree\n{}", truncate_str(expected, 1500)),
            ))
        }
        Parsed::Ok(ast) => {
            let conv = sandbox::guarded(|| tg::render_file(&tg::file_from_ast(&ast).0));
            let actual = match conv {
                Ok(s) => s,
                Err(p) => return Err(("C11|harness|converter-panic".into(), p.message)),
            };
            if actual == expected {
                return Ok(());
            }
            let (what, detail) = match (Sx::parse(expected), Sx::parse(&actual)) {
                (Some(e), Some(a)) => tg::first_diff(&e, &a, "root").unwrap_or(("render".into(), "renderings differ".into())),
                _ => ("unparsable-rendering".into(), String::new()),
            };
            // one signature for every way a call is lost / re-attached
            let what = if what == "call-arity" || what.starts_with("call/") {
                let to = what.strip_prefix("call/").unwrap_or("call");
                match to {
                    "binary" | "unary" | "path" | "field" | "proj" | "call" | "constr" => format!("call/{to}"),
                    _ => "call/other".to_string(),
                }
            } else {
                what
            };
            Err((
                format!("C11|{tag}|{what}"),
                format!("parse(print(t)) != t\n{detail}\n--- text\n{text}"),
            ))
        }
    }
}

fn judge_tree(input: &Value) -> CaseOut {
    let text = input["text"].as_str().unwrap_or("");
    let expected = input["expected"].as_str().unwrap_or("");
    let mode = input["mode"].as_str().unwrap_or("minimal");
    let key = fnv_str(text);
    let labels = labels_of(input);
    if let Some(g) = input["gated"].as_str() {
        return CaseOut::discard(&format!("gated:{g}"));
    }
    match tree_oracle(text, expected, mode) {
        Ok(()) => CaseOut::pass(input["nontrivial"].as_bool().unwrap_or(false), key).labelled(labels),
        Err((sig, detail)) => {
            // the string-escape defect seen through a whole-file round trip
            let sig = if sig == "C11|roundtrip|atom-in-str" && labels.iter().any(|l| l == "expr:string-escaped") {
                "C11|literal|string-escape".to_string()
            } else {
                sig
            };
            CaseOut::fail(sig, detail, key).labelled(labels)
        }
    }
}

fn labels_of(input: &Value) -> Vec<String> {
    input["labels"]
        .as_array()
        .map(|a| a.iter().filter_map(|x| x.as_str().map(|s| s.to_string())).collect())
        .unwrap_or_default()
}

fn ops_case(n: usize, idx: u64, seed: u64, full: bool, ctx: &mut Ctx) -> Value {
    let e = tg::op_tree(n, idx);
    let h = mix(seed, mix(n as u64 * 2 + full as u64, idx));
    let file = tg::wrap_expr(e, h >> 7);
    let bytes = pseudo_bytes(h, 96);
    let mut d = Dec::new(&bytes);
    let opts = PrintOpts { full_parens: full, ..PrintOpts::default() };
    tree_case(&file, &mut d, opts, &[], ctx)
}

fn random_case(bytes: &[u8], ctx: &mut Ctx) -> Value {
    let mut d = Dec::new(bytes);
    let fuel = ctx.tier.pick(60, 200) as i32;
    let (file, hits) = {
        let mut g = tg::Gen::new(&mut d, fuel, ctx.closed_gates.clone());
        let f = g.file();
        (f, std::mem::take(&mut g.hits))
    };
    for h in hits {
        ctx.gated(h);
    }
    tree_case(&file, &mut d, PrintOpts::default(), &[], ctx)
}

// ------------------------------------------------------------- literal cases

const SIMPLE_ESCAPES: [(&str, char); 8] = [
    ("\\\"", '"'),
    ("\\\\", '\\'),
    ("\\/", '/'),
    ("\\b", '\u{8}'),
    ("\\f", '\u{c}'),
    ("\\n", '\n'),
    ("\\r", '\r'),
    ("\\t", '\t'),
];
const INT_SUFFIXES: [&str; 9] = ["", "i8", "i16", "i32", "i64", "u8", "u16", "u32", "u64"];
const FLOAT_SUFFIXES: [&str; 3] = ["", "f32", "f64"];

fn u_escape(cp: u32, upper: bool) -> String {
    let one = |u: u32| if upper { format!("\\u{:04X}", u) } else { format!("\\u{:04x}", u) };
    if cp >= 0x10000 {
        // JSON convention: a supplementary character is a surrogate pair
        let v = cp - 0x10000;
        format!("{}{}", one(0xD800 + (v >> 10)), one(0xDC00 + (v & 0x3FF)))
    } else {
        one(cp)
    }
}

fn lit_text(lit: &str, ctx_kind: &str, multiline: bool, crlf: bool) -> String {
    let nl = if crlf { "\r\n" } else { "\n" };
    let after = if multiline { nl } else { "" };
    if ctx_kind == "pat" {
        format!("fn main() {{ match s {{ {lit}{after} => 1, _ => 2 }} }}{nl}")
    } else {
        format!("fn main() {{ let s = {lit}{after}; }}{nl}")
    }
}

fn string_lit_case(spelling: String, denoted: String, ctx_kind: &str, class: &str, mut labels: Vec<String>) -> Value {
    let multiline = class.starts_with("multiline");
    if ctx_kind == "pat" {
        labels.push("lit:in-pattern".into());
    }
    labels.push(format!("lit:{class}"));
    let nontrivial = spelling.trim_matches('"') != denoted || !denoted.is_ascii();
    json!({
        "kind": "lit", "lit": "string", "class": class, "ctx": ctx_kind,
        "text": lit_text(&spelling, ctx_kind, multiline, class == "multiline-crlf"),
        "spelling": spelling, "expected": denoted, "labels": labels, "nontrivial": nontrivial,
    })
}

fn int_lit_case(digits: &str, suffix: &str, ctx_kind: &str) -> Value {
    let mut labels = vec!["lit:int".to_string()];
    if digits.len() > 1 && digits.starts_with('0') {
        labels.push("lit:int-leading-zero".into());
    }
    if !suffix.is_empty() {
        labels.push("lit:int-suffix".into());
    }
    if ctx_kind == "pat" {
        labels.push("lit:in-pattern".into());
    }
    let spelling = format!("{digits}{suffix}");
    json!({
        "kind": "lit", "lit": "int", "class": "int", "ctx": ctx_kind,
        "text": lit_text(&spelling, ctx_kind, false, false),
        "spelling": spelling, "expected": digits, "suffix": suffix, "labels": labels,
        "nontrivial": labels.len() > 1,
    })
}

/// `bits`: the f64 the digits denote
fn float_lit_case(digits: &str, suffix: &str, bits: u64, exact: bool) -> Value {
    let mut labels = vec!["lit:float".to_string()];
    if !suffix.is_empty() {
        labels.push("lit:float-suffix".into());
    }
    if exact {
        labels.push("lit:float-exact-oracle".into());
    }
    let spelling = format!("{digits}{suffix}");
    json!({
        "kind": "lit", "lit": "float", "class": "float", "ctx": "expr",
        "text": lit_text(&spelling, "expr", false, false),
        "spelling": spelling, "expected": digits, "suffix": suffix, "bits": format!("{:016x}", bits),
        "labels": labels, "nontrivial": true,
    })
}

/// k / 2^m written as an exact finite decimal (independent of any float parser)
fn dyadic_decimal(k: u64, m: u32) -> (String, f64) {
    let num = k as u128 * 5u128.pow(m);
    let mut s = num.to_string();
    while s.len() < m as usize + 1 {
        s.insert(0, '0');
    }
    let cut = s.len() - m as usize;
    let text = if m == 0 { format!("{s}.0") } else { format!("{}.{}", &s[..cut], &s[cut..]) };
    (text, k as f64 / (1u64 << m) as f64)
}

const RAW_ASCII: [&str; 12] = ["a", "Z", "0", " ", "'", "/", "{", "#", "~", "n", "u0041", "x y"];
const RAW_UNI: [&str; 10] = ["é", "漢", "😀", "\u{7f}", "\u{a0}", "\u{2028}", "\u{feff}", "\u{e000}", "\u{10ffff}", "ß"];
const ML_PIECES: [&str; 14] = ["a", " ", "\"", "\\", "\\n", "//", "\t", "é", "😀", "\\\\", "x y z", "\"q\"", "'", "\\u0041"];

fn random_literal(d: &mut Dec, ctx: &mut Ctx) -> Value {
    match d.weighted(&[45, 20, 15, 20]) {
        0 => {
            // quoted string
            let n = d.below(10);
            let mut spelling = String::from("\"");
            let mut denoted = String::new();
            let mut labels = vec![];
            let mut escaped = false;
            let esc_closed = ctx.closed_gates.contains(tg::GATE_ESCAPE);
            for _ in 0..n {
                let mut k = d.weighted(&[40, 15, 25, 12, 4, 4]);
                if k >= 2 && esc_closed {
                    ctx.gated(tg::GATE_ESCAPE);
                    k = 0;
                }
                match k {
                    0 => {
                        let p = d.pick(&RAW_ASCII);
                        spelling.push_str(p);
                        denoted.push_str(p);
                    }
                    1 => {
                        let p = d.pick(&RAW_UNI);
                        spelling.push_str(p);
                        denoted.push_str(p);
                        labels.push("lit:string-raw-unicode".to_string());
                    }
                    2 => {
                        let (s, c) = d.pick(&SIMPLE_ESCAPES);
                        spelling.push_str(s);
                        denoted.push(c);
                        escaped = true;
                    }
                    3 => {
                        let cp = if d.bool() { d.below(0xD800) as u32 } else { 0xE000 + d.below(0x2000) as u32 };
                        spelling.push_str(&u_escape(cp, d.bool()));
                        denoted.push(char::from_u32(cp).unwrap_or('?'));
                        escaped = true;
                        labels.push("lit:string-unicode-escape".to_string());
                    }
                    4 => {
                        let cp = 0x10000 + d.below(0x10000) as u32 * 16 + d.below(16) as u32;
                        spelling.push_str(&u_escape(cp, d.bool()));
                        denoted.push(char::from_u32(cp).unwrap_or('?'));
                        escaped = true;
                        labels.push("lit:string-surrogate-pair".to_string());
                    }
                    _ => {
                        spelling.push_str("\\u0000");
                        denoted.push('\0');
                        escaped = true;
                        labels.push("lit:string-unicode-escape".to_string());
                    }
                }
            }
            spelling.push('"');
            labels.sort();
            labels.dedup();
            let ctx_kind = if d.chance(64) { "pat" } else { "expr" };
            string_lit_case(spelling, denoted, ctx_kind, if escaped { "string-escape" } else { "string-raw" }, labels)
        }
        1 => {
            // multi-line string: no escapes, quotes and backslashes stand for themselves
            let n = 2 + d.below(3);
            let crlf = d.chance(40) && !ctx.gated(tg::GATE_CRLF);
            let nl = if crlf { "\r\n" } else { "\n" };
            let mut lines = vec![];
            let mut spelling = String::new();
            for i in 0..n {
                let k = d.below(5);
                let line: String = (0..k).map(|_| d.pick(&ML_PIECES)).collect();
                if i > 0 {
                    spelling.push_str(nl);
                    spelling.push_str(d.pick(&["", "    ", "\t", " \t "]));
                }
                spelling.push_str("\\\\");
                spelling.push_str(&line);
                lines.push(line);
            }
            string_lit_case(spelling, lines.join("\n"), "expr", if crlf { "multiline-crlf" } else { "multiline" }, vec![])
        }
        2 => {
            let len = 1 + d.below(24);
            let mut digits = String::new();
            if d.chance(64) {
                digits.push_str(d.pick(&["0", "00", "000"]));
            }
            for _ in 0..len {
                digits.push((b'0' + d.below(10) as u8) as char);
            }
            let suffix = d.pick(&INT_SUFFIXES);
            int_lit_case(&digits, suffix, if d.chance(80) { "pat" } else { "expr" })
        }
        _ => {
            let suffix = d.pick(&FLOAT_SUFFIXES);
            if d.bool() {
                let k = d.u64() >> (24 + d.below(40));
                let (mut text, v) = dyadic_decimal(k, d.below(13) as u32);
                if d.chance(64) {
                    text.insert_str(0, d.pick(&["0", "00"]));
                }
                if d.chance(64) {
                    text.push_str(d.pick(&["0", "000"]));
                }
                float_lit_case(&text, suffix, v.to_bits(), true)
            } else {
                let mut text = String::new();
                for _ in 0..1 + d.below(20) {
                    text.push((b'0' + d.below(10) as u8) as char);
                }
                text.push('.');
                for _ in 0..1 + d.below(20) {
                    text.push((b'0' + d.below(10) as u8) as char);
                }
                let v: f64 = text.parse().unwrap_or(f64::NAN);
                float_lit_case(&text, suffix, v.to_bits(), false)
            }
        }
    }
}

/// the enumerated literal spellings (every escape of the lexer's Str regex in
/// four positions and two contexts, integer and float spellings per suffix)
pub fn lit_enum_cases() -> Vec<Value> {
    let mut out = vec![];
    let mut escapes: Vec<(String, String, Vec<String>)> = SIMPLE_ESCAPES
        .iter()
        .map(|(s, c)| (s.to_string(), c.to_string(), vec![]))
        .collect();
    for (cp, upper) in [(0x41u32, false), (0xe9, false), (0xE9, true), (0x1F600, true), (0, false), (0xFFFF, false), (0x2028, true), (0x1f, false)] {
        let mut labels = vec!["lit:string-unicode-escape".to_string()];
        if cp >= 0x10000 {
            labels.push("lit:string-surrogate-pair".into());
        }
        escapes.push((u_escape(cp, upper), char::from_u32(cp).unwrap_or('?').to_string(), labels));
    }
    for (s, c, labels) in &escapes {
        for (pre, post, twice) in [("", "", false), ("a", "", false), ("", "b", false), ("", "", true)] {
            for ctx_kind in ["expr", "pat"] {
                let rep = if twice { 2 } else { 1 };
                let spelling = format!("\"{pre}{}{post}\"", s.repeat(rep));
                let denoted = format!("{pre}{}{post}", c.repeat(rep));
                out.push(string_lit_case(spelling, denoted, ctx_kind, "string-escape", labels.clone()));
            }
        }
    }
    for raw in ["", "plain", "é漢😀", "a/b'c", "\u{7f}\u{a0}\u{2028}"] {
        for ctx_kind in ["expr", "pat"] {
            out.push(string_lit_case(format!("\"{raw}\""), raw.to_string(), ctx_kind, "string-raw", vec![]));
        }
    }
    for (lines, indent, crlf) in [
        (vec!["a", "b"], "", false),
        (vec!["", ""], "  ", false),
        (vec!["say \"hi\"", "back\\slash \\n stays", "tail  "], "\t", false),
        (vec!["// not a comment", "é😀"], "    ", false),
        (vec!["a", "b"], "", true),
        (vec!["x", "", "z"], "  ", true),
    ] {
        let nl = if crlf { "\r\n" } else { "\n" };
        let spelling = lines
            .iter()
            .enumerate()
            .map(|(i, l)| format!("{}\\\\{l}", if i > 0 { indent } else { "" }))
            .collect::<Vec<_>>()
            .join(nl);
        out.push(string_lit_case(spelling, lines.join("\n"), "expr", if crlf { "multiline-crlf" } else { "multiline" }, vec![]));
    }
    for suffix in INT_SUFFIXES {
        for digits in ["0", "7", "007", "255", "18446744073709551615", "340282366920938463463374607431768211455"] {
            for ctx_kind in ["expr", "pat"] {
                out.push(int_lit_case(digits, suffix, ctx_kind));
            }
        }
    }
    for suffix in FLOAT_SUFFIXES {
        for (k, m) in [(0u64, 0u32), (3, 1), (1, 3), (5, 0), (1u64 << 52, 0), ((1u64 << 53) - 1, 10), (1, 20)] {
            let (text, v) = dyadic_decimal(k, m);
            out.push(float_lit_case(&text, suffix, v.to_bits(), true));
            out.push(float_lit_case(&format!("00{text}00"), suffix, v.to_bits(), true));
        }
        for text in ["0.1", "3.14159", "0.30000000000000004", "1.0000000000000002", "123456789.000000001", "9007199254740993.0"] {
            let v: f64 = text.parse().unwrap_or(f64::NAN);
            out.push(float_lit_case(text, suffix, v.to_bits(), false));
        }
    }
    out
}

fn strip_zeros(s: &str) -> &str {
    let t = s.trim_start_matches('0');
    if t.is_empty() { "0" } else { t }
}

/// (kind, suffix, text) of a literal node of the AST
fn lit_of_expr(e: &A::Expr) -> Option<(&'static str, &'static str, String)> {
    Some(match tg::expr_from_ast(e) {
        E::Int(d, s) => ("int", s, d),
        E::Str(s) => ("string", "", s),
        E::Float(d, s) => {
            if let A::Expr::EFloat { value, .. } = e {
                ("float", "", format!("{:016x}", value.to_bits()))
            } else {
                ("float", s, d)
            }
        }
        _ => return None,
    })
}

fn lit_of_pat(p: &A::Pat) -> Option<(&'static str, &'static str, String)> {
    Some(match tg::pat_from_ast(p) {
        tg::Pat::Int(d, s) => ("int", s, d),
        tg::Pat::Str(s) => ("string", "", s),
        _ => return None,
    })
}

fn judge_lit(input: &Value) -> CaseOut {
    let text = input["text"].as_str().unwrap_or("");
    let class = input["class"].as_str().unwrap_or("?");
    let kind = input["lit"].as_str().unwrap_or("?");
    let expected = input["expected"].as_str().unwrap_or("");
    let suffix = input["suffix"].as_str().unwrap_or("");
    let key = fnv_str(text);
    let labels = labels_of(input);
    let nontrivial = input["nontrivial"].as_bool().unwrap_or(true);
    let fail = |what: &str, detail: String| {
        CaseOut::fail(
            format!("C11|literal|{class}{what}"),
            format!("{detail}\n--- spelling\n{}\n--- text\n{text}", input["spelling"].as_str().unwrap_or("")),
            key,
        )
        .labelled(labels.clone())
    };
    let ast = match parse(text) {
        Parsed::Panic(p) => {
            return CaseOut::fail(format!("C11|panic|{}", p.signature()), format!("{}\n--- text\n{text}", p.message), key).labelled(labels)
        }
        Parsed::Rejected(stage, msg) => return fail("|rejected", format!("[{stage}] {msg}")),
        Parsed::Ok(a) => a,
    };
    let found = (|| {
        let A::Item::Fn(f) = ast.toplevels.first()? else { return None };
        let A::Expr::EBlock { exprs, .. } = &f.body else { return None };
        match exprs.first()? {
            A::Expr::ELet { value, .. } => lit_of_expr(value),
            A::Expr::EMatch { arms, .. } => lit_of_pat(&arms.first()?.pat),
            _ => None,
        }
    })();
    let Some((akind, asuffix, atext)) = found else {
        return fail("|not-a-literal", "the AST has no literal node where the literal was written".into());
    };
    if akind != kind || asuffix != suffix {
        return fail("|kind", format!("expected a {kind} literal with suffix {suffix:?}, the AST has {akind} with suffix {asuffix:?}"));
    }
    let ok = match kind {
        "string" => atext == expected,
        "int" => atext.bytes().all(|b| b.is_ascii_digit()) && strip_zeros(&atext) == strip_zeros(expected),
        _ => {
            let bits = input["bits"].as_str().unwrap_or("");
            if suffix.is_empty() {
                atext == bits
            } else {
                // suffixed literals keep their digits: they must denote the same number
                atext.parse::<f64>().map(|v| format!("{:016x}", v.to_bits())).ok().as_deref() == Some(bits)
            }
        }
    };
    if ok {
        CaseOut::pass(nontrivial, key).labelled(labels)
    } else {
        fail("", format!("the literal denotes {:?}\nthe AST holds       {:?}", expected, atext))
    }
}

// ------------------------------------------------------------- sensitivity

/// Prints every tree of `n` operators with the correct and with a
/// deliberately wrong printer (no precedence parentheses).  Returns
/// (trees that need parentheses, wrong-printer texts the oracle rejects,
///  trees accepted with the correct printer).
pub fn sensitivity(n: usize) -> (u64, u64, u64) {
    let (mut need, mut caught, mut good) = (0, 0, 0);
    for idx in 0..tg::op_tree_count(n) {
        let file = tg::wrap_expr(tg::op_tree(n, idx), 0);
        let expected = tg::render_file(&file);
        let right = tg::print_file(&file, &mut Dec::new(&[]), PrintOpts::default());
        if tree_oracle(&right.text, &expected, "minimal").is_ok() {
            good += 1;
        }
        if right.needed_parens == 0 {
            continue;
        }
        need += 1;
        let wrong = tg::print_file(&file, &mut Dec::new(&[]), PrintOpts { omit_parens: true, ..PrintOpts::default() });
        if tree_oracle(&wrong.text, &expected, "minimal").is_err() {
            caught += 1;
        }
    }
    (need, caught, good)
}

// -------------------------------------------------------------------- check

impl Check for C11 {
    fn id(&self) -> &'static str {
        "C11"
    }
    fn phases(&self, tier: Tier) -> Vec<PhaseSpec> {
        let (p2, p3) = (tg::op_tree_count(2), tg::op_tree_count(3));
        let mut v = vec![
            PhaseSpec { name: "pairs", cases: p2, max_bytes: 0, exhaustive: true },
            PhaseSpec { name: "triples", cases: p3, max_bytes: 0, exhaustive: true },
        ];
        if tier == Tier::Thorough {
            v.push(PhaseSpec { name: "quads", cases: tg::op_tree_count(4), max_bytes: 0, exhaustive: true });
        }
        v.push(PhaseSpec { name: "fullparen", cases: p2 + p3, max_bytes: 0, exhaustive: true });
        v.push(PhaseSpec { name: "selftest", cases: 1, max_bytes: 0, exhaustive: true });
        v.push(PhaseSpec { name: "lit-enum", cases: lit_enum_cases().len() as u64, max_bytes: 0, exhaustive: true });
        v.push(PhaseSpec { name: "literals", cases: tier.pick(80_000, 400_000), max_bytes: 64, exhaustive: false });
        v.push(PhaseSpec {
            name: "random",
            cases: tier.pick(150_000, 1_200_000),
            max_bytes: tier.pick(400, 1200) as usize,
            exhaustive: false,
        });
        v
    }
    fn make(&self, phase: &str, index: u64, bytes: &[u8], ctx: &mut Ctx) -> Case {
        let seed = ctx.seed;
        let v = match phase {
            "selftest" => json!({"kind": "selftest"}),
            "pairs" => ops_case(2, index, seed, false, ctx),
            "triples" => ops_case(3, index, seed, false, ctx),
            "quads" => ops_case(4, index, seed, false, ctx),
            "fullparen" => {
                let p2 = tg::op_tree_count(2);
                if index < p2 {
                    ops_case(2, index, seed, true, ctx)
                } else {
                    ops_case(3, index - p2, seed, true, ctx)
                }
            }
            "lit-enum" => {
                let all = lit_enum_cases();
                let mut v = all.get(index as usize).cloned().unwrap_or(Value::Null);
                if v["class"] == "string-escape" && ctx.gated(tg::GATE_ESCAPE) {
                    v["gated"] = json!(tg::GATE_ESCAPE);
                }
                if v["class"] == "multiline-crlf" && ctx.gated(tg::GATE_CRLF) {
                    v["gated"] = json!(tg::GATE_CRLF);
                }
                v
            }
            "literals" => random_literal(&mut Dec::new(bytes), ctx),
            _ => random_case(bytes, ctx),
        };
        Case::new(v)
    }
    fn judge(&self, _phase: &str, case: &Case, _ctx: &mut Ctx) -> CaseOut {
        match case.input["kind"].as_str() {
            Some("selftest") => {
                let (need, caught, _) = sensitivity(2);
                let labels = if need > 0 && caught == need { vec!["selftest:sensitivity-ok".to_string()] } else { vec![] };
                CaseOut::pass(false, 1).labelled(labels)
            }
            Some("lit") => {
                if let Some(g) = case.input["gated"].as_str() {
                    return CaseOut::discard(&format!("gated:{g}"));
                }
                judge_lit(&case.input)
            }
            Some("tree") => judge_tree(&case.input),
            _ => CaseOut::discard("malformed-case"),
        }
    }
    fn setup(&self, _ctx: &mut Ctx) -> Result<Value, String> {
        // the comparison must not be vacuous: a printer that omits the needed
        // parentheses has to be caught for every pair that needs them
        // (a shortfall is not an error here: the parser under test may be the cause, and
        // then the pairs phase reports it; the `selftest` case withholds its label, which
        // makes a run without violations inconclusive)
        let (need, caught, good) = sensitivity(2);
        Ok(json!({"sensitivity_pairs_needing_parens": need, "wrong_printer_caught": caught,
                  "pairs_accepted_with_correct_printer": good, "pairs": tg::op_tree_count(2)}))
    }
    fn rule(&self) -> String {
        "pairs/triples (quads in the thorough tier): EVERY expression tree with exactly 2 / 3 (4) operator nodes over 20 operators (12 binary, `.f`, `.0`, calls `x(y)` `x()`, method calls `x.m(y)` `x.m()`, unary `-`, `!`) and atoms a,b,c…, in one of three contexts (block value, let value, if head), printed with only the parentheses the documented precedence table requires (|| < && < == != < comparisons < + - < * / < unary < postfix; binary operators left-associative) plus lexically forced ones, with pseudo-random trivia. fullparen: the same pairs and triples with every sub-expression parenthesised (parentheses must be transparent). random: byte-decoded whole files over all item / expression / pattern / type forms of the harness' own syntax model (<=60 nodes quick, <=200 thorough) with random spelling freedoms (trailing commas, shorthand fields, optional `;`, `()` vs no block value) and random trivia (blanks, newlines, CRLF, `//` comments) between any two tokens. Oracle for trees: parse_ast_file(text) succeeds and its AST, converted structurally to the model (positions dropped, generated derive impls skipped), renders to the same canonical S-expression as the generated tree. lit-enum/literals: every escape of the lexer's string regex in 4 positions x {expression, pattern}, random strings (raw ASCII/Unicode, escapes, \\uXXXX, surrogate pairs), multi-line strings (LF and CRLF), integers (1-27 digits, leading zeros, all suffixes, expression and pattern), floats (exact dyadic decimals with an integer-arithmetic oracle, random decimals, all suffixes); oracle: the AST literal has the written kind/suffix and holds exactly the denoted characters (JSON escape conventions; multi-line: text after each `\\\\` joined by LF) or the denoted number. Non-trivial tree = it has two adjacent operators of different binding power or a prefix operator applied to a postfix one or vice versa; non-trivial literal = its spelling differs from its denotation, or it is non-ASCII, suffixed, has leading zeros, or is a float. Distinct by hash of the printed text.".into()
    }
    fn assumptions(&self) -> Vec<String> {
        vec![
            "compiler::pipeline::pipeline::parse_ast_file (parser::parse + ast::lower + derive::expand) is the front end every consumer uses; impl blocks generated by derive expansion directly after a derived struct/enum are skipped, not compared".into(),
            "What a literal denotes is taken from the language description and JSON escape conventions (\\n is a line feed, \\uXXXX a UTF-16 code unit, surrogate pairs combine), not from ast::lower; a multi-line string denotes the text after each `\\\\` joined by LF with no escape processing, and a CR before the line end belongs to the line terminator".into(),
            "Forms the AST cannot distinguish are one tree in the model: `{ e; }` = `{ e; () }`, `x.m(a)` = `(x.m)(a)`, `A -> B` = `(A) -> B`, omitted trait-method return type = `unit`, `None` = `None()`, `extern type T` = `extern \"go\" \"p\" type T`; a path is a constructor iff its last segment is an enum variant or struct name declared in the same file (the generator declares every constructor it uses)".into(),
            "Random decimal float spellings are compared with Rust's correctly rounded str::parse::<f64>; dyadic spellings with an exact integer-arithmetic expectation".into(),
            "Grammar restrictions respected by the printer (documented in treegen.rs): every non-final block expression needs `;`, a single shorthand field needs a trailing comma (`S { a, }`), `{}` after a head ending in an identifier is a struct literal (printed `{ () }` / parenthesised scrutinee), `t.0.1` needs `(t.0).1` or a blank, closures/go/else-expressions are parenthesised when an operator follows".into(),
        ]
    }
    fn required_labels(&self, _tier: Tier) -> Vec<&'static str> {
        vec![
            "selftest:sensitivity-ok",
            "shape:looser-under-tighter",
            "shape:tighter-under-looser",
            "shape:same-prec-left",
            "shape:same-prec-right",
            "shape:prefix-postfix",
            "shape:postfix-prefix",
            "shape:prefix-binary",
            "shape:postfix-binary",
            "shape:parens-needed",
            "shape:proj-float-hazard",
            "expr:closure",
            "expr:if",
            "expr:else-if",
            "expr:match",
            "expr:while",
            "expr:go",
            "expr:struct-lit",
            "expr:tuple",
            "expr:array",
            "expr:let-annotated",
            "expr:method-call",
            "expr:constr",
            "expr:multiline-string",
            "pat:constr",
            "pat:struct",
            "pat:tuple",
            "pat:int",
            "pat:string",
            "ty:fn",
            "ty:fn-returns-fn",
            "ty:fn-takes-fn",
            "ty:array",
            "ty:generic",
            "ty:dyn",
            "ty:tuple",
            "ty:path",
            "item:fn",
            "item:fn-bound-set",
            "item:struct",
            "item:enum",
            "item:trait",
            "item:impl-trait",
            "item:impl-inherent",
            "item:extern-go",
            "item:extern-type",
            "item:extern-builtin",
            "item:attr",
            "item:derive",
            "item:package",
            "item:import",
            "lit:string-raw",
            "lit:multiline",
            "lit:int",
            "lit:int-leading-zero",
            "lit:int-suffix",
            "lit:float",
            "lit:float-suffix",
            "lit:in-pattern",
        ]
    }
}

#[cfg(test)]
mod tests {
    use super::*;

    #[test]
    fn sx_roundtrip() {
        for idx in (0..tg::op_tree_count(3)).step_by(97) {
            let f = tg::wrap_expr(tg::op_tree(3, idx), idx);
            let sx = tg::file_sx(&f);
            assert_eq!(Sx::parse(&sx.render()), Some(sx));
        }
    }

    #[test]
    fn counts() {
        assert_eq!(tg::op_tree_count(1), 20);
        assert_eq!(tg::op_tree_count(2), 680);
        assert_eq!(tg::op_tree_count(3), 28720);
        // all trees of a size are distinct
        let mut seen = std::collections::HashSet::new();
        for idx in 0..680 {
            assert!(seen.insert(tg::render_file(&tg::wrap_expr(tg::op_tree(2, idx), 0))));
        }
    }

    /// the oracle is not vacuous: a printer that leaves out the necessary
    /// parentheses is caught for every pair and triple that needs them
    #[test]
    fn wrong_printer_is_caught() {
        for n in [2, 3] {
            let (need, caught, good) = sensitivity(n);
            eprintln!("n={n}: need parens {need}, wrong printer caught {caught}, correct printer accepted {good}");
            assert!(need > 0);
            assert_eq!(need, caught);
        }
        // a hand-written instance
        let e = E::Binary(
            "*",
            Box::new(E::Binary("+", Box::new(E::Path(vec!["a".into()])), Box::new(E::Path(vec!["b".into()])))),
            Box::new(E::Path(vec!["c".into()])),
        );
        let f = tg::wrap_expr(e, 0);
        let exp = tg::render_file(&f);
        let right = tg::print_file(&f, &mut Dec::new(&[]), PrintOpts::default());
        let wrong = tg::print_file(&f, &mut Dec::new(&[]), PrintOpts { omit_parens: true, ..PrintOpts::default() });
        assert!(right.text.contains("(a+b)*c"), "{}", right.text);
        assert!(wrong.text.contains("a+b*c"), "{}", wrong.text);
        assert!(tree_oracle(&right.text, &exp, "minimal").is_ok());
        let err = tree_oracle(&wrong.text, &exp, "minimal").unwrap_err();
        assert_eq!(err.0, "C11|roundtrip|binary/binary");
    }
}
