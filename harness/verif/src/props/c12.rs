//! C12 — the syntax tree is lossless and positions are exact.

use crate::corpus;
use crate::driver::*;
use crate::sandbox;
use crate::textgen;
use crate::util::*;
use parser::syntax::MySyntaxNode;
use serde_json::json;
use std::path::Path;

pub struct C12;

pub const ALPHABET: &[&str] = &[
    "(", ")", "{", "}", "[", "]", "=", ";", ",", ":", "::", "->", "=>", "+", "-", "*", "/", ".",
    "&", "|", "!", "<", ">", "#", "fn ", "let ", "x", "_", "1", "1.5", "2u8", "\"", "\"a\"", "\\\\",
    "\\", "\n", "\r\n", " ", "//", "é", "😀", "\t", "'", "\\\\ab\n", "match ", "\u{0}",
];

pub fn exhaustive_count(len: u32) -> u64 {
    let a = ALPHABET.len() as u64;
    (1..=len).map(|l| a.pow(l)).sum::<u64>() + 1
}

pub fn exhaustive_string(mut index: u64) -> String {
    let a = ALPHABET.len() as u64;
    if index == 0 {
        return String::new();
    }
    index -= 1;
    let mut len = 1;
    loop {
        let n = a.pow(len);
        if index < n {
            break;
        }
        index -= n;
        len += 1;
    }
    let mut s = String::new();
    for _ in 0..len {
        s.push_str(ALPHABET[(index % a) as usize]);
        index /= a;
    }
    s
}

/// The oracle. Returns Err(signature, detail) on a violation; Ok(had_errors).
pub fn lossless_oracle(text: &str) -> Result<bool, (String, String)> {
    let n = text.len();
    // 1. lexer: tokens tile the text
    let toks = match sandbox::guarded(|| lexer::lex(text)) {
        Ok(t) => t,
        Err(p) => return Err((format!("C12|panic|lex|{}", p.signature()), p.message)),
    };
    let mut pos = 0usize;
    for (i, t) in toks.iter().enumerate() {
        let s: usize = t.range.start().into();
        let e: usize = t.range.end().into();
        if s != pos || e < s || e > n {
            return Err((
                "C12|lex-tiling".into(),
                format!("token {i} {:?} has range {s}..{e}, expected start {pos} (len {n})", t.kind),
            ));
        }
        if !text.is_char_boundary(s) || !text.is_char_boundary(e) {
            return Err((
                "C12|lex-char-boundary".into(),
                format!("token {i} range {s}..{e} not on char boundaries"),
            ));
        }
        if &text[s..e] != t.text {
            return Err((
                "C12|lex-text".into(),
                format!("token {i} text {:?} != slice {:?}", t.text, &text[s..e]),
            ));
        }
        if e == s {
            return Err(("C12|lex-empty-token".into(), format!("token {i} is empty at {s}")));
        }
        pos = e;
    }
    if pos != n {
        return Err((
            "C12|lex-tiling".into(),
            format!("tokens end at {pos}, text has {n} bytes"),
        ));
    }
    // 2. parser
    let path = Path::new("main.gom");
    let r1 = match sandbox::cli(|| parser::parse(path, text)) {
        Ok(r) => r,
        Err(p) => return Err((format!("C12|panic|parse|{}", p.signature()), p.message)),
    };
    let root = MySyntaxNode::new_root(r1.green_node.clone());
    let tree_text = root.text().to_string();
    if tree_text != text {
        let common = tree_text
            .bytes()
            .zip(text.bytes())
            .take_while(|(a, b)| a == b)
            .count();
        return Err((
            "C12|lossless".into(),
            format!(
                "tree text ({} bytes) differs from input ({} bytes) at byte {common}",
                tree_text.len(),
                n
            ),
        ));
    }
    // every node / token range inside the text, children tile parents
    let mut leaf_texts = Vec::new();
    for el in root.descendants_with_tokens() {
        let r = el.text_range();
        let (s, e): (usize, usize) = (r.start().into(), r.end().into());
        if e > n || s > e || !text.is_char_boundary(s) || !text.is_char_boundary(e) {
            return Err((
                "C12|node-range".into(),
                format!("element {:?} has range {s}..{e} outside text of {n} bytes", el.kind()),
            ));
        }
        if let Some(tok) = el.as_token() {
            leaf_texts.push(tok.text().to_string());
        }
    }
    let lex_texts: Vec<&str> = toks.iter().map(|t| t.text).collect();
    if leaf_texts.len() != lex_texts.len() || leaf_texts.iter().zip(&lex_texts).any(|(a, b)| a != b) {
        return Err((
            "C12|leaves-vs-lexer".into(),
            format!("{} tree leaves vs {} lexer tokens", leaf_texts.len(), lex_texts.len()),
        ));
    }
    // diagnostics in range
    for d in r1.diagnostics.iter() {
        if let Some(r) = d.range() {
            let (s, e): (usize, usize) = (r.start().into(), r.end().into());
            if e > n || s > e || !text.is_char_boundary(s) || !text.is_char_boundary(e) {
                return Err((
                    "C12|diag-range".into(),
                    format!("diagnostic {:?} has range {s}..{e}, text has {n} bytes", d.message()),
                ));
            }
        }
    }
    // 3. parsing twice gives the same tree and diagnostics
    let r2 = match sandbox::cli(|| parser::parse(path, text)) {
        Ok(r) => r,
        Err(p) => return Err((format!("C12|panic|parse2|{}", p.signature()), p.message)),
    };
    if r1.green_node != r2.green_node {
        return Err(("C12|nondeterministic-tree".into(), "two parses differ".into()));
    }
    let m1: Vec<String> = r1.diagnostics.iter().map(|d| format!("{:?}{}", d.range(), d.message())).collect();
    let m2: Vec<String> = r2.diagnostics.iter().map(|d| format!("{:?}{}", d.range(), d.message())).collect();
    if m1 != m2 {
        return Err(("C12|nondeterministic-diags".into(), "two parses give different diagnostics".into()));
    }
    Ok(r1.has_errors())
}

impl Check for C12 {
    fn id(&self) -> &'static str {
        "C12"
    }
    fn phases(&self, tier: Tier) -> Vec<PhaseSpec> {
        vec![
            PhaseSpec {
                name: "exhaustive",
                cases: exhaustive_count(tier.pick(3, 4) as u32),
                max_bytes: 0,
                exhaustive: true,
            },
            // every depth 1..300 x nesting opener x context x following item
            PhaseSpec { name: "unwind", cases: textgen::unwind_count(), max_bytes: 0, exhaustive: true },
            // one fragment repeated 1..600 times inside each of 21 constructs
            PhaseSpec { name: "repeat", cases: textgen::repeat_count(), max_bytes: 0, exhaustive: true },
            // multi-line strings: every mixture of LF / CR LF line ends and last characters of 1..3 lines
            PhaseSpec { name: "mlstring", cases: textgen::mlstring_count(), max_bytes: 0, exhaustive: true },
            PhaseSpec {
                name: "tokens",
                cases: tier.pick(60_000, 1_200_000),
                max_bytes: 160,
                exhaustive: false,
            },
            PhaseSpec {
                name: "unicode",
                cases: tier.pick(30_000, 600_000),
                max_bytes: 120,
                exhaustive: false,
            },
            PhaseSpec {
                name: "mutate",
                cases: tier.pick(20_000, 400_000),
                max_bytes: 64,
                exhaustive: false,
            },
        ]
    }
    fn make(&self, phase: &str, index: u64, bytes: &[u8], _ctx: &mut Ctx) -> Case {
        let text = match phase {
            "exhaustive" => exhaustive_string(index),
            "unwind" => textgen::unwind_text(index),
            "repeat" => textgen::repeat_text(index),
            "mlstring" => textgen::mlstring_text(index),
            "tokens" => textgen::token_soup(&mut Dec::new(bytes)),
            "unicode" => textgen::unicode_soup(&mut Dec::new(bytes)),
            _ => textgen::mutate_corpus(&mut Dec::new(bytes), corpus::sources()),
        };
        Case::new(json!({ "text": text }))
    }
    fn judge(&self, _phase: &str, case: &Case, _ctx: &mut Ctx) -> CaseOut {
        let text = case.input["text"].as_str().unwrap_or("");
        let key = fnv_str(text);
        match lossless_oracle(text) {
            Ok(had_errors) => {
                let multibyte = !text.is_ascii();
                let multiline = text.contains("\\\\");
                let mut labels = vec![];
                if had_errors {
                    labels.push("parse-errors".to_string());
                }
                if multibyte {
                    labels.push("multibyte".to_string());
                }
                if multiline {
                    labels.push("multiline-str".to_string());
                }
                if !had_errors {
                    labels.push("clean-parse".to_string());
                }
                CaseOut::pass(had_errors || multibyte || multiline, key).labelled(labels)
            }
            Err((sig, detail)) => CaseOut::fail(sig, detail, key),
        }
    }
    fn rule(&self) -> String {
        format!(
            "exhaustive: every string of <= L symbols over a {}-symbol alphabet with one representative per token class (L=3 quick, 4 thorough); tokens: random sequences of goml tokens and trivia; unicode: random Unicode strings; mlstring: every multi-line string of 1..3 lines whose lines end in LF or CR LF independently and in one of 6 last characters (none, ASCII, blank, 2/3/4-byte), in 4 contexts (followed by code, at the end of the text with and without a final newline, followed by a blank tail); mutate: splice/truncate/duplicate mutations of the {} corpus sources. Oracle per input: lexer tokens tile [0,len) on char boundaries, tree text == input, tree leaves == lexer tokens, all node and diagnostic ranges inside the text, parsing twice gives equal trees and diagnostics. Non-trivial = input has >=1 parse error, or a multi-byte character, or a multi-line string marker; distinct by hash of the text.",
            ALPHABET.len(),
            corpus::sources().len()
        )
    }
    fn assumptions(&self) -> Vec<String> {
        vec![
            "parser::parse and lexer::lex are the entry points every consumer (compile, queries) uses".into(),
            "rowan's SyntaxNode::text() faithfully concatenates the green tree's tokens".into(),
        ]
    }
    fn required_labels(&self, _tier: Tier) -> Vec<&'static str> {
        vec!["parse-errors", "multibyte", "multiline-str", "clean-parse"]
    }
}
