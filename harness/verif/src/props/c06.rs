//! C06 — pattern matching picks the first matching arm and binds the right
//! sub-values; an unmatched value fails at that point.

use crate::behave::{self, Expected, Verdict};
use crate::driver::*;
use crate::gen::build::{Gen, GenCfg, NoGates};
use crate::gen::model::*;
use crate::gen::render::render;
use crate::goml::{self, CompileRes};
use crate::util::*;
use serde_json::{json, Value};

pub struct C06;

// ----------------------------------------------------------------- universe

/// ADTs used by the matrices: 0 = E{A, B(bool), C(bool,bool)}, 1 = Opt[T],
/// 2 = S{a: bool, b: int32}, 3 = L{N, K(int32, string)}
fn base_adts() -> Vec<AdtDef> {
    vec![
        AdtDef {
            name: "E".into(),
            tparams: 0,
            kind: AdtKind::Enum(vec![
                ("A".into(), vec![]),
                ("B".into(), vec![Ty::Bool]),
                ("C".into(), vec![Ty::Bool, Ty::Bool]),
            ]),
        },
        AdtDef {
            name: "Opt".into(),
            tparams: 1,
            kind: AdtKind::Enum(vec![("Some".into(), vec![Ty::Param(0)]), ("None".into(), vec![])]),
        },
        AdtDef {
            name: "S".into(),
            tparams: 0,
            kind: AdtKind::Struct(vec![("a".into(), Ty::Bool), ("b".into(), Ty::i32())]),
        },
        AdtDef {
            name: "L".into(),
            tparams: 0,
            kind: AdtKind::Enum(vec![("N".into(), vec![]), ("K".into(), vec![Ty::i32(), Ty::Str])]),
        },
    ]
}

fn exhaustive_universe() -> Vec<Ty> {
    vec![
        Ty::Bool,
        Ty::Adt(1, vec![Ty::Bool]),
        Ty::Tuple(vec![Ty::Bool, Ty::Bool]),
        Ty::Adt(0, vec![]),
    ]
}

const INTS: [i128; 4] = [0, 1, 2, 7];
const STRS: [&str; 4] = ["", "a", "b", "zz"];

/// all values of a type over the representative leaf domains (capped)
fn values(adts: &[AdtDef], t: &Ty, cap: usize) -> Vec<Expr> {
    let v: Vec<Expr> = match t {
        Ty::Unit => vec![Expr::Unit],
        Ty::Bool => vec![Expr::Bool(false), Expr::Bool(true)],
        Ty::Int(k) => INTS.iter().map(|i| Expr::Int(*k, *i, *k != IK::I32)).collect(),
        Ty::Str => STRS.iter().map(|s| Expr::Str(s.to_string())).collect(),
        Ty::Tuple(ts) => product(ts.iter().map(|t| values(adts, t, cap)).collect(), cap)
            .into_iter()
            .map(Expr::Tuple)
            .collect(),
        Ty::Adt(a, args) => match &adts[*a].kind {
            AdtKind::Struct(fs) => {
                let cols = fs.iter().map(|(_, ft)| values(adts, &ft.subst(args), cap)).collect();
                product(cols, cap)
                    .into_iter()
                    .map(|vs| Expr::StructLit(*a, vs.into_iter().enumerate().map(|(i, e)| (i as u32, e)).collect()))
                    .collect()
            }
            AdtKind::Enum(vs) => {
                let mut out = vec![];
                for (vi, (_, ps)) in vs.iter().enumerate() {
                    let cols = ps.iter().map(|pt| values(adts, &pt.subst(args), cap)).collect();
                    for payload in product(cols, cap) {
                        out.push(Expr::Con(*a, vi as u32, payload, false));
                    }
                }
                out
            }
        },
        _ => vec![],
    };
    v.into_iter().take(cap).collect()
}

fn product(cols: Vec<Vec<Expr>>, cap: usize) -> Vec<Vec<Expr>> {
    let mut out: Vec<Vec<Expr>> = vec![vec![]];
    for col in cols {
        let mut next = vec![];
        for prefix in &out {
            for v in &col {
                let mut p = prefix.clone();
                p.push(v.clone());
                next.push(p);
                if next.len() >= cap {
                    break;
                }
            }
            if next.len() >= cap {
                break;
            }
        }
        out = next;
    }
    out
}

/// pattern templates of depth <= d for type t; `Pat::Var(0)` is a placeholder
fn pattern_templates(adts: &[AdtDef], t: &Ty, d: u32) -> Vec<Pat> {
    let mut out = vec![Pat::Wild, Pat::Var(0)];
    if d == 0 {
        return out;
    }
    match t {
        Ty::Unit => out.push(Pat::Unit),
        Ty::Bool => {
            out.push(Pat::Bool(true));
            out.push(Pat::Bool(false));
        }
        Ty::Int(k) => {
            out.push(Pat::Int(*k, 0));
            out.push(Pat::Int(*k, 1));
        }
        Ty::Str => {
            out.push(Pat::Str("".into()));
            out.push(Pat::Str("a".into()));
        }
        Ty::Tuple(ts) => {
            for ps in pat_product(ts.iter().map(|t| pattern_templates(adts, t, d - 1)).collect()) {
                out.push(Pat::Tuple(ps));
            }
        }
        Ty::Adt(a, args) => match &adts[*a].kind {
            AdtKind::Struct(fs) => {
                let cols = fs.iter().map(|(_, ft)| pattern_templates(adts, &ft.subst(args), d - 1)).collect();
                for ps in pat_product(cols) {
                    out.push(Pat::Struct(*a, ps.into_iter().enumerate().map(|(i, p)| (i as u32, p)).collect()));
                }
            }
            AdtKind::Enum(vs) => {
                for (vi, (_, pts)) in vs.iter().enumerate() {
                    let cols = pts.iter().map(|pt| pattern_templates(adts, &pt.subst(args), d - 1)).collect();
                    for ps in pat_product(cols) {
                        out.push(Pat::Con(*a, vi as u32, ps, false));
                    }
                }
            }
        },
        _ => {}
    }
    out
}

fn pat_product(cols: Vec<Vec<Pat>>) -> Vec<Vec<Pat>> {
    let mut out: Vec<Vec<Pat>> = vec![vec![]];
    for col in cols {
        let mut next = vec![];
        for prefix in &out {
            for v in &col {
                let mut p = prefix.clone();
                p.push(v.clone());
                next.push(p);
            }
        }
        out = next;
    }
    out
}

fn random_pattern(d: &mut Dec, adts: &[AdtDef], t: &Ty, depth: u32) -> Pat {
    if depth == 0 || d.chance(70) {
        return if d.bool() { Pat::Wild } else { Pat::Var(0) };
    }
    match t {
        Ty::Unit => Pat::Unit,
        Ty::Bool => Pat::Bool(d.bool()),
        Ty::Int(k) => Pat::Int(*k, INTS[d.below(3)]),
        Ty::Str => Pat::Str(STRS[d.below(3)].to_string()),
        Ty::Tuple(ts) => Pat::Tuple(ts.iter().map(|t| random_pattern(d, adts, t, depth - 1)).collect()),
        Ty::Adt(a, args) => match &adts[*a].kind {
            AdtKind::Struct(fs) => {
                let mut v: Vec<(u32, Pat)> = fs
                    .iter()
                    .enumerate()
                    .map(|(i, (_, ft))| (i as u32, random_pattern(d, adts, &ft.subst(args), depth - 1)))
                    .collect();
                // written order is free
                match d.below(3) {
                    0 => v.reverse(),
                    1 if v.len() > 1 => v.rotate_left(1),
                    _ => {}
                }
                Pat::Struct(*a, v)
            }
            AdtKind::Enum(vs) => {
                let vi = d.below(vs.len());
                Pat::Con(
                    *a,
                    vi as u32,
                    vs[vi].1.iter().map(|pt| random_pattern(d, adts, &pt.subst(args), depth - 1)).collect(),
                    d.chance(60),
                )
            }
        },
        _ => Pat::Wild,
    }
}

fn random_type(d: &mut Dec, depth: u32) -> Ty {
    let w = [10, 10, 8, 3, if depth > 0 { 12 } else { 0 }, if depth > 0 { 20 } else { 0 }];
    match d.weighted(&w) {
        0 => Ty::Bool,
        1 => Ty::i32(),
        2 => Ty::Str,
        3 => Ty::Unit,
        4 => {
            let n = 2 + d.below(2);
            Ty::Tuple((0..n).map(|_| random_type(d, depth - 1)).collect())
        }
        _ => match d.below(5) {
            0 => Ty::Adt(0, vec![]),
            1 => Ty::Adt(1, vec![random_type(d, depth - 1)]),
            2 => Ty::Adt(2, vec![]),
            3 => Ty::Adt(3, vec![]),
            _ => Ty::Int(IK::U8),
        },
    }
}

fn has_int_literal(p: &Pat) -> bool {
    match p {
        Pat::Int(..) => true,
        Pat::Tuple(ps) | Pat::Con(_, _, ps, _) => ps.iter().any(has_int_literal),
        Pat::Struct(_, fs) => fs.iter().any(|(_, p)| has_int_literal(p)),
        _ => false,
    }
}

fn is_refutable(p: &Pat) -> bool {
    match p {
        Pat::Wild | Pat::Var(_) => false,
        Pat::Tuple(ps) => ps.iter().any(is_refutable),
        Pat::Struct(_, fs) => fs.iter().any(|(_, p)| is_refutable(p)),
        _ => true,
    }
}

// ----------------------------------------------------------- program build

/// allocate real variables for the `Var(0)` placeholders of a template
fn instantiate(g: &mut Gen, adts: &[AdtDef], p: &Pat, t: &Ty, bound: &mut Vec<(VarId, Ty)>) -> Pat {
    match (p, t) {
        (Pat::Var(_), _) => {
            let v = g.fresh_named("b", t.clone());
            bound.push((v, t.clone()));
            Pat::Var(v)
        }
        (Pat::Tuple(ps), Ty::Tuple(ts)) => {
            Pat::Tuple(ps.iter().zip(ts).map(|(p, t)| instantiate(g, adts, p, t, bound)).collect())
        }
        (Pat::Struct(a, fs), Ty::Adt(_, args)) => {
            let AdtKind::Struct(fields) = &adts[*a].kind else { return Pat::Wild };
            // fields are matched by name: half of the struct patterns list them in another
            // order than the declaration
            let before = bound.len();
            let mut v: Vec<(u32, Pat)> = fs
                .iter()
                .map(|(fi, p)| (*fi, instantiate(g, adts, p, &fields[*fi as usize].1.subst(args), bound)))
                .collect();
            if (before + v.len() + bound.len()) % 2 == 1 {
                v.reverse();
            }
            Pat::Struct(*a, v)
        }
        (Pat::Con(a, vi, ps, q), Ty::Adt(_, args)) => {
            let AdtKind::Enum(vs) = &adts[*a].kind else { return Pat::Wild };
            Pat::Con(
                *a,
                *vi,
                ps.iter()
                    .zip(&vs[*vi as usize].1)
                    .map(|(p, pt)| instantiate(g, adts, p, &pt.subst(args), bound))
                    .collect(),
                *q,
            )
        }
        (other, _) => other.clone(),
    }
}

struct Built {
    text: String,
    expected: Expected,
    values: usize,
    unmatched: usize,
    int_literals: bool,
    nontrivial: bool,
}

/// One program: `fn m(v: T) -> string { match tick("s", v) { rows } }` applied
/// to every value of T that some row matches, then to the `extra`-th unmatched
/// value (if any); with `as_let`, the first row is a destructuring `let`.
fn build_program(t: &Ty, rows: &[Pat], unmatched_pick: usize, as_let: bool, effect_only: bool) -> Built {
    let adts = base_adts();
    let bytes: [u8; 0] = [];
    let mut d = Dec::new(&bytes);
    let mut gates = NoGates;
    let mut cfg = GenCfg::full(1000);
    cfg.shadow = false;
    let mut g = Gen::new(&mut d, cfg, &mut gates);
    g.p.adts = adts.clone();
    // fn m
    let v = g.fresh_named("v", t.clone());
    let scrut = g.tick(t, Expr::Var(v));
    let mut arms = vec![];
    let mut int_literals = false;
    for (i, row) in rows.iter().enumerate() {
        let mut bound = vec![];
        let p = instantiate(&mut g, &adts, row, t, &mut bound);
        int_literals |= has_int_literal(&p);
        if effect_only {
            // the match is a statement: arms are `()`, catch-all arms and every other arm print
            let prints = !is_refutable(row) || i % 2 == 1;
            let e = if prints {
                Expr::Call(Callee::Builtin(Builtin::Println), vec![Expr::Str(format!("arm{}", i))])
            } else {
                Expr::Unit
            };
            arms.push((p, e));
            continue;
        }
        let mut parts = vec![Expr::Str(format!("{}:", i))];
        for (bv, bt) in bound {
            let s = g.show(&bt, Expr::Var(bv));
            parts.push(s);
            parts.push(Expr::Str(",".into()));
        }
        arms.push((p, Gen::concat(parts)));
    }
    let body = if effect_only && !as_let {
        Expr::Block(
            vec![Stmt::Expr(Expr::Match(Box::new(scrut), arms.clone()), false)],
            Some(Box::new(Expr::Str("done".into()))),
        )
    } else if as_let {
        let (p, e) = arms.remove(0);
        Expr::Block(vec![Stmt::Let(p, None, scrut)], Some(Box::new(e)))
    } else {
        Expr::Match(Box::new(scrut), arms.clone())
    };
    let m_id = g.p.fns.len();
    g.p.fns.push(FnDef { owner: None, bounds: vec![],
        name: "m".into(),
        tparams: 0,
        params: vec![(v, t.clone())],
        ret: Ty::Str,
        body,
    });
    // values: matched first, then one unmatched
    let all = values(&adts, t, 64);
    let rows_used: Vec<Pat> = if as_let { rows[..1].to_vec() } else { rows.to_vec() };
    let it = crate::refsem::Interp::new(&g.p, 1_000_000);
    let mut matched = vec![];
    let mut unmatched = vec![];
    {
        // evaluate closed value expressions with the reference interpreter
        let mut ev = crate::refsem::Interp::new(&g.p, 1_000_000);
        for e in &all {
            if let Ok(val) = ev.eval(e, &None) {
                if rows_used.iter().any(|p| it.pmatch(p, &val, &None).is_some()) {
                    matched.push(e.clone());
                } else {
                    unmatched.push(e.clone());
                }
            }
        }
    }
    let n_unmatched = unmatched.len();
    let mut stmts = vec![];
    let mut call = |e: Expr| {
        Stmt::Expr(
            Expr::Call(
                Callee::Builtin(Builtin::Println),
                vec![Expr::Call(Callee::Fn(m_id, vec![]), vec![e])],
            ),
            false,
        )
    };
    for e in &matched {
        stmts.push(call(e.clone()));
    }
    if !unmatched.is_empty() {
        stmts.push(call(unmatched[unmatched_pick % unmatched.len()].clone()));
        // must not be reached
        stmts.push(Stmt::Expr(
            Expr::Call(Callee::Builtin(Builtin::Println), vec![Expr::Str("after".into())]),
            false,
        ));
    }
    let main_id = g.p.fns.len();
    g.p.fns.push(FnDef { owner: None, bounds: vec![],
        name: "main".into(),
        tparams: 0,
        params: vec![],
        ret: Ty::Unit,
        body: Expr::Block(stmts, Some(Box::new(Expr::Unit))),
    });
    g.p.main = main_id;
    let p = g.p;
    let nontrivial = rows.len() >= 2
        && rows.iter().any(|r| !is_refutable(r))
        && rows.iter().any(is_refutable);
    Built {
        text: render(&p),
        expected: Expected::of(&p),
        values: matched.len() + usize::from(n_unmatched > 0),
        unmatched: n_unmatched,
        int_literals,
        nontrivial,
    }
}

// -------------------------------------------------------------- enumeration

fn exhaustive_layout() -> Vec<(Ty, usize)> {
    let adts = base_adts();
    exhaustive_universe()
        .into_iter()
        .map(|t| {
            let n = pattern_templates(&adts, &t, 2).len();
            (t, n)
        })
        .collect()
}

fn exhaustive_count(max_rows: u32) -> u64 {
    exhaustive_layout()
        .iter()
        .map(|(_, n)| (1..=max_rows).map(|r| (*n as u64).pow(r)).sum::<u64>())
        .sum()
}

fn exhaustive_case(mut index: u64, max_rows: u32) -> (Ty, Vec<Pat>) {
    let adts = base_adts();
    for (t, n) in exhaustive_layout() {
        let n = n as u64;
        let total: u64 = (1..=max_rows).map(|r| n.pow(r)).sum();
        if index >= total {
            index -= total;
            continue;
        }
        let templates = pattern_templates(&adts, &t, 2);
        let mut rows_n = 1;
        loop {
            let c = n.pow(rows_n);
            if index < c {
                break;
            }
            index -= c;
            rows_n += 1;
        }
        let mut rows = vec![];
        for _ in 0..rows_n {
            rows.push(templates[(index % n) as usize].clone());
            index /= n;
        }
        return (t, rows);
    }
    (Ty::Bool, vec![Pat::Wild])
}

impl Check for C06 {
    fn id(&self) -> &'static str {
        "C06"
    }
    fn phases(&self, tier: Tier) -> Vec<PhaseSpec> {
        vec![
            PhaseSpec {
                name: "exhaustive",
                cases: exhaustive_count(tier.pick(3, 4) as u32),
                max_bytes: 0,
                exhaustive: true,
            },
            PhaseSpec { name: "random", cases: tier.pick(30_000, 600_000), max_bytes: 120, exhaustive: false },
            PhaseSpec { name: "let", cases: tier.pick(6_000, 100_000), max_bytes: 60, exhaustive: false },
        ]
    }
    fn make(&self, phase: &str, index: u64, bytes: &[u8], ctx: &mut Ctx) -> Case {
        let adts = base_adts();
        let mut effect_only = false;
        let (t, rows, pick, as_let) = match phase {
            "exhaustive" => {
                let (t, rows) = exhaustive_case(index, ctx.tier.pick(3, 4) as u32);
                (t, rows, (index % 7) as usize, false)
            }
            _ => {
                let mut d = Dec::new(bytes);
                let t = random_type(&mut d, 2);
                let n = if phase == "let" { 1 } else { 1 + d.below(5) };
                let mut rows: Vec<Pat> = (0..n).map(|_| random_pattern(&mut d, &adts, &t, 3)).collect();
                if phase != "let" && d.chance(150) {
                    rows.push(if d.bool() { Pat::Wild } else { Pat::Var(0) });
                }
                effect_only = phase != "let" && d.chance(50);
                (t, rows, d.below(16), phase == "let")
            }
        };
        let b = build_program(&t, &rows, pick, as_let, effect_only);
        let mut labels = vec![];
        if b.unmatched > 0 {
            labels.push("non-exhaustive".to_string());
        } else {
            labels.push("exhaustive-matrix".to_string());
        }
        if b.int_literals {
            labels.push("int-literal-column".into());
        }
        if as_let {
            labels.push("destructuring-let".into());
        }
        if effect_only {
            labels.push("effect-only-match".into());
        }
        labels.push(format!("rows:{}", rows.len().min(5)));
        Case::new(json!({"text": b.text, "expected": b.expected.to_json(), "values": b.values,
            "unmatched": b.unmatched, "int_literals": b.int_literals, "nontrivial": b.nontrivial, "labels": labels}))
    }
    fn judge(&self, _phase: &str, case: &Case, ctx: &mut Ctx) -> CaseOut {
        let input: &Value = &case.input;
        let text = input["text"].as_str().unwrap_or("");
        let key = fnv_str(text);
        let mut labels: Vec<String> = input["labels"]
            .as_array()
            .map(|a| a.iter().filter_map(|x| x.as_str().map(|s| s.to_string())).collect())
            .unwrap_or_default();
        let expected = Expected::from_json(&input["expected"]);
        let nt = input["nontrivial"].as_bool().unwrap_or(false);
        match goml::compile_single(ctx, text) {
            CompileRes::Panic(pn) => CaseOut::fail(
                format!("C06|panic|{}", pn.signature()),
                format!("panic at {}:{}: {}\n--- goml source\n{text}", pn.file, pn.line, pn.message),
                key,
            )
            .labelled(labels),
            CompileRes::Err(e) => {
                let msgs = goml::diag_messages(e.diagnostics());
                let first = msgs.first().cloned().unwrap_or_default();
                if first.contains("non-exhaustive match on integer literal") && input["int_literals"].as_bool() == Some(true) {
                    labels.push("rejected:int-literal-without-catch-all".into());
                    CaseOut::pass(nt, key).labelled(labels)
                } else {
                    CaseOut::fail(
                        format!("C06|rejected|{}", crate::sandbox::cut_message(first.splitn(2, "] ").nth(1).unwrap_or(&first))),
                        format!("{}\n--- goml source\n{text}", msgs.join("\n")),
                        key,
                    )
                    .labelled(labels)
                }
            }
            CompileRes::Ok(_, go) => match behave::compare_expected(&expected, &go, "C06") {
                Verdict::Agree => {
                    labels.push(format!(
                        "end:{}",
                        expected.end.as_ref().map(behave::end_to_string).unwrap_or_default()
                    ));
                    CaseOut::pass(nt, key).labelled(labels)
                }
                Verdict::Skip(why) => CaseOut::discard(&why),
                Verdict::Fail(sig, detail) => {
                    CaseOut::fail(sig, format!("{detail}\n--- goml source\n{text}"), key).labelled(labels)
                }
            },
        }
    }
    fn setup(&self, _ctx: &mut Ctx) -> Result<Value, String> {
        behave::calibrate()
    }
    fn rule(&self) -> String {
        "exhaustive: EVERY matrix of <= R rows (R=3 quick, 4 thorough) whose rows are drawn from all patterns of depth <= 2 (wildcard, variable, literal, constructor, tuple) over the four types bool, Opt[bool], (bool,bool), enum E{A,B(bool),C(bool,bool)}; random: 1..6 rows of patterns of depth <= 3 over random types built from bool, int32, uint8, string, unit, tuples, a struct, two enums and the generic Opt[T]; let: one refutable or irrefutable pattern in a destructuring let. Each matrix becomes a program whose function matches a ticked scrutinee (so a second evaluation would print twice), each arm returns its index and all bound variables; main applies it to ALL values of the scrutinee type over the representative leaf domains (ints {0,1,2,7}, strings {\"\",a,b,zz}) that some row matches and then to one unmatched value, after which nothing may be printed. Oracle: stdout and end state (normal / failed match at that point) under miniGo equal the reference first-match semantics; a compile-time rejection is accepted only as 'non-exhaustive match on integer literal' for matrices with integer literal patterns. Non-trivial = >= 2 rows with a catch-all row and a refutable row (row order matters); distinct by program text. Struct patterns list their fields in declaration order, reversed or rotated. A fifth of the random matrices are effect-only matches: the match is a statement whose result is discarded, its arms are `()` except the catch-all arms and every second arm, which print their index.".into()
    }
    fn assumptions(&self) -> Vec<String> {
        vec![
            "refsem's pmatch/first-match loop is the documented meaning; miniGo runs the emitted Go (calibrated against recorded real-Go outputs in setup)".into(),
            "values are enumerated over representative finite leaf domains, not all 2^32 integers".into(),
        ]
    }
    fn required_labels(&self, _tier: Tier) -> Vec<&'static str> {
        vec!["non-exhaustive", "exhaustive-matrix", "int-literal-column", "destructuring-let", "end:Failed(Missing)", "end:Normal"]
    }
}
