//! C03 — acceptance is type-sound: every dumpable IR of an accepted program is
//! well-typed and closed, and ill-typed variants are rejected by the typer.

use crate::driver::*;
use crate::gen::build::{gen_program, Focus, GenCfg};
use crate::gen::model::*;
use crate::gen::render::render;
use crate::goml::{self, CompileRes};
use crate::irck;
use crate::util::*;
use serde_json::json;

pub struct C03;

// ------------------------------------------------- ill-typed statement pool

fn lit_of(t: &Ty) -> Option<String> {
    Some(match t {
        Ty::Unit => "()".into(),
        Ty::Bool => "true".into(),
        Ty::Int(IK::I32) => "1".into(),
        Ty::Int(k) => format!("1{}", k.suffix()),
        Ty::Str => "\"s\"".into(),
        _ => return None,
    })
}

/// a literal whose type is certainly not `t`
fn wrong_lit_for(t: &Ty) -> String {
    match t {
        Ty::Str => "1".into(),
        Ty::Unit => "\"s\"".into(),
        _ => "\"s\"".into(),
    }
}

// ---- systematic mismatches: a type T, a one-point mutation T' != T, a value of T' where T is required

fn mm_ty(d: &mut Dec, depth: u32) -> Ty {
    let top = if depth == 0 { 4 } else { 9 };
    match d.below(top) {
        0 => Ty::Int(ALL_IK[d.below(ALL_IK.len())]),
        1 => Ty::Bool,
        2 => Ty::Str,
        3 => Ty::Unit,
        4 => {
            let n = 2 + d.below(2);
            Ty::Tuple((0..n).map(|_| mm_ty(d, depth - 1)).collect())
        }
        5 => Ty::Array(Box::new(mm_ty(d, depth - 1)), 1 + d.below(3) as u32),
        6 => Ty::Vec(Box::new(mm_ty(d, depth - 1))),
        7 => Ty::Ref(Box::new(mm_ty(d, depth - 1))),
        _ => {
            let n = d.below(3);
            Ty::Fn((0..n).map(|_| mm_ty(d, depth - 1)).collect(), Box::new(mm_ty(d, depth - 1)))
        }
    }
}

/// a closed expression whose type is exactly `t` (every literal carries its type)
fn mm_value(t: &Ty) -> String {
    match t {
        Ty::Unit => "()".into(),
        Ty::Bool => "true".into(),
        Ty::Int(k) => format!("1{}", k.suffix()),
        Ty::Str => "\"s\"".into(),
        Ty::Tuple(ts) => format!("({})", ts.iter().map(mm_value).collect::<Vec<_>>().join(", ")),
        Ty::Array(t, n) => format!("[{}]", (0..*n).map(|_| mm_value(t)).collect::<Vec<_>>().join(", ")),
        Ty::Vec(t) => format!("vec_push(vec_new(), {})", mm_value(t)),
        Ty::Ref(t) => format!("ref({})", mm_value(t)),
        Ty::Fn(ps, r) => {
            let params: Vec<String> = ps.iter().enumerate().map(|(i, t)| format!("q{}: {}", i, mm_ty_text(t))).collect();
            format!("|{}| {}", params.join(", "), mm_value(r))
        }
        _ => "()".into(),
    }
}

fn mm_ty_text(t: &Ty) -> String {
    crate::gen::render::render_ty(&GProg::default(), t)
}

fn mm_nodes(t: &Ty) -> usize {
    1 + match t {
        Ty::Tuple(ts) => ts.iter().map(mm_nodes).sum(),
        Ty::Array(t, _) | Ty::Vec(t) | Ty::Ref(t) => mm_nodes(t),
        Ty::Fn(ps, r) => ps.iter().map(mm_nodes).sum::<usize>() + mm_nodes(r),
        _ => 0,
    }
}

/// replace the node with pre-order index `at` by a different type; returns the kind of change
fn mm_mutate(t: &Ty, at: &mut usize, d: &mut Dec, kind: &mut &'static str) -> Ty {
    if *at == 0 {
        *at = usize::MAX;
        return match t {
            Ty::Int(k) => {
                *kind = "mismatch:leaf";
                let others: Vec<IK> = ALL_IK.iter().copied().filter(|x| x != k).collect();
                if d.chance(60) { Ty::Bool } else { Ty::Int(others[d.below(others.len())]) }
            }
            Ty::Bool => {
                *kind = "mismatch:leaf";
                [Ty::i32(), Ty::Str, Ty::Unit][d.below(3)].clone()
            }
            Ty::Str => {
                *kind = "mismatch:leaf";
                [Ty::i32(), Ty::Bool, Ty::Unit][d.below(3)].clone()
            }
            Ty::Unit => {
                *kind = "mismatch:leaf";
                [Ty::i32(), Ty::Bool, Ty::Str][d.below(3)].clone()
            }
            Ty::Tuple(ts) => {
                *kind = "mismatch:arity";
                let mut ts = ts.clone();
                if ts.len() > 2 && d.bool() {
                    ts.pop();
                } else {
                    ts.push(Ty::i32());
                }
                Ty::Tuple(ts)
            }
            Ty::Array(e, n) => match d.below(3) {
                0 => {
                    *kind = "mismatch:array-len";
                    Ty::Array(e.clone(), n + 1)
                }
                1 => {
                    *kind = "mismatch:ctor-swap";
                    Ty::Vec(e.clone())
                }
                _ => {
                    *kind = "mismatch:ctor-swap";
                    Ty::Ref(e.clone())
                }
            },
            Ty::Vec(e) => {
                *kind = "mismatch:ctor-swap";
                if d.bool() { Ty::Ref(e.clone()) } else { Ty::Array(e.clone(), 1 + d.below(2) as u32) }
            }
            Ty::Ref(e) => {
                *kind = "mismatch:ctor-swap";
                match d.below(3) {
                    0 => Ty::Vec(e.clone()),
                    1 => Ty::Array(e.clone(), 1 + d.below(2) as u32),
                    _ => Ty::Tuple(vec![(**e).clone(), (**e).clone()]),
                }
            }
            Ty::Fn(ps, r) => {
                *kind = "mismatch:arity";
                let mut ps = ps.clone();
                if !ps.is_empty() && d.bool() {
                    ps.pop();
                } else {
                    ps.push(Ty::Bool);
                }
                Ty::Fn(ps, r.clone())
            }
            other => other.clone(),
        };
    }
    *at -= 1;
    match t {
        Ty::Tuple(ts) => Ty::Tuple(ts.iter().map(|x| if *at == usize::MAX { x.clone() } else { mm_mutate(x, at, d, kind) }).collect()),
        Ty::Array(e, n) => Ty::Array(Box::new(mm_mutate(e, at, d, kind)), *n),
        Ty::Vec(e) => Ty::Vec(Box::new(mm_mutate(e, at, d, kind))),
        Ty::Ref(e) => Ty::Ref(Box::new(mm_mutate(e, at, d, kind))),
        Ty::Fn(ps, r) => {
            let ps2: Vec<Ty> = ps.iter().map(|x| if *at == usize::MAX { x.clone() } else { mm_mutate(x, at, d, kind) }).collect();
            let r2 = if *at == usize::MAX { (**r).clone() } else { mm_mutate(r, at, d, kind) };
            Ty::Fn(ps2, Box::new(r2))
        }
        other => other.clone(),
    }
}

fn mismatch_stmt(d: &mut Dec) -> (&'static str, String) {
    let t = mm_ty(d, 2);
    let n = mm_nodes(&t);
    let mut at = d.below(n);
    let mut kind = "mismatch:leaf";
    let t2 = mm_mutate(&t, &mut at, d, &mut kind);
    if t2 == t {
        return ("annot-mismatch", "let ill: string = 1;".to_string());
    }
    let (good, bad, tt) = (mm_value(&t), mm_value(&t2), mm_ty_text(&t));
    let text = match d.below(6) {
        0 => format!("let ill: {tt} = {bad};"),
        1 => format!("let ill = {bad}; let ill2: {tt} = ill;"),
        2 => format!("let ill = |q: {tt}| 1; let _ = ill({bad});"),
        3 => format!("let ill = ref({good}); let _ = ref_set(ill, {bad});"),
        4 => format!("let _ = if true {{ {good} }} else {{ {bad} }};"),
        _ => format!("let _ = [{good}, {bad}];"),
    };
    (kind, text)
}

/// (kind, statement text) — each is ill-typed under the documented type
/// system whatever surrounds it
fn ill_typed_stmt(d: &mut Dec, p: &GProg) -> (&'static str, String) {
    // functions with primitive-only parameters, structs with primitive-only fields
    let fns: Vec<&FnDef> = p
        .fns
        .iter()
        // (not one that a local of the same spelling may shadow where the statement lands)
        .filter(|f| f.tparams == 0 && !f.params.is_empty() && f.name != "main" && f.params.iter().all(|(_, t)| lit_of(t).is_some()))
        .filter(|f| !p.vars.iter().any(|v| v.spelling == f.name))
        .collect();
    let structs: Vec<(&AdtDef, &Vec<(String, Ty)>)> = p
        .adts
        .iter()
        .filter_map(|a| match &a.kind {
            AdtKind::Struct(fs) if a.tparams == 0 && fs.iter().all(|(_, t)| lit_of(t).is_some()) => Some((a, fs)),
            _ => None,
        })
        .collect();
    let enums: Vec<(&AdtDef, &Vec<(String, Vec<Ty>)>)> = p
        .adts
        .iter()
        .filter_map(|a| match &a.kind {
            AdtKind::Enum(vs) if a.tparams == 0 => Some((a, vs)),
            _ => None,
        })
        .collect();
    let closed: [(&'static str, &'static str); 46] = [
        // a closure checked against a function type whose result it does not produce
        ("closure-result-unit", "let ill: (int32) -> unit = |q: int32| q + 1;"),
        ("closure-result-unit-unannotated", "let ill: (int32) -> unit = |q| q + 1;"),
        ("closure-result-type", "let ill: (int32) -> string = |q: int32| q + 1;"),
        ("closure-result-unit-block", "let ill: () -> unit = || { let w = 1; w };"),
        // type annotations of locals name types that do not exist
        ("annot-unknown-closure-param", "let _ = |q: NoSuchType| 1;"),
        ("annot-unknown-closure-param-nested", "let _ = |q: (int32, Vec[NoSuchType])| 1;"),
        ("annot-unknown-let", "let ill: Ref[NoSuchType] = ref(1);"),
        ("annot-unknown-type-param", "let _ = |q: (Q) -> int32| 1;"),
        // ... the variable occurring in every position of every constructor
        ("occurs-fn-ret", "let _ = |q| if true { q } else { q() };"),
        ("occurs-fn-ret-arg", "let _ = |q| if true { q } else { q(1) };"),
        ("occurs-closure-ret", "let _ = |q| if true { q } else { |z: int32| q };"),
        ("occurs-closure-param", "let _ = |q| q(|z| q);"),
        ("occurs-ref-branch", "let _ = |q| if true { q } else { ref(q) };"),
        ("occurs-vec-branch", "let _ = |q| if true { q } else { vec_push(vec_new(), q) };"),
        ("occurs-tuple-nested", "let _ = |q| if true { q } else { (1, (true, q)) };"),
        ("occurs-ref-ref", "let _ = |q| ref_set(q, ref(ref(q)));"),
        ("occurs-array-get", "let _ = |q| if true { q } else { array_get(q, 0) };"),
        ("occurs-two-vars", "let _ = |q, w| if true { (q, w) } else { (w, (q, 1)) };"),
        // infinite types (the occurs check), through each type constructor
        ("occurs-ref", "let _ = |q| ref_set(q, q);"),
        ("occurs-vec", "let _ = |q| vec_push(q, q);"),
        ("occurs-fn", "let _ = |q| q(q);"),
        ("occurs-tuple", "let _ = |q| if true { q } else { (q, 1) };"),
        ("occurs-array", "let _ = |q| if true { q } else { [q, q] };"),
        ("occurs-ref-nested", "let _ = |q| ref_set(q, ref_get(ref_get(q)));"),
        ("neg-string", "let _ = -\"s\";"),
        ("not-int", "let _ = !1;"),
        ("add-bool-int", "let _ = true + 1;"),
        ("add-bool-bool", "let _ = true + false;"),
        ("sub-string", "let _ = \"a\" - \"b\";"),
        ("lt-unit", "let _ = () < ();"),
        ("lt-bool", "let _ = true < false;"),
        ("and-int", "let _ = 1 && true;"),
        ("if-cond-int", "let _ = if 1 { 2 } else { 3 };"),
        ("if-branches", "let _ = if true { 1 } else { \"s\" };"),
        ("array-elems", "let _ = [1, \"a\"];"),
        ("array-len", "let ill: [int32; 3] = [1, 2];"),
        ("array-len-set", "let ill: [int32; 3] = array_set([1, 2], 0, 5);"),
        ("lit-width", "let ill: int8 = 5i16;"),
        ("annot-mismatch", "let ill: string = 1;"),
        ("call-non-fn", "let ill = 1; let _ = ill(2);"),
        ("match-pat-type", "let _ = match 1 { \"a\" => 1, _ => 2 };"),
        ("builtin-arg", "let _ = string_len(5);"),
        ("builtin-arg2", "let _ = int32_to_string(\"x\");"),
        ("ref-set-type", "let ill = ref(1); let _ = ref_set(ill, \"s\");"),
        ("vec-push-type", "let ill: Vec[int32] = vec_new(); let _ = vec_push(ill, \"s\");"),
        ("mixed-int-widths", "let _ = 1i8 + 1i16;"),
    ];
    // a field of a two-parameter generic struct read at swapped / repeated type arguments inside a generic
    // function and returned at the type the field has NOT there (a whole function, appended to the program)
    let swaps: Vec<(String, String, u32)> = p
        .adts
        .iter()
        .filter_map(|a| match &a.kind {
            AdtKind::Struct(fs) if a.tparams == 2 => fs.iter().find_map(|(n, t)| match t {
                Ty::Param(k) => Some((a.name.clone(), n.clone(), *k)),
                _ => None,
            }),
            _ => None,
        })
        .collect();
    if !swaps.is_empty() && d.chance(14) {
        let (sname, fname, k) = swaps[d.below(swaps.len())].clone();
        // at S[U, T] a field declared with the struct's first parameter has type U, one declared with the second has type T
        let wrong = if k == 0 { "T" } else { "U" };
        return match d.below(3) {
            0 => ("generic-field-swap", format!("TOPLEVEL:fn ill_swap[T, U](p: {sname}[U, T]) -> {wrong} {{\n    p.{fname}\n}}\n")),
            1 => ("generic-field-swap-let", format!("TOPLEVEL:fn ill_swap[T, U](p: {sname}[U, T], q: {wrong}) -> {wrong} {{\n    let w: {wrong} = p.{fname};\n    w\n}}\n")),
            _ => ("generic-field-swap-nested", format!("TOPLEVEL:fn ill_swap[T, U](p: {sname}[{sname}[T, U], T]) -> {} {{\n    p.{fname}\n}}\n", if k == 0 { "T" } else { "U" })),
        };
    }
    if !p.adts.is_empty() && d.chance(12) {
        // a nominal type applied to the wrong number of type arguments in a local annotation
        let a = &p.adts[d.below(p.adts.len())];
        let n = if a.tparams > 0 && d.bool() { a.tparams - 1 } else { a.tparams + 1 };
        let args = if n == 0 { String::new() } else { format!("[{}]", vec!["int32"; n as usize].join(", ")) };
        return if d.bool() {
            ("annot-arity-closure-param", format!("let _ = |q: {}{}| 1;", a.name, args))
        } else {
            ("annot-arity-closure-param-nested", format!("let _ = |q: (bool, {}{})| 1;", a.name, args))
        };
    }
    if d.chance(16) {
        // a builtin called with another number of arguments than it has (0 .. 4; the arguments it does
        // get are the right ones as far as they go)
        const V: &str = "vec_push(vec_new(), 1)";
        const BUILTINS: [(&str, &[&str]); 16] = [
            ("ref", &["1"]),
            ("ref_get", &["ref(1)"]),
            ("ref_set", &["ref(1)", "2"]),
            ("vec_new", &[]),
            ("vec_push", &[V, "2"]),
            ("vec_get", &[V, "0"]),
            ("vec_len", &[V]),
            ("array_get", &["[1, 2]", "0"]),
            ("array_set", &["[1, 2]", "0", "5"]),
            ("string_len", &["\"s\""]),
            ("string_get", &["\"s\"", "0"]),
            ("string_println", &["\"s\""]),
            ("string_print", &["\"s\""]),
            ("int32_to_string", &["1"]),
            ("bool_to_string", &["true"]),
            ("unit_to_string", &["()"]),
        ];
        let (name, good) = BUILTINS[d.below(BUILTINS.len())];
        let mut n = d.below(5);
        if n == good.len() {
            n = if n == 0 { 1 } else { n - 1 };
        }
        let args: Vec<&str> = (0..n).map(|i| if i < good.len() { good[i] } else { "1" }).collect();
        return (if n < good.len() { "builtin-arity-few" } else { "builtin-arity-many" }, format!("let _ = {}({});", name, args.join(", ")));
    }
    if d.chance(110) {
        return mismatch_stmt(d);
    }
    if d.chance(40) {
        // a pattern of one kind against a scrutinee of another
        const SCRUT: [(&str, &str); 6] = [("int", "1"), ("bool", "true"), ("unit", "()"), ("string", "\"s\""), ("tuple", "(1, true)"), ("array", "[1, 2]")];
        const PATS: [(&str, &str); 6] = [("int", "1"), ("bool", "true"), ("unit", "()"), ("string", "\"s\""), ("tuple", "(q1, q2)"), ("int", "2i64")];
        let si = d.below(SCRUT.len());
        let mut pi = d.below(PATS.len());
        if PATS[pi].0 == SCRUT[si].0 {
            pi = (pi + 1) % 5;
        }
        let first = d.bool();
        let arms = if first { format!("{} => 1, _ => 2", PATS[pi].1) } else { format!("_ if_never => 0, {} => 1", PATS[pi].1).replace("_ if_never => 0, ", "q0 => 0, ") };
        return ("mismatch:pattern", format!("let _ = match {} {{ {arms} }};", SCRUT[si].1));
    }
    // (trait, method, literal receiver) with literal-only parameters, implemented for a primitive type
    let mut methods: Vec<(usize, usize, String)> = vec![];
    for im in &p.impls {
        if let (Some(tr), Some(recv)) = (im.trait_, lit_of(&im.for_ty)) {
            for (mi, sig) in p.traits[tr].methods.iter().enumerate() {
                if sig.params.iter().all(|t| lit_of(t).is_some()) {
                    methods.push((tr, mi, recv.clone()));
                }
            }
        }
    }
    let n_ctx = if methods.is_empty() { 6 } else { 10 };
    let k = d.below(closed.len() + n_ctx);
    if k < closed.len() {
        return (closed[k].0, closed[k].1.to_string());
    }
    match k - closed.len() {
        0 if !fns.is_empty() => {
            let f = fns[d.below(fns.len())];
            let bad = d.below(f.params.len());
            let args: Vec<String> = f
                .params
                .iter()
                .enumerate()
                .map(|(i, (_, t))| if i == bad { wrong_lit_for(t) } else { lit_of(t).unwrap() })
                .collect();
            ("call-arg-type", format!("let _ = {}({});", f.name, args.join(", ")))
        }
        1 if !fns.is_empty() => {
            let f = fns[d.below(fns.len())];
            let mut args: Vec<String> = f.params.iter().map(|(_, t)| lit_of(t).unwrap()).collect();
            if d.bool() {
                args.pop();
            } else {
                args.push("1".into());
            }
            ("call-arity", format!("let _ = {}({});", f.name, args.join(", ")))
        }
        2 if !structs.is_empty() => {
            let (a, fs) = structs[d.below(structs.len())];
            let mut parts: Vec<String> = fs.iter().map(|(n, t)| format!("{}: {}", n, lit_of(t).unwrap())).collect();
            parts.push("nosuch: 1".into());
            ("struct-unknown-field", format!("let _ = {} {{ {} }};", a.name, parts.join(", ")))
        }
        3 if !structs.is_empty() => {
            let (a, fs) = structs[d.below(structs.len())];
            let bad = d.below(fs.len());
            let parts: Vec<String> = fs
                .iter()
                .enumerate()
                .map(|(i, (n, t))| format!("{}: {}", n, if i == bad { wrong_lit_for(t) } else { lit_of(t).unwrap() }))
                .collect();
            ("struct-field-type", format!("let _ = {} {{ {} }};", a.name, parts.join(", ")))
        }
        4 if !structs.is_empty() => {
            let (a, fs) = structs[d.below(structs.len())];
            let parts: Vec<String> = fs.iter().map(|(n, t)| format!("{}: {}", n, lit_of(t).unwrap())).collect();
            (
                "field-unknown",
                format!("let ill = {} {{ {} }}; let _ = ill.nosuch;", a.name, parts.join(", ")),
            )
        }
        5 if !enums.is_empty() => {
            let (a, vs) = enums[d.below(enums.len())];
            let (vn, ps) = &vs[d.below(vs.len())];
            // too many arguments, or (for a variant with at least two payload fields) too few
            let few = ps.len() >= 2 && d.bool();
            let n = if few { 1 + d.below(ps.len() - 1) } else { ps.len() + 1 + d.below(2) };
            let args: Vec<String> = (0..n).map(|i| if few { lit_of(&ps[i]).unwrap_or_else(|| "1".to_string()) } else { "1".to_string() }).collect();
            (if few { "variant-arity-few" } else { "variant-arity" }, format!("let _ = {}::{}({});", a.name, vn, args.join(", ")))
        }
        6..=9 if !methods.is_empty() => {
            // trait method calls: through the impl for a primitive type (static) or a trait object
            let (tr, m, recv) = methods[d.below(methods.len())].clone();
            let sig = &p.traits[tr].methods[m];
            let tn = &p.traits[tr].name;
            let good: Vec<String> = sig.params.iter().map(|t| lit_of(t).unwrap()).collect();
            match k - closed.len() {
                6 | 7 if !sig.params.is_empty() => {
                    let bad = d.below(sig.params.len());
                    let args: Vec<String> =
                        sig.params.iter().enumerate().map(|(i, t)| if i == bad { wrong_lit_for(t) } else { lit_of(t).unwrap() }).collect();
                    if k - closed.len() == 6 {
                        ("method-arg-type", format!("let _ = {}::{}({}, {});", tn, sig.name, recv, args.join(", ")))
                    } else {
                        ("dyn-method-arg-type", format!("let illd: dyn {} = {}; let _ = {}::{}(illd, {});", tn, recv, tn, sig.name, args.join(", ")))
                    }
                }
                8 => {
                    // one argument too many, or (when the method has parameters) one too few
                    let mut args = good.clone();
                    let few = !args.is_empty() && d.bool();
                    if few {
                        args.remove(d.below(args.len()));
                    } else {
                        args.push("1".into());
                    }
                    let tail: String = args.iter().map(|a| format!(", {a}")).collect();
                    if d.bool() {
                        (if few { "method-arity-few" } else { "method-arity" }, format!("let _ = {}::{}({}{});", tn, sig.name, recv, tail))
                    } else {
                        (
                            if few { "dyn-method-arity-few" } else { "dyn-method-arity" },
                            format!("let illd: dyn {} = {}; let _ = {}::{}(illd{});", tn, recv, tn, sig.name, tail),
                        )
                    }
                }
                _ => {
                    // unit implements no trait
                    if d.bool() {
                        ("dyn-no-impl", format!("let illd: dyn {} = ();", tn))
                    } else {
                        let mut args = vec!["()".to_string()];
                        args.extend(good);
                        ("method-no-impl", format!("let _ = {}::{}({});", tn, sig.name, args.join(", ")))
                    }
                }
            }
        }
        _ => ("proj-out-of-range", "let ill: (int32, int32) = (1, 2); let _ = ill.5;".to_string()),
    }
}

/// one ill-typed statement injected at a random position of a random block; returns the text
pub fn inject_ill_typed(mut p: GProg, md: &mut Dec) -> String {
    let (_kind, stmt) = ill_typed_stmt(md, &p);
    if let Some(item) = stmt.strip_prefix("TOPLEVEL:") {
        return format!("{}\n{}", render(&p), item);
    }
    let nblocks = count_blocks(&p).max(1);
    let k = md.below(nblocks);
    let pos = md.below(8);
    let _ = insert_into_block(&mut p, k, pos, &stmt);
    render(&p)
}

/// insert `stmt` into the k-th block of the program; returns the nesting depth
fn insert_into_block(p: &mut GProg, k: usize, pos_seed: usize, stmt: &str) -> Option<u32> {
    fn go(e: &mut Expr, counter: &mut usize, k: usize, pos_seed: usize, stmt: &str, depth: u32, out: &mut Option<u32>) {
        if out.is_some() {
            return;
        }
        match e {
            Expr::Block(stmts, fin) => {
                if *counter == k {
                    let pos = pos_seed % (stmts.len() + 1);
                    stmts.insert(pos, Stmt::Raw(stmt.to_string()));
                    *out = Some(depth);
                    return;
                }
                *counter += 1;
                for s in stmts.iter_mut() {
                    match s {
                        Stmt::Let(_, _, x) | Stmt::Expr(x, _) => go(x, counter, k, pos_seed, stmt, depth + 1, out),
                        Stmt::Raw(_) => {}
                    }
                }
                if let Some(f) = fin {
                    go(f, counter, k, pos_seed, stmt, depth + 1, out);
                }
            }
            Expr::Un(_, a) | Expr::Proj(a, _) | Expr::Field(a, _, _) | Expr::Go(a) | Expr::Closure(_, a) | Expr::Coerce(_, a) => {
                go(a, counter, k, pos_seed, stmt, depth, out)
            }
            Expr::Bin(_, a, b) | Expr::While(a, b) => {
                go(a, counter, k, pos_seed, stmt, depth, out);
                go(b, counter, k, pos_seed, stmt, depth, out);
            }
            Expr::Tuple(xs) | Expr::ArrayLit(xs) | Expr::Con(_, _, xs, _) => {
                for x in xs {
                    go(x, counter, k, pos_seed, stmt, depth, out);
                }
            }
            Expr::StructLit(_, fs) => {
                for (_, x) in fs {
                    go(x, counter, k, pos_seed, stmt, depth, out);
                }
            }
            Expr::Call(c, args) => {
                if let Callee::Val(v) = c {
                    go(v, counter, k, pos_seed, stmt, depth, out);
                }
                for x in args {
                    go(x, counter, k, pos_seed, stmt, depth, out);
                }
            }
            Expr::If(a, b, c) => {
                go(a, counter, k, pos_seed, stmt, depth, out);
                go(b, counter, k, pos_seed, stmt, depth, out);
                go(c, counter, k, pos_seed, stmt, depth, out);
            }
            Expr::Match(s, arms) => {
                go(s, counter, k, pos_seed, stmt, depth, out);
                for (_, b) in arms {
                    go(b, counter, k, pos_seed, stmt, depth, out);
                }
            }
            _ => {}
        }
    }
    let mut counter = 0usize;
    let mut out = None;
    for f in p.fns.iter_mut() {
        go(&mut f.body, &mut counter, k, pos_seed, stmt, 1, &mut out);
        if out.is_some() {
            break;
        }
    }
    out
}

fn count_blocks(p: &GProg) -> usize {
    let mut n = 0;
    for f in &p.fns {
        crate::gen::build::walk(&f.body, &mut |e| {
            if matches!(e, Expr::Block(..)) {
                n += 1;
            }
        });
    }
    n
}

// ---- nominal types of different packages that share their name are different types
//
// Two (or three) packages declare a struct or enum called the same; a value of one package's
// type is used where the other package's type is required (argument, annotated let, returned
// value, field, match scrutinee). Such a program is ill-typed whatever the shapes of the two
// definitions; the same program with the right type in that place must be accepted.

fn make_twins_case(bytes: &[u8]) -> Case {
    let mut d = Dec::new(bytes);
    let is_enum = d.bool();
    let same_shape = d.bool();
    let name = ["Point", "Item", "P", "Shape"][d.below(4)];
    // where the two definitions live: (owner of the expected type, owner of the value)
    let layout = d.below(3); // 0: Lib vs Main, 1: Main vs Lib, 2: LibA vs LibB
    let def = |variant: u32| -> String {
        if is_enum {
            if variant == 0 || same_shape { format!("enum {name} {{ Mk(int32, int32), Other }}\n") } else { format!("enum {name} {{ Mk(string), Other }}\n") }
        } else if variant == 0 || same_shape {
            format!("struct {name} {{ x: int32, y: int32 }}\n")
        } else {
            format!("struct {name} {{ label: string, weight: int32 }}\n")
        }
    };
    let value = |variant: u32, qual: &str| -> String {
        if is_enum {
            if variant == 0 || same_shape { format!("{qual}{name}::Mk(1, 2)") } else { format!("{qual}{name}::Mk(\"a\")") }
        } else if variant == 0 || same_shape {
            format!("{qual}{name} {{ x: 1, y: 2 }}")
        } else {
            format!("{qual}{name} {{ label: \"a\", weight: 2 }}")
        }
    };
    let site = d.below(5);
    let good = d.chance(60);
    // packages: expected type E in package pe (variant 0), value type V in package pv (variant 1)
    let (pe, pv) = match layout {
        0 => ("Geo", "Main"),
        1 => ("Main", "Geo"),
        _ => ("Geo", "Ui"),
    };
    let q = |p: &str| if p == "Main" { String::new() } else { format!("{p}::") };
    let mut files: Vec<(String, String)> = vec![];
    let mut main = String::from("package Main\n");
    let mut libs: Vec<&str> = vec![];
    for p in [pe, pv] {
        if p != "Main" && !libs.contains(&p) {
            libs.push(p);
        }
    }
    for l in &libs {
        main.push_str(&format!("import {l}\n"));
    }
    main.push('\n');
    // the consumer of the expected type lives with the expected type
    let consumer = format!("fn take(v: {name}) -> int32 {{ 1 }}\n");
    for l in &libs {
        let variant = if *l == pe { 0 } else { 1 };
        let mut text = format!("package {l}\n\n{}", def(variant));
        if *l == pe {
            text.push_str(&consumer);
        }
        files.push((format!("{l}/lib.gom"), text));
    }
    if pe == "Main" {
        main.push_str(&def(0));
        main.push_str(&consumer);
    }
    if pv == "Main" {
        main.push_str(&def(1));
    }
    // the value actually used: of the expected type (well-typed control) or of the twin
    let used = if good { value(0, &q(pe)) } else { value(1, &q(pv)) };
    let ety = format!("{}{name}", q(pe));
    let take = format!("{}take", q(pe));
    let body = match site {
        0 => format!("    let _ = {take}({used});\n"),
        1 => format!("    let v = {used};\n    let _ = {take}(v);\n"),
        2 => format!("    let v: {ety} = {used};\n"),
        3 => format!("    let vs: Vec[{ety}] = vec_push(vec_new(), {used});\n"),
        _ => format!("    let r: Ref[{ety}] = ref({used});\n"),
    };
    main.push_str(&format!("fn main() {{\n{body}    ()\n}}\n"));
    files.push(("main.gom".into(), main));
    let labels = vec![
        format!("twins:{}", if is_enum { "enum" } else { "struct" }),
        format!("twins:{}", if same_shape { "same-shape" } else { "different-shape" }),
        format!("twins:layout-{}", ["lib-vs-main", "main-vs-lib", "lib-vs-lib"][layout]),
        format!("twins:site-{site}"),
        format!("twins:{}", if good { "control" } else { "mixed" }),
    ];
    Case::new(json!({"twins": true, "good": good, "files": goml::files_to_json(&files), "labels": labels}))
}

fn judge_twins_case(input: &serde_json::Value, ctx: &mut Ctx) -> CaseOut {
    let files = goml::files_from_json(&input["files"]);
    let key = fnv_str(&input["files"].to_string());
    let good = input["good"].as_bool().unwrap_or(false);
    let labels: Vec<String> = input["labels"].as_array().map(|a| a.iter().filter_map(|x| x.as_str().map(String::from)).collect()).unwrap_or_default();
    let text: String = files.iter().map(|(p, t)| format!("// ---- {p}\n{t}")).collect();
    match (goml::compile_project(ctx, &files), good) {
        (CompileRes::Panic(pn), _) => CaseOut::fail(
            format!("C03|panic|{}", pn.signature()),
            format!("panic at {}:{}: {}\n{text}", pn.file, pn.line, pn.message),
            key,
        )
        .labelled(labels),
        (CompileRes::Ok(..), false) => CaseOut::fail(
            "C03|ill-typed-accepted|same-name-other-package".into(),
            format!("a value of one package's type is used where the same-named type of another package is required, and the program was accepted\n{text}"),
            key,
        )
        .labelled(labels),
        (CompileRes::Err(e), true) => CaseOut::fail(
            "C03|well-typed-rejected|same-name-other-package".into(),
            format!("{:?}\n{text}", goml::diag_messages(e.diagnostics())),
            key,
        )
        .labelled(labels),
        (CompileRes::Ok(comp, _), true) => {
            let (errs, _) = irck::check_all(&comp);
            if let Some(e) = errs.first() {
                return CaseOut::fail(e.signature(), format!("[{}] {} in {}: {}\n{text}", e.stage, e.rule, e.func, e.detail), key).labelled(labels);
            }
            CaseOut::pass(true, key).labelled(labels)
        }
        (CompileRes::Err(_), false) => CaseOut::pass(true, key).labelled(labels),
    }
}

impl Check for C03 {
    fn id(&self) -> &'static str {
        "C03"
    }
    fn phases(&self, tier: Tier) -> Vec<PhaseSpec> {
        vec![
            PhaseSpec { name: "ir-small", cases: tier.pick(20_000, 300_000), max_bytes: 200, exhaustive: false },
            PhaseSpec { name: "ir", cases: tier.pick(30_000, 500_000), max_bytes: 500, exhaustive: false },
            PhaseSpec { name: "ir-large", cases: tier.pick(4_000, 80_000), max_bytes: 1200, exhaustive: false },
            PhaseSpec { name: "illtyped", cases: tier.pick(40_000, 600_000), max_bytes: 420, exhaustive: false },
            PhaseSpec { name: "twins", cases: tier.pick(1_500, 20_000), max_bytes: 24, exhaustive: false },
        ]
    }
    fn make(&self, phase: &str, index: u64, bytes: &[u8], ctx: &mut Ctx) -> Case {
        if phase == "twins" {
            return make_twins_case(bytes);
        }
        let mut d = Dec::new(bytes);
        let nodes = match phase {
            "ir-small" => 18,
            "ir-large" => if ctx.tier == Tier::Thorough { 300 } else { 120 },
            "illtyped" => 40,
            _ => if ctx.tier == Tier::Thorough { 120 } else { 60 },
        };
        let mut cfg = GenCfg::full(nodes);
        cfg.focus = [Focus::None, Focus::Generics, Focus::Closures, Focus::Effects, Focus::Scopes, Focus::Traits][(index % 6) as usize];
        cfg.traits = cfg.focus == Focus::Traits || (index / 6) % 3 == 0;
        cfg.discards = index % 2 == 0;
        if phase == "illtyped" {
            // the injected statement is chosen with the LAST bytes so that the
            // program and the mutation shrink independently
            let split = bytes.len().saturating_sub(24);
            let (pb, mb) = bytes.split_at(split);
            let mut pd = Dec::new(pb);
            let mut p = gen_program(&mut pd, cfg, ctx);
            let mut md = Dec::new(mb);
            let (kind, stmt) = ill_typed_stmt(&mut md, &p);
            let nblocks = count_blocks(&p).max(1);
            let k = md.below(nblocks);
            let pos = md.below(8);
            if let Some(item) = stmt.strip_prefix("TOPLEVEL:") {
                let text = format!("{}\n{}", render(&p), item);
                return Case::new(json!({"text": text, "illtyped": kind, "injected": item, "depth": 2,
                    "labels": p.labels.iter().cloned().collect::<Vec<_>>()}));
            }
            // (a block the traversal cannot reach would leave the program unchanged: such a case is not judged)
            let site = insert_into_block(&mut p, k, pos, &stmt).or_else(|| insert_into_block(&mut p, 0, pos, &stmt));
            let depth = site.unwrap_or(0);
            let text = render(&p);
            if site.is_none() || !text.contains(stmt.as_str()) {
                return Case::new(json!({"text": text, "nosite": true, "labels": ["ill:no-injection-site"]}));
            }
            return Case::new(json!({"text": text, "illtyped": kind, "injected": stmt, "depth": depth,
                "labels": p.labels.iter().cloned().collect::<Vec<_>>()}));
        }
        let p = gen_program(&mut d, cfg, ctx);
        let text = render(&p);
        Case::new(json!({"text": text, "labels": p.labels.iter().cloned().collect::<Vec<_>>()}))
    }
    fn judge(&self, _phase: &str, case: &Case, ctx: &mut Ctx) -> CaseOut {
        if case.input.get("twins").is_some() {
            return judge_twins_case(&case.input, ctx);
        }
        let text = case.input["text"].as_str().unwrap_or("");
        let key = fnv_str(text);
        let mut labels: Vec<String> = case.input["labels"]
            .as_array()
            .map(|a| a.iter().filter_map(|x| x.as_str().map(|s| s.to_string())).collect())
            .unwrap_or_default();
        if case.input.get("nosite").is_some() {
            return CaseOut::discard("illtyped:no-injection-site");
        }
        let res = goml::compile_single(ctx, text);
        if let Some(kind) = case.input["illtyped"].as_str() {
            labels.push(format!("ill:{kind}"));
            let depth = case.input["depth"].as_u64().unwrap_or(0);
            return match res {
                CompileRes::Ok(..) => CaseOut::fail(
                    format!("C03|ill-typed-accepted|{kind}"),
                    format!(
                        "the program contains the ill-typed statement `{}` and was accepted\n--- goml source\n{text}",
                        case.input["injected"].as_str().unwrap_or("")
                    ),
                    key,
                )
                .labelled(labels),
                CompileRes::Panic(pn) => CaseOut::fail(
                    format!("C03|panic|{}", pn.signature()),
                    format!("panic at {}:{}: {}\n--- goml source\n{text}", pn.file, pn.line, pn.message),
                    key,
                )
                .labelled(labels),
                CompileRes::Err(e) => {
                    labels.push(format!("rejected-by:{}", goml::error_stage(&e)));
                    CaseOut::pass(depth >= 2, key).labelled(labels)
                }
            };
        }
        match res {
            CompileRes::Panic(_) => CaseOut::discard("compiler-panic"),
            CompileRes::Err(e) => {
                let msgs = goml::diag_messages(e.diagnostics());
                let first = msgs.first().cloned().unwrap_or_default();
                if first.contains("non-exhaustive match on integer literal") {
                    CaseOut::discard("rejected:int-match-without-catch-all (documented)")
                } else {
                    CaseOut::discard(&format!("rejected:{}", goml::error_stage(&e)))
                }
            }
            CompileRes::Ok(comp, _) => {
                let (errs, stats) = irck::check_all(&comp);
                if let Some(e) = errs.first() {
                    let mut detail = String::new();
                    for e in errs.iter().take(6) {
                        detail.push_str(&format!("[{}] {} in {}: {}\n", e.stage, e.rule, e.func, e.detail));
                    }
                    return CaseOut::fail(e.signature(), format!("{detail}--- goml source\n{text}"), key).labelled(labels);
                }
                let nt = labels.iter().any(|l| l == "generic-call" || l == "closure");
                labels.push("ir-checked".into());
                if stats.skipped > 0 {
                    labels.push("ir-some-nodes-skipped".into());
                }
                CaseOut::pass(nt, key).labelled(labels)
            }
        }
    }
    fn rule(&self) -> String {
        "ir*: type-directed random programs (all generator biases, three size classes); for every accepted program four independent IR checkers (irck) re-type-check Compilation.core, .mono, .lambda (Lift) and .anf against their environments: variables in scope with the binder's type, calls/constructors/projections/operators/branches agree with declared signatures, no TParam/TVar/TApp residue from Mono on, referenced functions exist once. illtyped: a well-typed generated program with ONE ill-typed statement (28 kinds: operators on wrong operand types, non-bool conditions, branch/element type mismatches, array length mismatch incl. through array_set, literal width mismatch, wrong argument type/arity to a generated function, unknown/mistyped struct field, variant arity, builtin misuse, call of a non-function, tuple index out of range) inserted at a random position of a random (possibly nested) block: must be rejected with an error diagnostic, not accepted and not crash. Non-trivial = (ir) program has a generic instantiation or closure; (illtyped) the injection site is nested at depth >= 2. Distinct by hash of the text. Beyond the fixed kinds the injected statement may be a systematic mismatch (a random type T of depth <= 2, a one-point mutation T' of it: other leaf, other arity, other array length, Ref/Vec/array/tuple swapped; a closed value of T' where T is required: annotated let, via a variable, closure argument, ref_set, if branches, array elements), one of 16 occurs-check shapes (the variable under every constructor position, incl. a function's result) or a pattern of one kind against a scrutinee of another.".into()
    }
    fn assumptions(&self) -> Vec<String> {
        vec![
            "irck encodes what each IR is supposed to mean (read from how the next stage consumes it); aspects it does not check are listed in DESIGN.md".into(),
            "'ill-typed' is what the language description implies; only statements whose illegality does not depend on inference choices are injected".into(),
        ]
    }
    fn required_labels(&self, _tier: Tier) -> Vec<&'static str> {
        vec!["ir-checked", "ill:call-arg-type", "ill:array-len", "ill:struct-field-type", "ill:mismatch:ctor-swap", "ill:mismatch:leaf", "ill:mismatch:arity", "ill:mismatch:array-len", "ill:mismatch:pattern", "rejected-by:typer"]
    }
    fn max_discard_fraction(&self) -> f64 {
        0.2
    }
}
