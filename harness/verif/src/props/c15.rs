//! C15 — linking never combines packages built against different interfaces.

use crate::driver::*;
use crate::goml::{self, CompileRes};
use crate::jsonmut::{self, Step};
use crate::projgen::{self, GoRun};
use crate::props::c04;
use crate::sandbox;
use crate::sep;
use crate::util::*;
use compiler::artifact::{CoreUnit, InterfaceUnit};
use serde_json::{json, Map, Value};
use std::collections::{BTreeMap, HashMap};
use std::path::{Path, PathBuf};

pub struct C15;

// ----------------------------------------------------------------- histories

fn patch_of(base: &[(String, String)], variant: &[(String, String)]) -> Value {
    let mut m = Map::new();
    for (p, t) in variant {
        if base.iter().find(|(bp, _)| bp == p).map(|(_, bt)| bt) != Some(t) {
            m.insert(p.clone(), Value::String(t.clone()));
        }
    }
    for (p, _) in base {
        if !variant.iter().any(|(vp, _)| vp == p) {
            m.insert(p.clone(), Value::Null);
        }
    }
    Value::Object(m)
}

fn apply_patch(files: &mut Vec<(String, String)>, root: &Path, patch: &Value) {
    if let Some(m) = patch.as_object() {
        for (p, t) in m {
            files.retain(|(bp, _)| bp != p);
            match t.as_str() {
                Some(t) => {
                    files.push((p.clone(), t.to_string()));
                    let path = root.join(p);
                    if let Some(parent) = path.parent() {
                        let _ = std::fs::create_dir_all(parent);
                    }
                    let _ = std::fs::write(path, t);
                }
                None => {
                    let _ = std::fs::remove_file(root.join(p));
                }
            }
        }
    }
    files.sort();
}

fn pkg_files(files: &[(String, String)], pkg: &str) -> Vec<(String, String)> {
    files
        .iter()
        .filter(|(p, _)| if pkg == "Main" { !p.contains('/') } else { p.starts_with(&format!("{pkg}/")) })
        .cloned()
        .collect()
}

fn str_map(v: &Value) -> BTreeMap<String, String> {
    v.as_object()
        .map(|m| m.iter().map(|(k, x)| (k.clone(), x.as_str().unwrap_or("").to_string())).collect())
        .unwrap_or_default()
}

struct CoreM {
    /// identity of the interface embedded in the core
    ident: u64,
    /// identity of each dependency's interface file at build time
    against: BTreeMap<String, u64>,
    /// the package's sources at build time
    src: Vec<(String, String)>,
    /// was a dependency's own source interface unchanged while its identity changed? (bookkeeping for labels)
    ikey: String,
}

struct Model {
    deps: BTreeMap<String, Vec<String>>,
    ikey: BTreeMap<String, String>,
    iface_on_disk: BTreeMap<String, u64>,
    /// source interface key the interface file on disk was produced from
    iface_key_on_disk: BTreeMap<String, String>,
    core: BTreeMap<String, CoreM>,
    hash_of_ident: HashMap<u64, String>,
    ident_of_hash: HashMap<String, u64>,
    /// package -> (op index, kind) of its latest interface edit
    last_iface_edit: BTreeMap<String, (usize, String)>,
}

impl Model {
    fn ident(&self, pkg: &str) -> u64 {
        let mut h = fnv_str(self.ikey.get(pkg).map(|s| s.as_str()).unwrap_or(""));
        let mut deps = self.deps.get(pkg).cloned().unwrap_or_default();
        deps.sort();
        for d in deps {
            h = mix(h, mix(fnv_str(&d), self.iface_on_disk.get(&d).copied().unwrap_or(0)));
        }
        h
    }
    fn closure(&self, pkg: &str) -> Vec<String> {
        let mut out: Vec<String> = vec![];
        let mut todo = self.deps.get(pkg).cloned().unwrap_or_default();
        while let Some(d) = todo.pop() {
            if !out.contains(&d) {
                todo.extend(self.deps.get(&d).cloned().unwrap_or_default());
                out.push(d);
            }
        }
        out
    }
    /// kind of the latest interface edit in pkg or anything below it
    fn cause(&self, pkg: &str) -> String {
        let mut set = self.closure(pkg);
        set.push(pkg.to_string());
        set.iter()
            .filter_map(|p| self.last_iface_edit.get(p))
            .max_by_key(|(i, _)| *i)
            .map(|(_, k)| k.clone())
            .unwrap_or_else(|| "none".into())
    }
    /// (dependent, dependency) pairs that were not built against what is being linked
    fn stale_pairs(&self, pkgs: &[String]) -> Vec<(String, String)> {
        let mut out = vec![];
        for p in pkgs {
            let Some(c) = self.core.get(p) else { continue };
            for d in self.deps.get(p).cloned().unwrap_or_default() {
                let have = c.against.get(&d).copied();
                let want = self.core.get(&d).map(|c| c.ident);
                if have != want {
                    out.push((p.clone(), d));
                }
            }
        }
        out
    }
    /// record the real hash of an artifact with model identity `id`
    fn relate(&mut self, pkg: &str, id: u64, hash: &str) -> Result<(), (String, String)> {
        if let Some(h0) = self.hash_of_ident.get(&id) {
            if h0 != hash {
                return Err((
                    "C15|hash-changed-by-body-edit".into(),
                    format!("package {pkg}: only function bodies changed since an earlier build (same items and signatures, same dependency interfaces) but interface_hash went from {h0} to {hash}"),
                ));
            }
        }
        if let Some(id0) = self.ident_of_hash.get(hash) {
            if *id0 != id {
                return Err((
                    format!("C15|hash-unchanged-by-interface-edit|{}", self.cause(pkg)),
                    format!("package {pkg}: its interface (or that of a dependency it was built against) changed, but interface_hash is still {hash}"),
                ));
            }
        }
        self.hash_of_ident.insert(id, hash.to_string());
        self.ident_of_hash.insert(hash.to_string(), id);
        Ok(())
    }
}

fn pkg_dir(root: &Path, pkg: &str) -> PathBuf {
    if pkg == "Main" {
        root.to_path_buf()
    } else {
        root.join(pkg)
    }
}

fn judge_history(input: &Value, ctx: &mut Ctx) -> CaseOut {
    let mut files = goml::files_from_json(&input["files"]);
    let pkgs: Vec<String> = input["packages"].as_array().map(|a| a.iter().filter_map(|x| x.as_str().map(|s| s.to_string())).collect()).unwrap_or_default();
    if files.is_empty() || pkgs.is_empty() {
        return CaseOut::discard("no-files");
    }
    let key = fnv_str(&input.to_string());
    let mut labels: Vec<String> = input["labels"]
        .as_array()
        .map(|a| a.iter().filter_map(|x| x.as_str().map(|s| s.to_string())).collect())
        .unwrap_or_default();
    let deps: BTreeMap<String, Vec<String>> = input["deps"]
        .as_object()
        .map(|m| {
            m.iter()
                .map(|(k, v)| (k.clone(), v.as_array().map(|a| a.iter().filter_map(|x| x.as_str().map(|s| s.to_string())).collect()).unwrap_or_default()))
                .collect()
        })
        .unwrap_or_default();
    let dir = ctx.scratch.fresh_dir();
    let src = dir.join("src");
    let art = dir.join("art");
    sandbox::materialise(&src, &files);
    files.sort();
    let mut m = Model {
        deps,
        ikey: str_map(&input["ikeys"]),
        iface_on_disk: BTreeMap::new(),
        iface_key_on_disk: BTreeMap::new(),
        core: BTreeMap::new(),
        hash_of_ident: HashMap::new(),
        ident_of_hash: HashMap::new(),
        last_iface_edit: BTreeMap::new(),
    };
    let mut nontrivial = false;

    // one `build P` / `check P`
    fn do_build(m: &mut Model, files: &[(String, String)], src: &Path, art: &Path, pkg: &str, check_only: bool, labels: &mut Vec<String>) -> Result<bool, (String, String)> {
        let id = m.ident(pkg);
        let pdir = pkg_dir(src, pkg);
        if check_only {
            match sep::check_one(pkg, &pdir, art) {
                Ok(i) => {
                    m.relate(pkg, id, &i.interface_hash)?;
                    sep::write_interface(art, &i).map_err(|e| ("C15|infra".to_string(), e.describe()))?;
                    m.iface_on_disk.insert(pkg.to_string(), id);
                    m.iface_key_on_disk.insert(pkg.to_string(), m.ikey.get(pkg).cloned().unwrap_or_default());
                    Ok(true)
                }
                Err(e) if e.is_panic() => Err(projgen::sep_sig("C15", "", &e)),
                Err(_) => {
                    labels.push("check:rejected".into());
                    Ok(false)
                }
            }
        } else {
            match sep::build_one(pkg, &pdir, art) {
                Ok(u) => {
                    m.relate(pkg, id, &u.interface.interface_hash)?;
                    sep::write_unit(art, &u).map_err(|e| ("C15|infra".to_string(), e.describe()))?;
                    let mut against = BTreeMap::new();
                    for d in m.deps.get(pkg).cloned().unwrap_or_default() {
                        against.insert(d.clone(), m.iface_on_disk.get(&d).copied().unwrap_or(0));
                    }
                    m.iface_on_disk.insert(pkg.to_string(), id);
                    let ik = m.ikey.get(pkg).cloned().unwrap_or_default();
                    m.iface_key_on_disk.insert(pkg.to_string(), ik.clone());
                    m.core.insert(pkg.to_string(), CoreM { ident: id, against, src: pkg_files(files, pkg), ikey: ik });
                    Ok(true)
                }
                Err(e) if e.is_panic() => Err(projgen::sep_sig("C15", "", &e)),
                Err(_) => {
                    labels.push("build:rejected".into());
                    Ok(false)
                }
            }
        }
    }

    let res = (|| -> Result<(), (String, String)> {
        // ---- the initial full build (dependencies first) must succeed and link
        for p in &pkgs {
            if !do_build(&mut m, &files, &src, &art, p, false, &mut labels)? {
                return Err(("C15|initial-build-rejected".into(), format!("the legal project does not build (package {p})")));
            }
        }
        let ops = input["ops"].as_array().cloned().unwrap_or_default();
        let mut all_ops = vec![json!({"op": "link"})];
        all_ops.extend(ops);
        for (oi, op) in all_ops.iter().enumerate() {
            let pkg = op["pkg"].as_str().unwrap_or("").to_string();
            match op["op"].as_str().unwrap_or("") {
                "edit" => {
                    apply_patch(&mut files, &src, &op["patch"]);
                    let newkeys = str_map(&op["ikeys"]);
                    let body_only = op["body_only"].as_bool().unwrap_or(false);
                    let kind = op["kind"].as_str().unwrap_or("?").to_string();
                    for (p, k) in &newkeys {
                        if m.ikey.get(p) != Some(k) {
                            if body_only {
                                return Err(("C15|infra|body-edit-changed-interface-key".into(), format!("generator: body edit changed the interface view of {p}")));
                            }
                            m.last_iface_edit.insert(p.clone(), (oi, kind.clone()));
                        }
                    }
                    m.ikey = newkeys;
                    labels.push(format!("edit:{}", if body_only { "body".to_string() } else { kind }));
                }
                "check" => {
                    do_build(&mut m, &files, &src, &art, &pkg, true, &mut labels)?;
                }
                "build" => {
                    let before = m.core.get(&pkg).map(|c| (c.ident, c.ikey.clone()));
                    let ok = do_build(&mut m, &files, &src, &art, &pkg, false, &mut labels)?;
                    if ok {
                        if let (Some((id0, k0)), Some(c)) = (before, m.core.get(&pkg)) {
                            if id0 == c.ident {
                                labels.push("rebuild:same-interface".into());
                            } else if k0 == c.ikey {
                                labels.push("rebuild:only-dependency-interface-changed".into());
                            } else {
                                labels.push("rebuild:interface-changed".into());
                            }
                        }
                    }
                }
                "link" => {
                    let stale = m.stale_pairs(&pkgs);
                    let r = sep::link_dir(&art, &pkgs);
                    if let Err(e) = &r {
                        if e.is_panic() {
                            if let Some((p, d)) = stale.first() {
                                // the staleness check let the combination through and a later stage tripped over it
                                return Err((
                                    format!("C15|stale-link-accepted|{}", m.cause(d)),
                                    format!("op {oi}: {p} was built against another interface of {d} than the one being linked; link does not refuse the combination and then panics: {}", e.describe()),
                                ));
                            }
                            return Err(projgen::sep_sig("C15", "", e));
                        }
                    }
                    match (&r, stale.is_empty()) {
                        (Ok(_), false) => {
                            let (p, d) = &stale[0];
                            return Err((
                                format!("C15|stale-link-accepted|{}", m.cause(d)),
                                format!("op {oi}: link succeeds although {p} was built against another interface of {d} than the one {d}.core now exports (stale pairs: {:?})", stale),
                            ));
                        }
                        (Err(e), true) => {
                            return Err((
                                "C15|consistent-link-rejected".into(),
                                format!("op {oi}: every package was built against the interfaces being linked, but link fails: {}", e.describe()),
                            ));
                        }
                        (Err(_), false) => {
                            labels.push("link:stale-rejected".into());
                            nontrivial = true;
                            // transitive: the dependency's own sources show the same interface as when the dependent was built
                            for (p, d) in &stale {
                                let dk = m.core.get(d).map(|c| c.ikey.clone());
                                let _ = p;
                                if m.deps.get(d).map_or(false, |x| !x.is_empty()) && dk.is_some() && m.last_iface_edit.get(d).is_none() {
                                    labels.push("stale:transitive".into());
                                }
                            }
                        }
                        (Ok(l), true) => {
                            labels.push("link:consistent".into());
                            // the linked program is the program of the sources the cores were built from
                            let mut snap: Vec<(String, String)> = vec![];
                            for p in &pkgs {
                                if let Some(c) = m.core.get(p) {
                                    snap.extend(c.src.iter().cloned());
                                }
                            }
                            let sdir = dir.join(format!("snap{oi}"));
                            sandbox::materialise(&sdir, &snap);
                            let main_src = snap.iter().find(|(p, _)| p == "main.gom").map(|(_, t)| t.clone()).unwrap_or_default();
                            let w = goml::compile_at(sdir.join("main.gom"), &main_src);
                            match &w {
                                CompileRes::Ok(_, wgo) => {
                                    let wr = projgen::run_go(wgo);
                                    let lr = projgen::run_go(&l.go_text);
                                    if !wr.same_behaviour(&lr) {
                                        return Err((
                                            "C15|behaviour-after-relink".into(),
                                            format!("op {oi}: the linked program differs from a fresh whole-program compile of the sources the cores were built from\nwhole: {}\nlinked: {}", show_run(&wr), show_run(&lr)),
                                        ));
                                    }
                                    if snap != files {
                                        labels.push("link:consistent-with-older-bodies".into());
                                    }
                                }
                                CompileRes::Panic(p) => {
                                    return Err((format!("C15|panic|{}", p.signature()), format!("whole: panic at {}:{}: {}", p.file, p.line, p.message)))
                                }
                                CompileRes::Err(_) => {
                                    return Err((
                                        "C15|linked-sources-rejected-by-whole-compile".into(),
                                        format!("op {oi}: link accepts cores whose sources the whole-program compile rejects: {}", projgen::describe_compile(&w)),
                                    ));
                                }
                            }
                            let _ = std::fs::remove_dir_all(&sdir);
                        }
                    }
                }
                _ => {}
            }
        }
        Ok(())
    })();
    ctx.scratch.remove(&dir);
    labels.sort();
    labels.dedup();
    match res {
        Ok(()) => CaseOut::pass(nontrivial, key).labelled(labels),
        Err((sig, detail)) => CaseOut::fail(sig, detail, key).labelled(labels),
    }
}

fn show_run(r: &GoRun) -> String {
    match r {
        GoRun::Ran { stdout, end } => format!("ends {end}, prints:\n{}", truncate_str(&String::from_utf8_lossy(stdout), 600)),
        GoRun::Unsupported(u) => format!("outside miniGo: {u}"),
        GoRun::Rejected(m) => format!("Go rejected: {m}"),
    }
}

fn make_history(d: &mut Dec, ctx: &mut Ctx) -> Value {
    let mut proj = projgen::gen_project_sized(d, ctx, 1, 3);
    let mut labels = proj.features();
    let n = proj.pkgs.len();
    let names: Vec<String> = proj.topo_names();
    let mut deps = Map::new();
    for pk in &proj.pkgs {
        deps.insert(pk.name.clone(), json!(pk.imports.iter().map(|i| proj.pkgs[*i].name.clone()).collect::<Vec<_>>()));
    }
    let keys = |proj: &projgen::Project| -> Value {
        let mut m = Map::new();
        for (i, pk) in proj.pkgs.iter().enumerate() {
            m.insert(pk.name.clone(), Value::String(proj.iface_key(i)));
        }
        Value::Object(m)
    };
    let mut files = proj.render();
    files.sort();
    let files0 = files.clone();
    let ikeys0 = keys(&proj);
    let mut ops: Vec<Value> = vec![];
    let episodes = 1 + d.below(4);
    for _ in 0..episodes {
        // prefer editing a library
        let p = if n > 1 && d.chance(215) { 1 + d.below(n - 1) } else { 0 };
        let body_only = d.chance(80);
        let (kind, desc) = if body_only {
            match proj.edit_body(p, d) {
                Some(desc) => ("body".to_string(), desc),
                None => continue,
            }
        } else {
            let mut which = d.below(projgen::IFACE_EDITS.len());
            if projgen::IFACE_EDITS[which] == "change-bound" && ctx.gated("edit:change-bound") {
                which = 0;
            }
            match proj.edit_iface(p, which, d) {
                Some(k) => (k.to_string(), String::new()),
                None => continue,
            }
        };
        let mut nf = proj.render();
        nf.sort();
        ops.push(json!({"op": "edit", "pkg": proj.pkgs[p].name, "body_only": body_only, "kind": kind, "what": desc,
                        "patch": patch_of(&files, &nf), "ikeys": keys(&proj)}));
        files = nf;
        if d.chance(50) {
            ops.push(json!({"op": "check", "pkg": proj.pkgs[p].name}));
        }
        if d.chance(225) {
            ops.push(json!({"op": "build", "pkg": proj.pkgs[p].name}));
        }
        // dependents, dependencies first
        for q in (0..n).rev() {
            if q != p && proj.closure(q).contains(&p) && d.chance(120) {
                if d.chance(30) {
                    ops.push(json!({"op": "check", "pkg": proj.pkgs[q].name}));
                }
                ops.push(json!({"op": "build", "pkg": proj.pkgs[q].name}));
            }
        }
        ops.push(json!({"op": "link"}));
        if d.chance(70) {
            // rebuild everything in order: the link must succeed again
            for name in &names {
                ops.push(json!({"op": "build", "pkg": name}));
            }
            ops.push(json!({"op": "link"}));
        }
    }
    labels.push(format!("episodes:{episodes}"));
    json!({"kind": "history", "files": goml::files_to_json(&files0), "packages": names, "deps": deps, "ikeys": ikeys0, "ops": ops, "labels": labels})
}


// ------------------------------------------------- order-preserving JSON edits
//
// serde_json::Value sorts object keys; goml's artifacts serialise IndexMaps as
// objects and hash them in order, so a Value round trip alone already breaks
// the hash. Leaves are therefore located by byte span and spliced in place.

pub struct Leaf {
    pub path: Vec<Step>,
    pub start: usize,
    pub end: usize,
}

/// byte spans of every value (scalars and containers) of a JSON text
pub fn json_spans(text: &str) -> Vec<Leaf> {
    struct P<'a> {
        b: &'a [u8],
        i: usize,
        out: Vec<Leaf>,
    }
    impl<'a> P<'a> {
        fn ws(&mut self) {
            while self.i < self.b.len() && (self.b[self.i] as char).is_ascii_whitespace() {
                self.i += 1;
            }
        }
        fn string(&mut self) -> Option<String> {
            // at the opening quote
            let start = self.i;
            self.i += 1;
            while self.i < self.b.len() {
                match self.b[self.i] {
                    b'\\' => self.i += 2,
                    b'"' => {
                        self.i += 1;
                        return serde_json::from_slice::<String>(&self.b[start..self.i]).ok();
                    }
                    _ => self.i += 1,
                }
            }
            None
        }
        fn value(&mut self, path: &mut Vec<Step>) -> Option<()> {
            self.ws();
            let start = self.i;
            match *self.b.get(self.i)? {
                b'{' => {
                    self.i += 1;
                    loop {
                        self.ws();
                        match *self.b.get(self.i)? {
                            b'}' => {
                                self.i += 1;
                                break;
                            }
                            b',' => self.i += 1,
                            b'"' => {
                                let k = self.string()?;
                                self.ws();
                                if *self.b.get(self.i)? != b':' {
                                    return None;
                                }
                                self.i += 1;
                                path.push(Step::Key(k));
                                self.value(path)?;
                                path.pop();
                            }
                            _ => return None,
                        }
                    }
                }
                b'[' => {
                    self.i += 1;
                    let mut idx = 0;
                    loop {
                        self.ws();
                        match *self.b.get(self.i)? {
                            b']' => {
                                self.i += 1;
                                break;
                            }
                            b',' => self.i += 1,
                            _ => {
                                path.push(Step::Idx(idx));
                                self.value(path)?;
                                path.pop();
                                idx += 1;
                            }
                        }
                    }
                }
                b'"' => {
                    self.string()?;
                }
                _ => {
                    while self.i < self.b.len() && !matches!(self.b[self.i], b',' | b'}' | b']') && !(self.b[self.i] as char).is_ascii_whitespace() {
                        self.i += 1;
                    }
                }
            }
            self.out.push(Leaf { path: path.clone(), start, end: self.i });
            Some(())
        }
    }
    let mut p = P { b: text.as_bytes(), i: 0, out: vec![] };
    let _ = p.value(&mut vec![]);
    p.out
}

/// change the value at one span with jsonmut; returns (new text, description)
pub fn splice_mutation(text: &str, leaf: &Leaf, d: &mut Dec) -> Option<(String, String)> {
    let mut sub: Value = serde_json::from_str(&text[leaf.start..leaf.end]).ok()?;
    let desc = jsonmut::mutate_at(&mut sub, &[], d);
    let mut out = String::with_capacity(text.len() + 16);
    out.push_str(&text[..leaf.start]);
    out.push_str(&serde_json::to_string(&sub).ok()?);
    out.push_str(&text[leaf.end..]);
    Some((out, desc))
}

// --------------------------------------------------------------- corruptions

/// header fields of the two artifact kinds and how they are altered;
/// (name, recompute the interface hash afterwards)
const IFACE_HEADER: &[(&str, bool)] = &[
    ("format_version", false),
    ("format_version", true),
    ("compiler_abi", false),
    ("compiler_abi", true),
    ("package", false),
    ("package", true),
    ("interface_hash", false),
    ("deps", false),
];

const CORE_HEADER: &[(&str, bool)] = &[
    ("format_version", false),
    ("compiler_abi", false),
    ("package", false),
    ("deps", false),
    ("interface.format_version", false),
    ("interface.format_version", true),
    ("interface.compiler_abi", false),
    ("interface.compiler_abi", true),
    ("interface.package", false),
    ("interface.interface_hash", false),
    ("interface.deps", false),
    ("core_ir.constant", false),
    ("sources", false),
];

fn alter_hash(h: &str) -> String {
    let mut c: Vec<char> = h.chars().collect();
    if let Some(x) = c.first_mut() {
        *x = if *x == '0' { '1' } else { '0' };
    } else {
        c.push('0');
    }
    c.into_iter().collect()
}

fn alter_interface(u: &mut InterfaceUnit, field: &str, rehash: bool) -> bool {
    match field {
        "format_version" => u.format_version += 1,
        "compiler_abi" => u.compiler_abi += 1,
        "package" => u.package.push('x'),
        "interface_hash" => u.interface_hash = alter_hash(&u.interface_hash),
        "deps" => {
            let Some((k, v)) = u.deps.iter().next().map(|(k, v)| (k.clone(), v.clone())) else { return false };
            u.deps.insert(k, alter_hash(&v));
        }
        _ => return false,
    }
    if rehash {
        u.interface_hash = u.compute_hash();
    }
    true
}

/// the k-th literal constant inside the core IR changed in place: (text, description)
fn alter_core_constant(text: &str, k: usize) -> Option<(String, String)> {
    let spans = json_spans(text);
    let consts: Vec<&Leaf> = spans
        .iter()
        .filter(|l| {
            let ps = jsonmut::path_string(&l.path);
            ps.starts_with("/core_ir") && (ps.ends_with("/EPrim/value/Int32/value") || ps.ends_with("/EPrim/value/String/value") || ps.ends_with("/EPrim/value/Bool/value"))
        })
        .collect();
    if consts.is_empty() {
        return None;
    }
    let l = consts[k % consts.len()];
    let old = &text[l.start..l.end];
    let new = if old == "true" {
        "false".to_string()
    } else if old == "false" {
        "true".to_string()
    } else if let Some(inner) = old.strip_suffix('"') {
        format!("{inner}!\"")
    } else {
        format!("{}", old.parse::<i64>().ok()? + 1)
    };
    let mut out = String::new();
    out.push_str(&text[..l.start]);
    out.push_str(&new);
    out.push_str(&text[l.end..]);
    Some((out, format!("{}: {old} -> {new}", jsonmut::path_string(&l.path))))
}

/// is the altered leaf one whose alteration C15 requires to be detected?
/// Everything in an interface file; in a core file everything except `sources`.
fn required(which: &str, path: &str) -> bool {
    !(which == "core" && (path == "/sources" || path.starts_with("/sources/")))
}

fn coarse_path(which: &str, path: &str) -> String {
    let segs: Vec<&str> = path.split('/').filter(|s| !s.is_empty()).collect();
    let head: Vec<&str> = segs.iter().take(if segs.first() == Some(&"interface") { 2 } else { 1 }).copied().collect();
    format!("{which}:{}", if head.is_empty() { "<root>".to_string() } else { head.join(".") })
}

struct Built {
    name: String,
    order: Vec<String>,
    /// package -> (interface json, core json)
    units: BTreeMap<String, (String, String)>,
    imports: Vec<(String, Vec<String>)>,
}

/// build the project of the case (a corpus project by name or the files of the input)
fn build_case_project(input: &Value, dir: &Path) -> Result<Built, String> {
    let (name, files) = match input["project"].as_str() {
        Some(n) => {
            let Some(p) = c04::built_projects().iter().find(|p| p.name == n) else { return Err("no-such-corpus-project".into()) };
            (n.to_string(), p.files.clone())
        }
        None => ("generated".to_string(), goml::files_from_json(&input["files"])),
    };
    if files.is_empty() {
        return Err("no-files".into());
    }
    let src = dir.join("src");
    sandbox::materialise(&src, &files);
    let d = sep::discover(&src).map_err(|e| format!("discover:{}", e.describe()))?;
    let art = dir.join("art0");
    sep::build_all(&d, &d.order, &art).map_err(|e| format!("build:{}", truncate_str(&e.describe(), 80)))?;
    let mut units = BTreeMap::new();
    for p in &d.order {
        let i = std::fs::read_to_string(art.join(format!("{p}.interface"))).unwrap_or_default();
        let c = std::fs::read_to_string(art.join(format!("{p}.core"))).unwrap_or_default();
        units.insert(p.clone(), (i, c));
    }
    Ok(Built { name, order: d.order.clone(), units, imports: d.imports.clone() })
}

/// Feed one altered artifact to its consumers. Ok(true) = rejected, Ok(false) = accepted.
fn consume(b: &Built, dir: &Path, pkg: &str, which: &str, mutated: &str, tag: &str) -> Result<bool, (String, String)> {
    let art = dir.join(format!("art-{tag}"));
    let _ = std::fs::remove_dir_all(&art);
    let _ = std::fs::create_dir_all(&art);
    for (name, (i, c)) in &b.units {
        let (i, c) = if name == pkg {
            if which == "core" { (i.as_str(), mutated) } else { (mutated, c.as_str()) }
        } else {
            (i.as_str(), c.as_str())
        };
        let _ = std::fs::write(art.join(format!("{name}.interface")), i);
        let _ = std::fs::write(art.join(format!("{name}.core")), c);
    }
    let src = dir.join("src");
    if which == "core" {
        match sep::link_dir(&art, &b.order) {
            Ok(_) => Ok(false),
            Err(e) if e.is_panic() => Err(projgen::sep_sig("C15", "", &e)),
            Err(_) => Ok(true),
        }
    } else {
        // every package importing `pkg`: check and build must both refuse the interface
        let mut any = false;
        let mut all_rejected = true;
        for (dep_pkg, imports) in &b.imports {
            if !imports.iter().any(|i| i == pkg) {
                continue;
            }
            any = true;
            let pdir = pkg_dir(&src, dep_pkg);
            for check in [true, false] {
                let r = if check { sep::check_one(dep_pkg, &pdir, &art).map(|_| ()) } else { sep::build_one(dep_pkg, &pdir, &art).map(|_| ()) };
                match r {
                    Ok(()) => all_rejected = false,
                    Err(e) if e.is_panic() => return Err(projgen::sep_sig("C15", "", &e)),
                    Err(_) => {}
                }
            }
        }
        if !any {
            return Err(("skip".into(), "no dependent".into()));
        }
        Ok(all_rejected)
    }
}

fn judge_corruption(input: &Value, ctx: &mut Ctx) -> CaseOut {
    let dir = ctx.scratch.fresh_dir();
    let key = fnv_str(&input.to_string());
    let b = match build_case_project(input, &dir) {
        Ok(b) => b,
        Err(why) => {
            ctx.scratch.remove(&dir);
            return CaseOut::discard(&format!("project:{}", why.split(':').next().unwrap_or("")));
        }
    };
    let which = input["which"].as_str().unwrap_or("core").to_string();
    // package: by name or by index into the build order (interface files: only packages with dependents)
    let candidates: Vec<String> = b
        .order
        .iter()
        .filter(|p| which == "core" || b.imports.iter().any(|(_, im)| im.contains(p)))
        .cloned()
        .collect();
    if candidates.is_empty() {
        ctx.scratch.remove(&dir);
        return CaseOut::discard("no-package-with-dependents");
    }
    let pkg = match input["package"].as_str() {
        Some(p) => p.to_string(),
        None => candidates[input["package_index"].as_u64().unwrap_or(0) as usize % candidates.len()].clone(),
    };
    let Some((ijson, cjson)) = b.units.get(&pkg).cloned() else {
        ctx.scratch.remove(&dir);
        return CaseOut::discard("no-such-package");
    };
    let original = if which == "core" { cjson } else { ijson };
    let mut labels = vec![format!("artifact:{which}"), format!("project:{}", if b.name == "generated" { "generated" } else { "corpus" })];
    let res = (|| -> Result<Result<bool, String>, (String, String)> {
        // ---- produce the altered text
        let (mutated, leaf, desc, rehash) = if let Some(field) = input["field"].as_str() {
            let rehash = input["rehash"].as_bool().unwrap_or(false);
            if which == "interface" {
                let Ok(mut u) = serde_json::from_str::<InterfaceUnit>(&original) else { return Ok(Err("original-does-not-deserialize".into())) };
                if !alter_interface(&mut u, field, rehash) {
                    return Ok(Err("field-absent".into()));
                }
                (serde_json::to_string_pretty(&u).unwrap_or_default(), format!("/{field}"), format!("{field} altered"), rehash)
            } else if field == "core_ir.constant" {
                match alter_core_constant(&original, input["constant_index"].as_u64().unwrap_or(0) as usize) {
                    Some((t, d)) => (t, "/core_ir/constant".to_string(), d, false),
                    None => return Ok(Err("no-constant-in-core".into())),
                }
            } else {
                let Ok(mut u) = serde_json::from_str::<CoreUnit>(&original) else { return Ok(Err("original-does-not-deserialize".into())) };
                let ok = match field {
                    "format_version" => {
                        u.format_version += 1;
                        true
                    }
                    "compiler_abi" => {
                        u.compiler_abi += 1;
                        true
                    }
                    "package" => {
                        u.package.push('x');
                        true
                    }
                    "deps" => match u.deps.iter().next().map(|(k, v)| (k.clone(), v.clone())) {
                        Some((k, v)) => {
                            u.deps.insert(k, alter_hash(&v));
                            true
                        }
                        None => false,
                    },
                    "sources" => {
                        u.sources.push("/nowhere/else.gom".into());
                        true
                    }
                    f if f.starts_with("interface.") => alter_interface(&mut u.interface, &f["interface.".len()..], rehash),
                    _ => false,
                };
                if !ok {
                    return Ok(Err("field-absent".into()));
                }
                (serde_json::to_string_pretty(&u).unwrap_or_default(), format!("/{}", field.replace('.', "/")), format!("{field} altered"), rehash)
            }
        } else {
            // a random single leaf (or container), spliced in place
            let spans = json_spans(&original);
            let region = input["region"].as_str().unwrap_or("any");
            let leaves: Vec<&Leaf> = spans
                .iter()
                .filter(|l| !l.path.is_empty())
                .filter(|l| {
                    let in_ir = matches!(l.path.first(), Some(Step::Key(k)) if k == "core_ir");
                    match region {
                        "core_ir" => in_ir,
                        "not-core_ir" => !in_ir,
                        _ => true,
                    }
                })
                .collect();
            if leaves.is_empty() {
                return Ok(Err("no-leaves".into()));
            }
            let li = input["leaf_index"].as_u64().unwrap_or(0) as usize % leaves.len();
            let mb = unhex(input["mut_bytes"].as_str().unwrap_or(""));
            let mut md = Dec::new(&mb);
            match splice_mutation(&original, leaves[li], &mut md) {
                Some((t, desc)) => (t, jsonmut::path_string(&leaves[li].path), desc, false),
                None => return Ok(Err("leaf-not-parsed".into())),
            }
        };
        labels.push(format!("leaf:{}", coarse_path(&which, &leaf)));
        if rehash {
            labels.push("rehash".into());
        }
        // ---- is the alteration visible in the value the compiler reads?
        let visible = if which == "core" {
            match (serde_json::from_str::<CoreUnit>(&mutated), serde_json::from_str::<CoreUnit>(&original)) {
                (Ok(a), Ok(b0)) => Some(serde_json::to_string(&a).ok() != serde_json::to_string(&b0).ok()),
                (Err(_), _) => None,
                _ => Some(true),
            }
        } else {
            match (serde_json::from_str::<InterfaceUnit>(&mutated), serde_json::from_str::<InterfaceUnit>(&original)) {
                (Ok(a), Ok(b0)) => Some(serde_json::to_string(&a).ok() != serde_json::to_string(&b0).ok()),
                (Err(_), _) => None,
                _ => Some(true),
            }
        };
        let rejected = match consume(&b, &dir, &pkg, &which, &mutated, "m") {
            Ok(r) => r,
            Err((s, _)) if s == "skip" => return Ok(Err("no-dependent".into())),
            Err((s, detail)) if s.starts_with("C15|panic|") && which == "core" && leaf.starts_with("/core_ir") => {
                // read_core let the altered IR through and a later stage of the link tripped over it
                return Err((
                    "C15|altered-artifact-accepted|core:core_ir".into(),
                    format!("{pkg}.core of {}: {leaf} altered ({desc}); read_core accepts the file and link_cores then panics: {detail}", b.name),
                ));
            }
            Err(e) => return Err(e),
        };
        match visible {
            None => {
                labels.push("corruption:does-not-deserialize".into());
                if !rejected {
                    return Err((
                        "C15|undeserializable-artifact-accepted".into(),
                        format!("{pkg}.{which} with {leaf} altered ({desc}) does not deserialize here but its consumer accepts it"),
                    ));
                }
                Ok(Ok(false))
            }
            Some(false) => {
                labels.push("corruption:not-value-visible".into());
                Ok(Ok(false))
            }
            Some(true) => {
                if rejected {
                    labels.push("corruption:rejected".into());
                    return Ok(Ok(true));
                }
                if !required(&which, &leaf) {
                    labels.push("corruption:accepted-not-required".into());
                    return Ok(Ok(true));
                }
                let class = if rehash {
                    format!("C15|foreign-version-accepted|{}", coarse_path(&which, &leaf))
                } else {
                    format!("C15|altered-artifact-accepted|{}", coarse_path(&which, &leaf))
                };
                Err((
                    class,
                    format!(
                        "{pkg}.{which} of {}: {leaf} altered ({desc}{}) and {} accepts it",
                        b.name,
                        if rehash { ", interface_hash recomputed" } else { "" },
                        if which == "core" { "read_core + link_cores" } else { "check_package/build_package of a dependent" }
                    ),
                ))
            }
        }
    })();
    ctx.scratch.remove(&dir);
    match res {
        Ok(Ok(nt)) => CaseOut::pass(nt, key).labelled(labels),
        Ok(Err(why)) => {
            let mut o = CaseOut::discard(&why);
            o.labels = labels;
            o
        }
        Err((sig, detail)) => CaseOut::fail(sig, detail, key).labelled(labels),
    }
}

/// shapes excluded while their findings are open
fn gate_header(ctx: &mut Ctx, (field, rehash): (&'static str, bool)) -> (&'static str, bool) {
    if rehash && field.ends_with("format_version") && ctx.gated("artifact:foreign-version") {
        return (field, false);
    }
    if rehash && field.ends_with("compiler_abi") && ctx.gated("artifact:foreign-version") {
        return (field, false);
    }
    if field == "core_ir.constant" && ctx.gated("artifact:core-ir-unprotected") {
        return ("deps", false);
    }
    (field, rehash)
}

/// (project name, package index, which, field index): the exhaustive header phase
fn header_cases() -> Vec<(String, usize, &'static str, usize)> {
    let mut out = vec![];
    for p in c04::built_projects() {
        for (pi, _) in p.order.iter().enumerate() {
            for fi in 0..CORE_HEADER.len() {
                out.push((p.name.clone(), pi, "core", fi));
            }
            for fi in 0..IFACE_HEADER.len() {
                out.push((p.name.clone(), pi, "interface", fi));
            }
        }
    }
    out
}

impl Check for C15 {
    fn id(&self) -> &'static str {
        "C15"
    }
    fn phases(&self, tier: Tier) -> Vec<PhaseSpec> {
        vec![
            PhaseSpec { name: "history", cases: tier.pick(5_000, 24_000), max_bytes: 1700, exhaustive: false },
            PhaseSpec { name: "header", cases: header_cases().len() as u64, max_bytes: 0, exhaustive: true },
            PhaseSpec { name: "header-gen", cases: tier.pick(1_200, 6_000), max_bytes: 1500, exhaustive: false },
            PhaseSpec { name: "leaf", cases: tier.pick(6_000, 30_000), max_bytes: 1500, exhaustive: false },
        ]
    }
    fn make(&self, phase: &str, index: u64, bytes: &[u8], ctx: &mut Ctx) -> Case {
        let mut d = Dec::new(bytes);
        match phase {
            "history" => Case::new(make_history(&mut d, ctx)),
            "header" => {
                let hs = header_cases();
                let (proj, pi, which, fi) = hs[index as usize % hs.len().max(1)].clone();
                let (field, rehash) = gate_header(ctx, if which == "core" { CORE_HEADER[fi] } else { IFACE_HEADER[fi] });
                let pkg = c04::built_projects().iter().find(|p| p.name == proj).map(|p| p.order[pi].clone()).unwrap_or_default();
                Case::new(json!({"kind": "corruption", "project": proj, "package": pkg, "which": which, "field": field, "rehash": rehash}))
            }
            "header-gen" => {
                let proj = projgen::gen_project_sized(&mut d, ctx, 1, 3);
                let which = if d.bool() { "core" } else { "interface" };
                let (field, rehash) = gate_header(ctx, if which == "core" { CORE_HEADER[d.below(CORE_HEADER.len())] } else { IFACE_HEADER[d.below(IFACE_HEADER.len())] });
                Case::new(json!({"kind": "corruption", "files": goml::files_to_json(&proj.render()), "package_index": d.below(8), "which": which, "field": field, "rehash": rehash}))
            }
            _ => {
                // a random leaf of an artifact of a corpus project or of a generated project
                let which = if d.chance(150) { "core" } else { "interface" };
                // the core IR is by far the largest part of a core file: choose the region first
                let region = if which == "core" {
                    if d.chance(100) && !ctx.gated("artifact:core-ir-unprotected") { "core_ir" } else { "not-core_ir" }
                } else {
                    "any"
                };
                let leaf_index = d.u64() % 1_000_003;
                let mb: Vec<u8> = (0..6).map(|_| d.byte()).collect();
                let pi = d.below(8);
                if d.chance(100) {
                    let bp = c04::built_projects();
                    let p = &bp[d.below(bp.len().max(1)) % bp.len().max(1)];
                    Case::new(json!({"kind": "corruption", "project": p.name, "package_index": pi, "which": which, "region": region, "leaf_index": leaf_index, "mut_bytes": hex(&mb)}))
                } else {
                    let proj = projgen::gen_project_sized(&mut d, ctx, 1, 2);
                    Case::new(json!({"kind": "corruption", "files": goml::files_to_json(&proj.render()), "package_index": pi, "which": which, "region": region, "leaf_index": leaf_index, "mut_bytes": hex(&mb)}))
                }
            }
        }
    }
    fn judge(&self, _phase: &str, case: &Case, ctx: &mut Ctx) -> CaseOut {
        if case.input["kind"].as_str() == Some("history") {
            judge_history(&case.input, ctx)
        } else {
            judge_corruption(&case.input, ctx)
        }
    }
    fn rule(&self) -> String {
        format!(
            "history: a generated legal project with 1-3 libraries (projgen) is built completely, then 1-4 episodes follow: edit one package (body-only: a literal or the result expression inside one function body; or one of {} interface edits: {}; call sites, literals, match arms and impls in ALL packages are adapted so the sources stay legal), optionally `check` it, usually `build` it, rebuild each transitive dependent with probability 1/2, `link`; sometimes rebuild everything and link again. Artifacts live as JSON files in one directory, exactly as the CLI leaves them. Model: the interface identity of a package = its source with all function bodies erased + the identities of the dependency interface files it was checked/built against; a core records the identities it was built against. Oracle after every link: Ok <=> every core was built against exactly the identities the cores being linked embed; a stale link that succeeds is a failure naming the latest interface edit below the stale dependency; when consistent, stdout and end of the linked Go (miniGo) equal a fresh whole-program compile of the sources the cores were built from. Hash relation over the whole history: equal identity <=> equal interface_hash (body-only edits keep it, every interface edit changes it, also transitively through `deps`). header: for every package of the {} corpus projects each header field of the core file ({}) and of the interface file ({}) altered on the typed value, for format_version/compiler_abi/package also with interface_hash recomputed; header-gen: the same on generated projects; leaf: one random leaf of the JSON tree of a core or interface file (corpus or generated project) changed by jsonmut. A corruption that deserializes to a different value must be rejected: core files by read_core+link_cores of the project, interface files by check_package AND build_package of every package that imports it. Required: every leaf of an interface file; every leaf of a core file (format_version, compiler_abi, package, deps, the embedded interface, core_ir) EXCEPT `sources` (a list of path strings no later stage reads; reported under the label corruption:accepted-not-required). With a recomputed hash only the version fields and the package name are required (any other content then is a different, self-consistent interface). Non-trivial = a history with a link that has >= 1 stale dependent, or a value-visible corruption; distinct by hash of the case.",
            projgen::IFACE_EDITS.len(),
            projgen::IFACE_EDITS.join(", "),
            c04::built_projects().len(),
            CORE_HEADER.iter().map(|(f, r)| if *r { format!("{f}+rehash") } else { f.to_string() }).collect::<Vec<_>>().join(", "),
            IFACE_HEADER.iter().map(|(f, r)| if *r { format!("{f}+rehash") } else { f.to_string() }).collect::<Vec<_>>().join(", "),
        )
    }
    fn assumptions(&self) -> Vec<String> {
        vec![
            "`Visible to dependents` is taken as: anything in a package's sources outside function bodies (items, signatures, fields, variants and their order, trait methods, impl heads, bounds, imports)".into(),
            "The interface identity includes the dependency interfaces a package was built against (goml's `deps` are part of the hash), so staleness propagates transitively even when the intermediate package's own sources are unchanged".into(),
            "A build that fails leaves the previous artifacts in place (as `goml build` does); whether a build against stale interface files succeeds is not predicted".into(),
            "`sources` in a core file is informational; its alteration is not required to be detected".into(),
            "miniGo stands for the Go toolchain when comparing the relinked program with a fresh whole-program compile".into(),
        ]
    }
    fn required_labels(&self, _tier: Tier) -> Vec<&'static str> {
        vec![
            "link:consistent",
            "link:stale-rejected",
            "link:consistent-with-older-bodies",
            "stale:transitive",
            "rebuild:same-interface",
            "rebuild:interface-changed",
            "rebuild:only-dependency-interface-changed",
            "edit:body",
            "edit:add-fn",
            "edit:rename-fn",
            "edit:rename-type",
            "edit:add-param",
            "edit:change-param-type",
            "edit:change-ret-type",
            "edit:add-field",
            "edit:add-variant",
            "edit:reorder-variants",
            "edit:add-trait-method",
            "edit:add-impl",
            "edit:add-trait",
            "edit:remove-fn",
            "corruption:rejected",
            "artifact:core",
            "artifact:interface",
            "rehash",
        ]
    }
    fn max_discard_fraction(&self) -> f64 {
        0.25
    }
}
