use crate::driver::Check;

pub mod c03;
pub mod c04;
pub mod c05;
pub mod c06;
pub mod c11;
pub mod c12;
pub mod c19;
pub mod prog;

pub fn registry() -> Vec<&'static dyn Check> {
    vec![&prog::C01, &prog::C02, &c03::C03, &c04::C04, &c05::C05, &c06::C06, &prog::C07, &prog::C08, &prog::C09, &c11::C11, &c12::C12, &c19::C19]
}

pub fn find(id: &str) -> Option<&'static dyn Check> {
    registry().into_iter().find(|c| c.id().eq_ignore_ascii_case(id))
}
