use crate::driver::Check;

pub mod c03;
pub mod c04;
pub mod c04cli;
pub mod c05;
pub mod c06;
pub mod c10;
pub mod c11;
pub mod c12;
pub mod c13;
pub mod c14;
pub mod c15;
pub mod c16;
pub mod c17;
pub mod c18;
pub mod c19;
pub mod c20;
pub mod prog;

pub fn registry() -> Vec<&'static dyn Check> {
    vec![&prog::C01, &prog::C02, &c03::C03, &c04::C04, &c05::C05, &c06::C06, &prog::C07, &prog::C08, &prog::C09, &c10::C10, &c11::C11, &c12::C12, &c13::C13, &c14::C14, &c15::C15, &c16::C16, &c17::C17, &c18::C18, &c19::C19, &c20::C20]
}

pub fn find(id: &str) -> Option<&'static dyn Check> {
    registry().into_iter().find(|c| c.id().eq_ignore_ascii_case(id))
}
