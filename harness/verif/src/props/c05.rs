//! C05 — names resolve lexically: innermost binding wins, bindings never leak.

use crate::behave;
use crate::driver::*;
use crate::gen::build::{gen_program, Focus, GenCfg};
use crate::gen::model::*;
use crate::gen::render::{render_with_marks, Mark};
use crate::goml::{self, CompileRes};
use crate::util::*;
use compiler::hir;
use serde_json::{json, Value};
use std::collections::{BTreeMap, HashMap};

pub struct C05;

// ------------------------------------------------------------- skeletons

const NOPS: u64 = 10;

#[derive(Clone, Copy, Debug, PartialEq)]
enum Op {
    Bind(usize),
    Use(usize),
    OpenIf,
    OpenMatch,
    OpenClosure,
    OpenWhile,
    /// `|a| |a| { .. }`: a closure whose body is directly another closure (both parameters spelled `a`)
    OpenCurried,
    Close,
}

fn op_of(k: u64) -> Op {
    match k {
        0 => Op::Bind(0),
        1 => Op::Bind(1),
        2 => Op::Use(0),
        3 => Op::Use(1),
        4 => Op::OpenIf,
        5 => Op::OpenMatch,
        6 => Op::OpenClosure,
        7 => Op::OpenWhile,
        9 => Op::OpenCurried,
        _ => Op::Close,
    }
}

pub fn skeleton_count(max_len: u32) -> u64 {
    (1..=max_len).map(|l| NOPS.pow(l)).sum()
}

fn skeleton_ops(mut index: u64) -> Vec<Op> {
    let mut len = 1;
    loop {
        let n = NOPS.pow(len);
        if index < n {
            break;
        }
        index -= n;
        len += 1;
    }
    let mut ops = vec![];
    for _ in 0..len {
        ops.push(op_of(index % NOPS));
        index /= NOPS;
    }
    ops
}

const NAMES: [&str; 2] = ["a", "b"];

struct Frame {
    kind: Op,
    stmts: Vec<Stmt>,
    scope_len: usize,
    aux: Option<VarId>,
    aux2: Option<VarId>,
    serial: usize,
}

pub struct Skeleton {
    pub prog: GProg,
    pub negative: bool,
    pub nontrivial: bool,
    pub desc: String,
}

fn println_int(v: VarId) -> Stmt {
    Stmt::Expr(
        Expr::Call(
            Callee::Builtin(Builtin::Println),
            vec![Expr::Call(Callee::Builtin(Builtin::IntToString(IK::I32)), vec![Expr::Var(v)])],
        ),
        false,
    )
}

pub fn build_skeleton(ops: &[Op]) -> Skeleton {
    let mut p = GProg::default();
    let mut scope: Vec<(usize, VarId)> = vec![]; // (name index, var)
    let mut frames: Vec<Frame> = vec![Frame {
        kind: Op::Close,
        stmts: vec![],
        scope_len: 0,
        aux: None,
        aux2: None,
        serial: 0,
    }];
    let mut serial = 0usize;
    let mut negative = false;
    let mut nontrivial = false;
    let mut recent: [Option<VarId>; 2] = [None, None];
    let mut new_var = |p: &mut GProg, spelling: String, ty: Ty| -> VarId {
        p.vars.push(VarInfo { spelling, ty });
        (p.vars.len() - 1) as VarId
    };
    fn close(frames: &mut Vec<Frame>, scope: &mut Vec<(usize, VarId)>, p: &mut GProg) {
        let f = frames.pop().unwrap();
        scope.truncate(f.scope_len);
        let parent = frames.last_mut().unwrap();
        match f.kind {
            Op::OpenIf => parent.stmts.push(Stmt::Expr(
                Expr::If(
                    Box::new(Expr::Bool(true)),
                    Box::new(Expr::Block(f.stmts, Some(Box::new(Expr::Unit)))),
                    Box::new(Expr::Unit),
                ),
                false,
            )),
            Op::OpenMatch => parent.stmts.push(Stmt::Expr(
                Expr::Match(
                    Box::new(Expr::Int(IK::I32, 50 + f.serial as i128, false)),
                    vec![(
                        Pat::Var(f.aux.unwrap()),
                        Expr::Block(f.stmts, Some(Box::new(Expr::Unit))),
                    )],
                ),
                false,
            )),
            Op::OpenClosure => {
                // a closure that contains nothing but another closure and its call is written curried
                // half of the time: `let g = |a: int32| |a: int32| { .. }; g(70)(71);`
                let curried = f.serial % 2 == 0
                    && f.stmts.len() == 2
                    && matches!(&f.stmts[0], Stmt::Let(Pat::Var(_), None, Expr::Closure(..)))
                    && matches!(&f.stmts[1], Stmt::Expr(Expr::Call(Callee::Val(_), _), false));
                if curried {
                    let mut it = f.stmts.into_iter();
                    let (Some(Stmt::Let(_, _, inner)), Some(Stmt::Expr(Expr::Call(_, inner_args), _))) = (it.next(), it.next()) else {
                        unreachable!()
                    };
                    let inner_ty = match &inner {
                        Expr::Closure(ps, _) => Ty::Fn(ps.iter().map(|(_, t)| t.clone()).collect(), Box::new(Ty::Unit)),
                        _ => Ty::Unit,
                    };
                    p.vars.push(VarInfo { spelling: format!("g{}", f.serial), ty: Ty::Fn(vec![Ty::i32()], Box::new(inner_ty)) });
                    let g = (p.vars.len() - 1) as VarId;
                    parent.stmts.push(Stmt::Let(Pat::Var(g), None, Expr::Closure(vec![(f.aux.unwrap(), Ty::i32())], Box::new(inner))));
                    parent.stmts.push(Stmt::Expr(
                        Expr::Call(
                            Callee::Val(Box::new(Expr::Call(
                                Callee::Val(Box::new(Expr::Var(g))),
                                vec![Expr::Int(IK::I32, 70 + f.serial as i128, false)],
                            ))),
                            inner_args,
                        ),
                        false,
                    ));
                    p.labels.insert("closure:curried".into());
                    return;
                }
                p.vars.push(VarInfo {
                    spelling: format!("g{}", f.serial),
                    ty: Ty::Fn(vec![Ty::i32()], Box::new(Ty::Unit)),
                });
                let g = (p.vars.len() - 1) as VarId;
                parent.stmts.push(Stmt::Let(
                    Pat::Var(g),
                    None,
                    Expr::Closure(
                        vec![(f.aux.unwrap(), Ty::i32())],
                        Box::new(Expr::Block(f.stmts, Some(Box::new(Expr::Unit)))),
                    ),
                ));
                parent.stmts.push(Stmt::Expr(
                    Expr::Call(
                        Callee::Val(Box::new(Expr::Var(g))),
                        vec![Expr::Int(IK::I32, 70 + f.serial as i128, false)],
                    ),
                    false,
                ));
            }
            Op::OpenCurried => {
                let inner_ty = Ty::Fn(vec![Ty::i32()], Box::new(Ty::Unit));
                p.vars.push(VarInfo { spelling: format!("g{}", f.serial), ty: Ty::Fn(vec![Ty::i32()], Box::new(inner_ty)) });
                let g = (p.vars.len() - 1) as VarId;
                let inner = Expr::Closure(vec![(f.aux2.unwrap(), Ty::i32())], Box::new(Expr::Block(f.stmts, Some(Box::new(Expr::Unit)))));
                parent.stmts.push(Stmt::Let(Pat::Var(g), None, Expr::Closure(vec![(f.aux.unwrap(), Ty::i32())], Box::new(inner))));
                parent.stmts.push(Stmt::Expr(
                    Expr::Call(
                        Callee::Val(Box::new(Expr::Call(
                            Callee::Val(Box::new(Expr::Var(g))),
                            vec![Expr::Int(IK::I32, 70 + f.serial as i128, false)],
                        ))),
                        vec![Expr::Int(IK::I32, 170 + f.serial as i128, false)],
                    ),
                    false,
                ));
                p.labels.insert("closure:curried".into());
            }
            Op::OpenWhile => {
                let i = f.aux.unwrap();
                let rg = Expr::Call(Callee::Builtin(Builtin::RefGet), vec![Expr::Var(i)]);
                let mut body = f.stmts;
                body.push(Stmt::Expr(
                    Expr::Call(
                        Callee::Builtin(Builtin::RefSet),
                        vec![Expr::Var(i), Expr::Int(IK::I32, 1, false)],
                    ),
                    false,
                ));
                parent.stmts.push(Stmt::Let(
                    Pat::Var(i),
                    None,
                    Expr::Call(Callee::Builtin(Builtin::RefNew), vec![Expr::Int(IK::I32, 0, false)]),
                ));
                parent.stmts.push(Stmt::Expr(
                    Expr::While(
                        Box::new(Expr::Bin(BinOp::Lt, Box::new(rg), Box::new(Expr::Int(IK::I32, 1, false)))),
                        Box::new(Expr::Block(body, None)),
                    ),
                    false,
                ));
            }
            _ => {}
        }
    }
    let mut desc = String::new();
    for op in ops {
        if negative {
            break;
        }
        serial += 1;
        match *op {
            Op::Bind(n) => {
                desc.push_str(&format!("let {};", NAMES[n]));
                let v = new_var(&mut p, NAMES[n].to_string(), Ty::i32());
                frames
                    .last_mut()
                    .unwrap()
                    .stmts
                    .push(Stmt::Let(Pat::Var(v), None, Expr::Int(IK::I32, 10 + serial as i128, false)));
                scope.push((n, v));
                recent[n] = Some(v);
            }
            Op::Use(n) => {
                desc.push_str(&format!("use {};", NAMES[n]));
                match scope.iter().rev().find(|(m, _)| *m == n) {
                    Some((_, v)) => {
                        if recent[n] != Some(*v) {
                            nontrivial = true;
                        }
                        frames.last_mut().unwrap().stmts.push(println_int(*v));
                    }
                    None => {
                        negative = true;
                        nontrivial = recent[n].is_some();
                        let v = new_var(&mut p, NAMES[n].to_string(), Ty::i32());
                        frames.last_mut().unwrap().stmts.push(println_int(v));
                    }
                }
            }
            Op::Close => {
                if frames.len() > 1 {
                    desc.push_str("};");
                    close(&mut frames, &mut scope, &mut p);
                }
            }
            open => {
                let aux = match open {
                    Op::OpenMatch | Op::OpenClosure | Op::OpenCurried => {
                        let v = new_var(&mut p, NAMES[0].to_string(), Ty::i32());
                        Some(v)
                    }
                    Op::OpenWhile => Some(new_var(
                        &mut p,
                        format!("i{serial}"),
                        Ty::Ref(Box::new(Ty::i32())),
                    )),
                    _ => None,
                };
                desc.push_str(match open {
                    Op::OpenIf => "if{",
                    Op::OpenMatch => "match a=>{",
                    Op::OpenClosure => "|a|{",
                    Op::OpenCurried => "|a||a|{",
                    _ => "while{",
                });
                let scope_len = scope.len();
                if let (Op::OpenMatch | Op::OpenClosure | Op::OpenCurried, Some(v)) = (open, aux) {
                    scope.push((0, v));
                    recent[0] = Some(v);
                }
                let aux2 = if open == Op::OpenCurried {
                    let v = new_var(&mut p, NAMES[0].to_string(), Ty::i32());
                    scope.push((0, v));
                    recent[0] = Some(v);
                    Some(v)
                } else {
                    None
                };
                frames.push(Frame {
                    kind: open,
                    stmts: vec![],
                    scope_len,
                    aux,
                    aux2,
                    serial,
                });
            }
        }
    }
    while frames.len() > 1 {
        close(&mut frames, &mut scope, &mut p);
    }
    let body = frames.pop().unwrap().stmts;
    p.fns.push(FnDef { owner: None, bounds: vec![],
        name: "main".into(),
        tparams: 0,
        params: vec![],
        ret: Ty::Unit,
        body: Expr::Block(body, Some(Box::new(Expr::Unit))),
    });
    p.main = 0;
    Skeleton {
        prog: p,
        negative,
        nontrivial,
        desc,
    }
}

// ------------------------------------------------------ resolution oracle

fn range_of(ptr: &parser::syntax::MySyntaxNodePtr) -> (usize, usize) {
    let r = ptr.text_range();
    (r.start().into(), r.end().into())
}

/// Compare the compiler's name resolution with the generator's intent.
pub fn check_resolution(
    comp: &compiler::pipeline::pipeline::Compilation,
    marks: &[Mark],
) -> Result<usize, (String, String)> {
    let by_start: HashMap<usize, &Mark> = marks.iter().map(|m| (m.start, m)).collect();
    let pkg = hir::PackageId(1);
    let Some(table) = comp.hir_table.package(pkg) else {
        return Err(("C05|no-hir-table".into(), "no HIR table for package Main".into()));
    };
    let mut use_map: BTreeMap<VarId, Vec<hir::LocalId>> = BTreeMap::new();
    let mut binder_map: BTreeMap<VarId, hir::LocalId> = BTreeMap::new();
    let mut checked = 0usize;
    for idx in 0..table.expr_count() {
        let id = hir::ExprId { pkg, idx: idx as u32 };
        match table.expr(id) {
            hir::Expr::ENameRef {
                res,
                astptr: Some(ptr),
                hint,
            } => {
                let (s, _) = range_of(ptr);
                if let Some(m) = by_start.get(&s) {
                    if m.binder {
                        continue;
                    }
                    checked += 1;
                    match res {
                        hir::NameRef::Local(l) => use_map.entry(m.var).or_default().push(*l),
                        other => {
                            return Err((
                                "C05|use-not-local".into(),
                                format!(
                                    "use of local `{hint}` at byte {s} resolved to {:?} instead of a local binding",
                                    other
                                ),
                            ))
                        }
                    }
                }
            }
            hir::Expr::EClosure { params, .. } => {
                for cp in params {
                    let (s, _) = range_of(&cp.astptr);
                    if let Some(m) = by_start.get(&s) {
                        if m.binder {
                            binder_map.insert(m.var, cp.name);
                        }
                    }
                }
            }
            _ => {}
        }
    }
    for idx in 0..table.pat_count() {
        let id = hir::PatId { pkg, idx: idx as u32 };
        if let hir::Pat::PVar { name, astptr } = table.pat(id) {
            let (s, _) = range_of(astptr);
            if let Some(m) = by_start.get(&s) {
                if m.binder {
                    binder_map.insert(m.var, *name);
                }
            }
        }
    }
    let mut owner: HashMap<hir::LocalId, VarId> = HashMap::new();
    for (v, l) in &binder_map {
        if let Some(prev) = owner.insert(*l, *v) {
            if prev != *v {
                return Err((
                    "C05|merged-binders".into(),
                    format!("two distinct binders (generator vars {prev} and {v}) share {:?}", l),
                ));
            }
        }
    }
    for (v, ls) in &use_map {
        let first = ls[0];
        if ls.iter().any(|l| *l != first) {
            return Err((
                "C05|inconsistent-uses".into(),
                format!("uses of generator var {v} resolve to different locals {:?}", ls),
            ));
        }
        if let Some(b) = binder_map.get(v) {
            if *b != first {
                return Err((
                    "C05|wrong-binder".into(),
                    format!(
                        "a use of generator var {v} resolves to {:?} but its binder is {:?}",
                        first, b
                    ),
                ));
            }
        } else if let Some(other) = owner.get(&first) {
            if other != v {
                return Err((
                    "C05|wrong-binder".into(),
                    format!("a use of generator var {v} resolves to the binder of var {other}"),
                ));
            }
        }
    }
    Ok(checked)
}

fn scoping_message(m: &str) -> bool {
    let l = m.to_lowercase();
    l.contains("not found in environment")
        || l.contains("unresolved")
        || l.contains("not found in scope")
        || l.contains("undefined variable")
        || l.contains("unbound")
}

pub fn judge_program(
    p: Option<&GProg>,
    text: &str,
    marks: &[Mark],
    negative: bool,
    nontrivial: bool,
    ctx: &mut Ctx,
) -> CaseOut {
    let key = fnv_str(text);
    let res = goml::compile_single(ctx, text);
    let mut labels = vec![format!("stage:{}", res.stage())];
    if p.map_or(false, |p| p.labels.contains("closure:curried")) {
        labels.push("closure:curried".into());
    }
    if negative {
        labels.push("negative".into());
        return match &res {
            CompileRes::Ok(..) => CaseOut::fail(
                "C05|unbound-accepted".into(),
                "a use with no binder in scope was accepted".into(),
                key,
            )
            .labelled(labels),
            CompileRes::Panic(pn) => CaseOut::fail(
                format!("C05|panic|{}", pn.signature()),
                format!("panic at {}:{}: {}", pn.file, pn.line, pn.message),
                key,
            )
            .labelled(labels),
            CompileRes::Err(e) => {
                let msgs = goml::diag_messages(e.diagnostics());
                if msgs.iter().all(|m| m.contains("Internal error")) {
                    labels.push("negative:internal-error-only".into());
                }
                CaseOut::pass(nontrivial, key).labelled(labels)
            }
        };
    }
    match res {
        CompileRes::Panic(pn) => CaseOut::fail(
            format!("C05|panic|{}", pn.signature()),
            format!("panic at {}:{}: {}", pn.file, pn.line, pn.message),
            key,
        )
        .labelled(labels),
        CompileRes::Err(e) => {
            let msgs = goml::diag_messages(e.diagnostics());
            if msgs.iter().any(|m| scoping_message(m)) {
                CaseOut::fail(
                    "C05|well-scoped-rejected".into(),
                    format!("a well-scoped program was rejected: {}", msgs.join("; ")),
                    key,
                )
                .labelled(labels)
            } else {
                CaseOut::discard("rejected-for-non-scoping-reason")
            }
        }
        CompileRes::Ok(comp, go_text) => match check_resolution(&comp, marks) {
            Err((sig, detail)) => CaseOut::fail(sig, detail, key).labelled(labels),
            Ok(n) => {
                if n > 0 {
                    labels.push("uses-checked".into());
                }
                // behaviour: every use prints the value of its binder
                if let Some(p) = p {
                    match behave::compare(p, &go_text, "C05") {
                        behave::Verdict::Fail(sig, detail) => {
                            return CaseOut::fail(sig, detail, key).labelled(labels)
                        }
                        behave::Verdict::Agree => labels.push("behaviour-checked".into()),
                        behave::Verdict::Skip(why) => labels.push(format!("behaviour-skip:{why}")),
                    }
                }
                CaseOut::pass(nontrivial, key).labelled(labels)
            }
        },
    }
}

impl Check for C05 {
    fn id(&self) -> &'static str {
        "C05"
    }
    fn phases(&self, tier: Tier) -> Vec<PhaseSpec> {
        vec![
            PhaseSpec {
                name: "skeletons",
                cases: skeleton_count(tier.pick(5, 6) as u32),
                max_bytes: 0,
                exhaustive: true,
            },
            PhaseSpec {
                name: "long-skeletons",
                cases: tier.pick(20_000, 300_000),
                max_bytes: 24,
                exhaustive: false,
            },
            // many bindings in scope at once (20-60 operations, mostly lets), then nested scopes
            PhaseSpec {
                name: "wide-skeletons",
                cases: tier.pick(10_000, 150_000),
                max_bytes: 72,
                exhaustive: false,
            },
            PhaseSpec {
                name: "programs",
                cases: tier.pick(20_000, 300_000),
                max_bytes: 400,
                exhaustive: false,
            },
        ]
    }
    fn make(&self, phase: &str, index: u64, bytes: &[u8], ctx: &mut Ctx) -> Case {
        match phase {
            "skeletons" | "long-skeletons" | "wide-skeletons" => {
                let ops = if phase == "skeletons" {
                    skeleton_ops(index)
                } else if phase == "wide-skeletons" {
                    let mut d = Dec::new(bytes);
                    let n = 20 + d.below(41);
                    (0..n)
                        .map(|_| {
                            // binds and uses dominate; scopes open more often than they close
                            let k = [0u64, 1, 0, 1, 2, 3, 0, 1, 4, 5, 6, 7, 2, 3, 8, 9][d.below(16)];
                            op_of(k)
                        })
                        .collect()
                } else {
                    let mut d = Dec::new(bytes);
                    let n = 6 + d.below(10);
                    (0..n).map(|_| op_of(d.below(NOPS as usize) as u64)).collect()
                };
                let sk = build_skeleton(&ops);
                let (text, marks) = render_with_marks(&sk.prog);
                let input = json!({"text": text, "negative": sk.negative, "nontrivial": sk.nontrivial,
                    "skeleton": sk.desc, "marks": marks_json(&marks)});
                Case::with(input, sk.prog)
            }
            _ => {
                let mut d = Dec::new(bytes);
                let mut cfg = GenCfg::full(if ctx.tier == Tier::Quick { 50 } else { 120 });
                cfg.focus = Focus::Scopes;
                cfg.fails = false;
                cfg.wide_ints = false;
                cfg.generics = false;
                let p = gen_program(&mut d, cfg, ctx);
                let (text, marks) = render_with_marks(&p);
                let nt = p.labels.contains("shadow");
                let input = json!({"text": text, "negative": false, "nontrivial": nt, "marks": marks_json(&marks)});
                Case::with(input, p)
            }
        }
    }
    fn judge(&self, _phase: &str, case: &Case, ctx: &mut Ctx) -> CaseOut {
        let text = case.input["text"].as_str().unwrap_or("");
        let marks = marks_from_json(&case.input["marks"]);
        judge_program(
            case.extra::<GProg>(),
            text,
            &marks,
            case.input["negative"].as_bool().unwrap_or(false),
            case.input["nontrivial"].as_bool().unwrap_or(false),
            ctx,
        )
    }
    fn rule(&self) -> String {
        "skeletons: EVERY sequence of <= L operations (L=5 quick, 6 thorough) from {let a, let b, use a, use b, open if-block, open match arm binding a, open closure with parameter a, open while body, open curried closure |a| |a| { .. }, close} turned into a program (each binder holds a distinct value, each use prints); long-skeletons: random sequences of 6..15 operations; wide-skeletons: random sequences of 20..60 operations, mostly lets and uses (many bindings visible at once); programs: type-directed random programs drawn with a 3-name pool so nearly every binder shadows. Oracle: (1) a well-scoped program is not rejected with a scoping diagnostic, a use with no binder in scope is rejected; (2) in the compiler's HIR every use of a generated variable resolves to NameRef::Local of exactly the binder the generator intended (binders located by their text range), distinct binders have distinct ids; (3) the compiled program prints the value of the intended binder at every use (reference interpreter vs Go-subset interpreter). Non-trivial = some use resolves to a binder that is not the textually most recent binder of that name (a leak would change the answer), or (programs) the program shadows a name (top-level functions may be spelled like the locals a/b/c, so that a local closure shadows a function in call position); distinct by hash of the text.".into()
    }
    fn assumptions(&self) -> Vec<String> {
        vec![
            "Compilation.hir_table is produced by the same resolver the typer uses".into(),
            "binder and use positions are matched through SyntaxNodePtr text ranges".into(),
            "behavioural part relies on the miniGo interpreter (see C01)".into(),
        ]
    }
    fn required_labels(&self, _tier: Tier) -> Vec<&'static str> {
        vec!["negative", "uses-checked", "stage:ok"]
    }
    fn max_discard_fraction(&self) -> f64 {
        0.1
    }
}

fn marks_json(marks: &[Mark]) -> Value {
    Value::Array(
        marks
            .iter()
            .map(|m| json!([m.start, m.end, m.var, m.binder]))
            .collect(),
    )
}

fn marks_from_json(v: &Value) -> Vec<Mark> {
    v.as_array()
        .map(|a| {
            a.iter()
                .map(|m| Mark {
                    start: m[0].as_u64().unwrap_or(0) as usize,
                    end: m[1].as_u64().unwrap_or(0) as usize,
                    var: m[2].as_u64().unwrap_or(0) as VarId,
                    binder: m[3].as_bool().unwrap_or(false),
                })
                .collect()
        })
        .unwrap_or_default()
}
