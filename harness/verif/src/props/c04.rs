//! C04 — the compiler never crashes or hangs: any input gives a result or
//! diagnostics, and diagnostic positions lie inside the text.

use crate::corpus;
use crate::driver::*;
use crate::goml::{self, CompileRes};
use crate::jsonmut;
use crate::sandbox;
use crate::sep;
use crate::textgen;
use crate::util::*;
use compiler::pipeline::pipeline::CompilationError;
use diagnostics::Severity;
use serde_json::{json, Value};
use std::sync::OnceLock;

pub struct C04;

/// Shared oracle on the result of one compile of a single text.
/// Ok(stage) or Err((signature, detail)).
pub fn judge_compile(res: &CompileRes, text: Option<&str>) -> Result<&'static str, (String, String)> {
    match res {
        CompileRes::Panic(p) => Err((
            format!("C04|panic|{}", p.signature()),
            format!("panic at {}:{}: {}", p.file, p.line, p.message),
        )),
        CompileRes::Ok(..) => Ok("ok"),
        CompileRes::Err(e) => {
            let stage = goml::error_stage(e);
            let d = e.diagnostics();
            if !d.iter().any(|x| x.severity() == Severity::Error) {
                return Err((
                    format!("C04|err-without-error-diagnostic|{stage}"),
                    format!("compile returned Err({stage}) with diagnostics {:?}", goml::diag_messages(d)),
                ));
            }
            if let Some(text) = text {
                let n = text.len();
                for x in d.iter() {
                    if let Some(r) = x.range() {
                        let (s, e2): (usize, usize) = (r.start().into(), r.end().into());
                        if e2 > n || s > e2 || !text.is_char_boundary(s) || !text.is_char_boundary(e2) {
                            return Err((
                                format!("C04|diag-range|{stage}"),
                                format!(
                                    "diagnostic {:?} has range {s}..{e2}; text has {n} bytes",
                                    x.message()
                                ),
                            ));
                        }
                    }
                }
                // the CLI formats them with a line index over the text
                let fr = sandbox::guarded(|| match e {
                    CompilationError::Parser { diagnostics } => {
                        parser::format_parser_diagnostics(diagnostics, text).len()
                    }
                    CompilationError::Lower { diagnostics } => diagnostics.len(),
                    CompilationError::Typer { diagnostics } => {
                        compiler::env::format_typer_diagnostics(diagnostics).len()
                    }
                    CompilationError::Compile { diagnostics } => {
                        compiler::env::format_compile_diagnostics(diagnostics, text).len()
                    }
                });
                if let Err(p) = fr {
                    return Err((
                        format!("C04|panic-in-report|{}", p.signature()),
                        format!("formatting diagnostics panicked: {}", p.message),
                    ));
                }
            }
            Ok(stage)
        }
    }
}

// ------------------------------------------------------------------ nesting

const NEST_FORMS: &[(&str, &str, &str)] = &[
    ("(", "1", ")"),
    ("{ ", "1", " }"),
    ("[", "1", "]"),
    ("(", "1", ", 2)"),
    ("-", "1", ""),
    ("!", "true", ""),
    ("if true { ", "1", " } else { 2 }"),
    ("match 1 { _ => ", "1", " }"),
    ("|| ", "1", ""),
    ("f(", "1", ")"),
    ("1 + ", "1", ""),
    ("", "1", " + 1"),
    ("", "x", ".f"),
    ("", "x", ".0"),
    ("", "f", "(1)"),
    ("S { a: ", "1", " }"),
    ("Some(", "1", ")"),
    ("while true { ", "()", " }"),
    ("{ let x = ", "1", "; x }"),
    ("true && ", "true", ""),
];

const TYPE_FORMS: &[(&str, &str, &str)] = &[
    ("Vec[", "int32", "]"),
    ("Ref[", "int32", "]"),
    ("(", "int32", ", bool)"),
    ("[", "int32", "; 2]"),
    ("(", "int32", ") -> int32"),
    ("() -> ", "int32", ""),
    ("Option[", "int32", "]"),
];

const PAT_FORMS: &[(&str, &str, &str)] = &[
    ("(", "_", ", _)"),
    ("Some(", "_", ")"),
    ("S { a: ", "_", " }"),
    ("(", "x", ")"),
];

fn nested(d: &mut Dec) -> String {
    let depth = 1 + d.below(256);
    let kind = d.below(4);
    let mixed = d.bool();
    let forms: &[(&str, &str, &str)] = match kind {
        0 | 1 => NEST_FORMS,
        2 => TYPE_FORMS,
        _ => PAT_FORMS,
    };
    let first = d.below(forms.len());
    let mut pre = String::new();
    let mut post: Vec<&str> = vec![];
    let mut core = forms[first].1;
    for _ in 0..depth {
        let f = if mixed { forms[d.below(forms.len())] } else { forms[first] };
        pre.push_str(f.0);
        post.push(f.2);
        core = f.1;
    }
    let mut e = pre;
    e.push_str(core);
    for p in post.iter().rev() {
        e.push_str(p);
    }
    let prelude = "struct S { a: int32 }\nenum Option[T] { Some(T), None }\nfn f(x: int32) -> int32 { x }\n";
    match kind {
        0 | 1 => format!("{prelude}fn main() {{ let x = 1; let _ = {e}; () }}\n"),
        2 => format!("{prelude}fn g(v: {e}) -> unit {{ () }}\nfn main() {{ () }}\n"),
        _ => format!("{prelude}fn main() {{ let v = 1; match v {{ {e} => (), _ => () }} }}\n"),
    }
}

// ---------------------------------------------------------------- artifacts

pub struct BuiltProject {
    pub name: String,
    pub order: Vec<String>,
    /// (package, interface json, core json)
    pub units: Vec<(String, String, String)>,
    pub files: Vec<(String, String)>,
}

/// Every corpus project built separately once per process (inputs for the
/// artifact mutations).
pub fn built_projects() -> &'static Vec<BuiltProject> {
    static B: OnceLock<Vec<BuiltProject>> = OnceLock::new();
    B.get_or_init(|| {
        let scratch = sandbox::Scratch::new("built");
        let mut out = vec![];
        for p in corpus::project_cases() {
            let dir = scratch.root.join(&p.name);
            let _ = std::fs::create_dir_all(&dir);
            sandbox::materialise(&dir, &p.files);
            let art = scratch.root.join(format!("{}-art", p.name));
            let Ok(d) = sep::discover(&dir) else { continue };
            if sep::build_all(&d, &d.order, &art).is_err() {
                continue;
            }
            let mut units = vec![];
            for pkg in &d.order {
                let i = std::fs::read_to_string(art.join(format!("{pkg}.interface"))).unwrap_or_default();
                let c = std::fs::read_to_string(art.join(format!("{pkg}.core"))).unwrap_or_default();
                units.push((pkg.clone(), i, c));
            }
            out.push(BuiltProject {
                name: p.name.clone(),
                order: d.order.clone(),
                units,
                files: p.files.clone(),
            });
        }
        out
    })
}

fn make_artifact_case(d: &mut Dec, ctx: &mut Ctx) -> Value {
    let bp = built_projects();
    if bp.is_empty() {
        return json!({"kind":"artifact","project":"","error":"no corpus project could be built"});
    }
    let pi = d.below(bp.len());
    let p = &bp[pi];
    let ui = d.below(p.units.len());
    let which_core = d.bool();
    let text = if which_core { &p.units[ui].2 } else { &p.units[ui].1 };
    let mut mode = d.below(5);
    // KF-35: core_ir is not integrity-protected; while that finding is open the
    // body of a .core file is only mutated outside core_ir
    let protect_core_ir = which_core && ctx.gated("artifact:core-ir");
    if protect_core_ir && mode == 0 {
        mode = 1;
    }
    let (mutated, desc) = if mode == 0 {
        // raw text mutation
        let mut s = text.clone();
        let n = 1 + d.below(3);
        let mut descs = vec![];
        for _ in 0..n {
            if s.is_empty() {
                break;
            }
            let mut a = d.below(s.len());
            while !s.is_char_boundary(a) {
                a -= 1;
            }
            let mut b = (a + d.below(12)).min(s.len());
            while !s.is_char_boundary(b) {
                b -= 1;
            }
            match d.below(4) {
                0 => {
                    s.truncate(a);
                    descs.push(format!("truncate at {a}"));
                }
                1 => {
                    s.replace_range(a..b, "");
                    descs.push(format!("delete {a}..{b}"));
                }
                2 => {
                    let ins = d.pick(&["0", "\"", "{", "}", "[", "]", ",", "null", "-1", "99999999999999999999", "\\u0000", "true"]);
                    s.insert_str(a, ins);
                    descs.push(format!("insert {ins:?} at {a}"));
                }
                _ => {
                    let piece = s[a..b].to_string();
                    s.insert_str(a, &piece);
                    descs.push(format!("duplicate {a}..{b}"));
                }
            }
        }
        (s, descs.join("; "))
    } else if mode == 4 {
        // names: a package name (the `package` field, a key of a `deps` table) becomes a long name
        // with a multi-byte character at byte 56..72: whoever quotes or shortens names must cope
        match serde_json::from_str::<Value>(text) {
            Ok(mut v) => {
                let n = 56 + d.below(17);
                let wide: &str = d.pick(&["é", "✓", "𝄞"]);
                let long = format!("{}{}{}", "P".repeat(n), wide, "q");
                let ps = jsonmut::paths(&v);
                let pkg_fields: Vec<Vec<jsonmut::Step>> =
                    ps.iter().filter(|p| matches!(p.last(), Some(jsonmut::Step::Key(k)) if k == "package")).cloned().collect();
                let dep_tables: Vec<Vec<jsonmut::Step>> =
                    ps.iter().filter(|p| matches!(p.last(), Some(jsonmut::Step::Key(k)) if k == "deps")).cloned().collect();
                let mut desc = String::from("names: nothing to rename");
                if !dep_tables.is_empty() && (pkg_fields.is_empty() || d.bool()) {
                    let pth = dep_tables[d.below(dep_tables.len())].clone();
                    if let Some(Value::Object(m)) = jsonmut::get_mut(&mut v, &pth) {
                        if let Some(k) = m.keys().next().cloned() {
                            if let Some(val) = m.remove(&k) {
                                m.insert(long.clone(), val);
                                desc = format!("{}: key {k:?} -> long name ({n} bytes + {wide})", jsonmut::path_string(&pth));
                            }
                        } else {
                            m.insert(long.clone(), Value::String("0".repeat(16)));
                            desc = format!("{}: new key long name ({n} bytes + {wide})", jsonmut::path_string(&pth));
                        }
                    }
                } else if !pkg_fields.is_empty() {
                    let pth = pkg_fields[d.below(pkg_fields.len())].clone();
                    if let Some(slot) = jsonmut::get_mut(&mut v, &pth) {
                        *slot = Value::String(long.clone());
                        desc = format!("{}: long name ({n} bytes + {wide})", jsonmut::path_string(&pth));
                    }
                }
                (serde_json::to_string_pretty(&v).unwrap_or_default(), desc)
            }
            Err(_) => (text.clone(), "unparsed".into()),
        }
    } else {
        match serde_json::from_str::<Value>(text) {
            Ok(mut v) => {
                let mut ps = jsonmut::paths(&v);
                if protect_core_ir {
                    ps.retain(|p| !matches!(p.first(), Some(jsonmut::Step::Key(k)) if k == "core_ir"));
                }
                let pth = ps[d.below(ps.len())].clone();
                let desc = jsonmut::mutate_at(&mut v, &pth, d);
                (
                    serde_json::to_string_pretty(&v).unwrap_or_default(),
                    format!("{}: {}", jsonmut::path_string(&pth), desc),
                )
            }
            Err(_) => (text.clone(), "unparsed".into()),
        }
    };
    json!({"kind":"artifact","project":p.name,"package":p.units[ui].0,"which":if which_core {"core"} else {"interface"},
           "mutation":desc,"mutated":mutated})
}

fn judge_artifact(case: &Value, ctx: &mut Ctx) -> CaseOut {
    let bp = built_projects();
    let Some(p) = bp.iter().find(|p| Some(p.name.as_str()) == case["project"].as_str()) else {
        return CaseOut::discard("no-built-project");
    };
    let pkg = case["package"].as_str().unwrap_or("");
    let which = case["which"].as_str().unwrap_or("core");
    let mutated = case["mutated"].as_str().unwrap_or("");
    let key = fnv_str(mutated) ^ fnv_str(&p.name);
    let dir = ctx.scratch.fresh_dir();
    let art = dir.join("art");
    let _ = std::fs::create_dir_all(&art);
    for (name, i, c) in &p.units {
        let (i, c) = if name == pkg {
            if which == "core" {
                (i.as_str(), mutated)
            } else {
                (mutated, c.as_str())
            }
        } else {
            (i.as_str(), c.as_str())
        };
        let _ = std::fs::write(art.join(format!("{name}.interface")), i);
        let _ = std::fs::write(art.join(format!("{name}.core")), c);
    }
    let mut labels = vec![format!("artifact:{which}")];
    let mut fail: Option<(String, String)> = None;
    let mut check_err = |at: &str, e: &sep::SepErr| -> Option<(String, String)> {
        match e {
            sep::SepErr::Panic(_, p) => Some((
                format!("C04|panic|{}", p.signature()),
                format!("{at}: panic at {}:{}: {}", p.file, p.line, p.message),
            )),
            sep::SepErr::Compile(_, ce) => {
                if !ce.diagnostics().iter().any(|x| x.severity() == Severity::Error) {
                    Some((format!("C04|err-without-error-diagnostic|{at}"), e.describe()))
                } else {
                    None
                }
            }
            sep::SepErr::Io(_) => None,
        }
    };
    if which == "core" {
        // goml link: read every core, then link
        match sep::link_dir(&art, &p.order) {
            Ok(_) => labels.push("artifact:accepted".into()),
            Err(e) => {
                labels.push("artifact:rejected".into());
                fail = check_err("link", &e);
            }
        }
    } else {
        // goml check / build of every package that imports the mutated interface
        sandbox::materialise(&dir.join("src"), &p.files);
        if let Ok(d) = sep::discover(&dir.join("src")) {
            for (dep_pkg, imports) in &d.imports {
                if !imports.iter().any(|i| i == pkg) {
                    continue;
                }
                let pdir = d.dirs.iter().find(|(n, _)| n == dep_pkg).map(|(_, d)| d.clone()).unwrap();
                match sep::check_one(dep_pkg, &pdir, &art) {
                    Ok(_) => labels.push("artifact:accepted".into()),
                    Err(e) => {
                        labels.push("artifact:rejected".into());
                        if fail.is_none() {
                            fail = check_err("check", &e);
                        }
                    }
                }
                if let Err(e) = sep::build_one(dep_pkg, &pdir, &art) {
                    if fail.is_none() {
                        fail = check_err("build", &e);
                    }
                }
            }
        }
    }
    ctx.scratch.remove(&dir);
    match fail {
        Some((sig, detail)) => CaseOut::fail(sig, detail, key).labelled(labels),
        None => CaseOut::pass(true, key).labelled(labels),
    }
}

// ------------------------------------------------------------------ layouts

const LAYOUT_OPS: &[&str] = &[
    "nonutf8", "empty", "delete", "dir-named-gom", "dangling-symlink", "symlink-loop", "file-for-dir", "nested-package",
    "stray-files", "case-twin", "bom", "crlf", "no-newline", "main-missing", "main-is-dir", "dup-file",
];

fn make_layout_case(d: &mut Dec, ctx: &mut Ctx) -> Value {
    // the operations first: the project may use up the choice bytes
    let n = 1 + d.below(3);
    let picks: Vec<(usize, usize)> = (0..n).map(|_| (d.below(LAYOUT_OPS.len()), d.below(64))).collect();
    let files: Vec<(String, String)> = if d.chance(60) && !corpus::project_cases().is_empty() {
        corpus::project_cases()[d.below(corpus::project_cases().len())].files.clone()
    } else {
        crate::projgen::gen_project(d, ctx).render()
    };
    let mut ops = vec![];
    for (o, f) in picks {
        let (path, _) = &files[f % files.len()];
        ops.push(json!({"op": LAYOUT_OPS[o], "path": path}));
    }
    json!({"kind": "layout", "files": goml::files_to_json(&files), "ops": ops})
}

fn apply_layout_op(root: &std::path::Path, op: &str, rel: &str) {
    use std::fs;
    let file = root.join(rel);
    let dir = file.parent().map(|p| p.to_path_buf()).unwrap_or_else(|| root.to_path_buf());
    match op {
        "nonutf8" => {
            let mut b = fs::read(&file).unwrap_or_default();
            let at = b.len() / 2;
            b.splice(at..at, [0xffu8, 0xfe, 0x80]);
            let _ = fs::write(&file, b);
        }
        "empty" => {
            let _ = fs::write(&file, "");
        }
        "delete" => {
            let _ = fs::remove_file(&file);
        }
        "dir-named-gom" => {
            let _ = fs::create_dir_all(dir.join("zz.gom"));
        }
        "dangling-symlink" => {
            let _ = std::os::unix::fs::symlink("/nonexistent-verif-target", dir.join("dangling.gom"));
        }
        "symlink-loop" => {
            let _ = std::os::unix::fs::symlink(".", dir.join("Loop"));
        }
        "file-for-dir" => {
            if dir != root {
                let _ = fs::remove_dir_all(&dir);
                let _ = fs::write(&dir, "package Main\n");
            }
        }
        "nested-package" => {
            let _ = fs::create_dir_all(dir.join("Inner"));
            let _ = fs::write(dir.join("Inner").join("lib.gom"), "package Inner\n\nfn f() -> int32 { 1 }\n");
        }
        "stray-files" => {
            let _ = fs::write(dir.join("notes.txt"), "not goml");
            let _ = fs::write(dir.join(".hidden.gom"), "fn (");
            let _ = fs::write(dir.join("x.GOM"), "package Other\n");
        }
        "case-twin" => {
            if let Some(name) = dir.file_name().and_then(|n| n.to_str()) {
                if dir != root {
                    let twin = root.join(name.to_lowercase());
                    let _ = fs::create_dir_all(&twin);
                    let _ = fs::write(twin.join("lib.gom"), format!("package {name}\n\nfn twin() -> int32 {{ 2 }}\n"));
                }
            }
        }
        "bom" => {
            let t = fs::read_to_string(&file).unwrap_or_default();
            let _ = fs::write(&file, format!("{}{t}", '\u{feff}'));
        }
        "crlf" => {
            let t = fs::read_to_string(&file).unwrap_or_default();
            let _ = fs::write(&file, t.replace('\n', "\r\n"));
        }
        "no-newline" => {
            let t = fs::read_to_string(&file).unwrap_or_default();
            let _ = fs::write(&file, t.trim_end());
        }
        "main-missing" => {
            let _ = fs::remove_file(root.join("main.gom"));
        }
        "main-is-dir" => {
            let _ = fs::remove_file(root.join("main.gom"));
            let _ = fs::create_dir_all(root.join("main.gom"));
        }
        _ => {
            // the same file under a second name in the same package directory
            let _ = fs::copy(&file, dir.join("copy_of.gom"));
        }
    }
}

fn judge_layout(input: &Value, ctx: &mut Ctx) -> CaseOut {
    let files = goml::files_from_json(&input["files"]);
    let key = fnv_str(&input.to_string());
    let root = ctx.scratch.fresh_dir();
    sandbox::materialise(&root, &files);
    let mut labels = vec![];
    for op in input["ops"].as_array().cloned().unwrap_or_default() {
        let name = op["op"].as_str().unwrap_or("");
        apply_layout_op(&root, name, op["path"].as_str().unwrap_or("main.gom"));
        labels.push(format!("layout:{name}"));
    }
    let main = root.join("main.gom");
    let src = std::fs::read_to_string(&main).unwrap_or_default();
    let out = (|| -> Result<(), (String, String)> {
        let res = goml::compile_at(main.clone(), &src);
        labels.push(format!("whole:{}", res.stage()));
        judge_compile(&res, None)?;
        // the separate pipeline over whatever goml itself discovers
        let art = root.join("artifacts-out");
        let _ = std::fs::create_dir_all(&art);
        let d = match sep::discover(&root) {
            Ok(d) => d,
            Err(e) if e.is_panic() => return Err(crate::projgen::sep_sig("C04", "", &e)),
            Err(_) => {
                labels.push("separate:discover-err".into());
                return Ok(());
            }
        };
        for pkg in &d.order {
            let Some((_, pdir)) = d.dirs.iter().find(|(p, _)| p == pkg) else { continue };
            match sep::check_one(pkg, pdir, &art) {
                Err(e) if e.is_panic() => return Err(crate::projgen::sep_sig("C04", "", &e)),
                _ => {}
            }
            match sep::build_one(pkg, pdir, &art) {
                Ok(u) => {
                    let _ = sep::write_unit(&art, &u);
                }
                Err(e) if e.is_panic() => return Err(crate::projgen::sep_sig("C04", "", &e)),
                Err(_) => {
                    labels.push("separate:build-err".into());
                    return Ok(());
                }
            }
        }
        match sep::link_dir(&art, &d.order) {
            Err(e) if e.is_panic() => Err(crate::projgen::sep_sig("C04", "", &e)),
            Err(_) => {
                labels.push("separate:link-err".into());
                Ok(())
            }
            Ok(_) => {
                labels.push("separate:linked".into());
                Ok(())
            }
        }
    })();
    ctx.scratch.remove(&root);
    match out {
        Ok(()) => CaseOut::pass(true, key).labelled(labels),
        Err((sig, detail)) => CaseOut::fail(sig, format!("{detail}\nops: {}", input["ops"]), key).labelled(labels),
    }
}

impl Check for C04 {
    fn id(&self) -> &'static str {
        "C04"
    }
    fn phases(&self, tier: Tier) -> Vec<PhaseSpec> {
        vec![
            PhaseSpec { name: "unicode", cases: tier.pick(40_000, 800_000), max_bytes: 120, exhaustive: false },
            PhaseSpec { name: "tokens", cases: tier.pick(80_000, 1_600_000), max_bytes: 160, exhaustive: false },
            PhaseSpec { name: "mutate", cases: tier.pick(60_000, 1_200_000), max_bytes: 64, exhaustive: false },
            PhaseSpec { name: "nesting", cases: tier.pick(3_000, 60_000), max_bytes: 300, exhaustive: false },
            // unclosed nestings of every depth followed by another item (quick: every 5th case)
            PhaseSpec { name: "unwind", cases: crate::textgen::unwind_count() / tier.pick(5, 1), max_bytes: 0, exhaustive: true },
            PhaseSpec { name: "mlstring", cases: crate::textgen::mlstring_count(), max_bytes: 0, exhaustive: true },
            PhaseSpec { name: "repeat", cases: crate::textgen::repeat_count() / tier.pick(3, 1), max_bytes: 0, exhaustive: true },
            PhaseSpec { name: "artifacts", cases: tier.pick(4_000, 80_000), max_bytes: 48, exhaustive: false },
            // package directories as a file system can present them (odd entries, unreadable text)
            PhaseSpec { name: "layouts", cases: tier.pick(4_000, 60_000), max_bytes: 1500, exhaustive: false },
            PhaseSpec { name: "cli", cases: tier.pick(1_200, 20_000), max_bytes: 1500, exhaustive: false },
            PhaseSpec { name: "prog", cases: tier.pick(40_000, 600_000), max_bytes: 500, exhaustive: false },
            PhaseSpec { name: "illprog", cases: tier.pick(20_000, 300_000), max_bytes: 420, exhaustive: false },
            // hand-written programs with shapes the generator does not build (self-referential generic types)
            PhaseSpec { name: "directed", cases: crate::props::prog::DIRECTED.len() as u64, max_bytes: 0, exhaustive: true },
            // programs with `go` (closure literals and plain functions as the spawned value)
            PhaseSpec { name: "goprog", cases: tier.pick(3_000, 40_000), max_bytes: 80, exhaustive: false },
        ]
    }
    fn make(&self, phase: &str, index: u64, bytes: &[u8], ctx: &mut Ctx) -> Case {
        let mut d = Dec::new(bytes);
        match phase {
            "unicode" => Case::new(json!({"text": textgen::unicode_soup(&mut d)})),
            "tokens" => Case::new(json!({"text": textgen::token_soup(&mut d)})),
            "mutate" => Case::new(json!({"text": textgen::mutate_corpus(&mut d, corpus::sources())})),
            "nesting" => Case::new(json!({"text": nested(&mut d)})),
            "mlstring" => Case::new(json!({"text": crate::textgen::mlstring_text(index)})),
            "unwind" => Case::new(json!({"text": crate::textgen::unwind_text(if ctx.tier == Tier::Thorough { index } else { index * 5 + ctx.seed % 5 })})),
            "prog" | "illprog" => {
                // every shape, including the ones other checks exclude because of open findings
                let mut open = crate::gen::build::NoGates;
                let mut cfg = crate::gen::build::GenCfg::full(if index % 7 == 0 { 150 } else { 50 });
                cfg.hostile_names = index % 3 == 0;
                cfg.focus = [
                    crate::gen::build::Focus::None,
                    crate::gen::build::Focus::Generics,
                    crate::gen::build::Focus::Closures,
                    crate::gen::build::Focus::Effects,
                    crate::gen::build::Focus::Scopes,
                    crate::gen::build::Focus::Traits,
                ][(index % 6) as usize];
                cfg.traits = index % 2 == 1 || cfg.focus == crate::gen::build::Focus::Traits;
                cfg.discards = index % 3 != 0;
                if phase == "prog" {
                    let p = crate::gen::build::gen_program(&mut d, cfg, &mut open);
                    Case::new(json!({"text": crate::gen::render::render(&p), "prog": true}))
                } else {
                    let split = bytes.len().saturating_sub(24);
                    let (pb, mb) = bytes.split_at(split);
                    let mut pd = Dec::new(pb);
                    let p = crate::gen::build::gen_program(&mut pd, cfg, &mut open);
                    let text = crate::props::c03::inject_ill_typed(p, &mut Dec::new(mb));
                    Case::new(json!({"text": text, "prog": true}))
                }
            }
            "repeat" => Case::new(json!({"text": crate::textgen::repeat_text(if ctx.tier == Tier::Thorough { index } else { index * 3 + ctx.seed % 3 })})),
            "directed" => Case::new(json!({"text": crate::props::prog::DIRECTED[index as usize % crate::props::prog::DIRECTED.len()].1, "prog": true})),
            "goprog" => {
                let p = crate::gogen::gen_go_program(&mut d);
                Case::new(json!({"text": crate::gen::render::render(&p), "prog": true}))
            }
            "layouts" => Case::new(make_layout_case(&mut d, ctx)),
            "cli" => Case::new(crate::props::c04cli::make_cli_case(&mut d, ctx, LAYOUT_OPS)),
            _ => Case::new(make_artifact_case(&mut d, ctx)),
        }
    }
    fn judge(&self, phase: &str, case: &Case, ctx: &mut Ctx) -> CaseOut {
        if case.input["kind"].as_str() == Some("artifact") || phase == "artifacts" {
            return judge_artifact(&case.input, ctx);
        }
        if case.input["kind"].as_str() == Some("cli") {
            return crate::props::c04cli::judge_cli(&case.input, ctx, &apply_layout_op);
        }
        if case.input["kind"].as_str() == Some("layout") {
            return judge_layout(&case.input, ctx);
        }
        let text = case.input["text"].as_str().unwrap_or("");
        let key = fnv_str(text);
        let res = goml::compile_single(ctx, text);
        let mut labels = vec![format!("stage:{}", res.stage())];
        match judge_compile(&res, Some(text)) {
            Ok(_) => {
                if phase == "nesting" {
                    labels.push("nesting".into());
                }
                if case.input["prog"].as_bool() == Some(true) {
                    labels.push("prog".into());
                }
                CaseOut::pass(res.reached_typer(), key).labelled(labels)
            }
            Err((sig, detail)) => CaseOut::fail(sig, detail, key).labelled(labels),
        }
    }
    fn rule(&self) -> String {
        "unicode/tokens: random Unicode strings and random goml token sequences; mutate: splice/truncate/duplicate/insert mutations of corpus sources (reach the typer and later stages); prog/illprog: type-directed generated programs with ALL generator gates open (also the shapes other checks exclude because of open findings, hostile identifier pools, every bias) and the same programs with one ill-typed statement injected; nesting: one or mixed syntactic forms (expr, type, pattern) nested 1..256 deep; unwind: 1..300 unclosed nestings x 14 openers x 7 contexts x 13 following items (every 5th in the quick tier); repeat: one fragment (attribute argument, element, parameter, field, variant, arm, statement, operand, import, comment, type parameter ...) repeated 1..600 times inside each of 21 constructs (every 3rd in the quick tier); layouts: corpus and generated projects written to disk and then disturbed by 1-3 file-system operations (non-UTF-8 bytes, empty/deleted/duplicated files, a directory named x.gom, dangling symlink, symlink loop, a file where a package directory should be, nested package directory, stray and hidden files, a lower-case twin directory, BOM, CRLF, missing or directory-valued main.gom) and pushed through compile and discover+check+build+link; artifacts: single-leaf JSON mutations and raw text mutations of the interface/core files of every corpus project, fed to read_core+link_cores (core) or check_package+build_package of each dependent (interface). Oracle: every entry point returns without panic/abort/stack overflow on an 8 MiB stack; Err carries >=1 error diagnostic; for single texts every diagnostic range lies in the text on char boundaries and the CLI's formatters accept them. Non-trivial = the input got past parsing and lowering (stage ok/typer/compile) or is an artifact case; distinct by hash of the text.".into()
    }
    fn assumptions(&self) -> Vec<String> {
        vec![
            "Termination is observed through a per-worker watchdog (no progress for 180 s => inconclusive, exit 2), never as a violation".into(),
            "Stack: the CLI runs compile on the 8 MiB main thread; nesting depth is bounded by 256".into(),
            "In-process calls of pipeline::compile / separate::* stand for the goml binary's subcommands (main.rs only parses arguments and prints)".into(),
        ]
    }
    fn required_labels(&self, _tier: Tier) -> Vec<&'static str> {
        vec!["stage:parser", "stage:typer", "stage:ok", "artifact:rejected", "nesting", "prog"]
    }
}
