//! Reference meaning of a generated goml program: a direct interpreter over
//! the typed model `GProg`, written from the language description only
//! (call-by-value, left-to-right, first-match, lexical closures, shared Ref
//! cells, fixed-width wrap-around arithmetic).

use crate::gen::model::*;
use std::sync::atomic::{AtomicBool, Ordering};
use std::sync::{Arc, Mutex};

#[derive(Clone, Copy, PartialEq, Eq, Debug)]
pub enum FailKind {
    DivZero,
    Index,
    Missing,
}

#[derive(Clone, PartialEq, Eq, Debug)]
pub enum End {
    Normal,
    Failed(FailKind),
}

#[derive(Clone, Debug)]
pub enum Stop {
    Fail(FailKind),
    StepLimit,
    /// the descriptions leave the meaning open: the case is discarded
    Unspecified(String),
    /// the program ended while this activation was paused
    Killed,
}

pub struct VecCell {
    pub items: Vec<Val>,
    pub pushed: AtomicBool,
}

pub struct Clo {
    pub params: Vec<VarId>,
    pub body: Arc<Expr>,
    pub env: Env,
}

#[derive(Clone)]
pub enum Val {
    Unit,
    Bool(bool),
    Int(IK, i128),
    /// (is float32, value): float32 values are kept rounded to single precision
    Float(bool, f64),
    Str(Arc<String>),
    Tuple(Arc<Vec<Val>>),
    Array(Arc<Vec<Val>>),
    Vec(Arc<VecCell>),
    Ref(Arc<Mutex<Val>>),
    Struct(usize, Arc<Vec<Val>>),
    Enum(usize, u32, Arc<Vec<Val>>),
    Closure(Arc<Clo>),
    Fn(usize),
    /// a trait object: (trait, the value it was made from)
    Dyn(usize, Arc<Val>),
}

pub struct EnvNode {
    var: VarId,
    val: Val,
    next: Env,
}

pub type Env = Option<Arc<EnvNode>>;

fn bind(env: &Env, var: VarId, val: Val) -> Env {
    Some(Arc::new(EnvNode {
        var,
        val,
        next: env.clone(),
    }))
}

fn lookup(env: &Env, var: VarId) -> Option<Val> {
    let mut cur = env;
    while let Some(n) = cur {
        if n.var == var {
            return Some(n.val.clone());
        }
        cur = &n.next;
    }
    None
}

pub struct RunResult {
    pub stdout: Vec<u8>,
    /// Ok(end) or the reason the run has no defined meaning / was cut
    pub end: Result<End, String>,
    pub steps: u64,
    pub ticks: u32,
}

/// scheduler interface for programs with `go` (the harness owns the schedule)
pub trait Sched: Sync {
    /// called by the running activation immediately before a visible action
    fn visible(&self, me: usize) -> Result<(), Stop>;
    /// create a new activation running the zero-argument function value
    fn spawn(&self, me: usize, f: Val) -> Result<(), Stop>;
    fn print(&self, bytes: &[u8]);
}

pub struct Interp<'a> {
    pub p: &'a GProg,
    pub sched: Option<(&'a dyn Sched, usize)>,
    pub out: Vec<u8>,
    pub steps: u64,
    pub max_steps: u64,
    pub depth: u32,
    pub prints: u32,
}

const MAX_DEPTH: u32 = 400;

impl<'a> Interp<'a> {
    pub fn new(p: &'a GProg, max_steps: u64) -> Self {
        Interp {
            p,
            sched: None,
            out: vec![],
            steps: 0,
            max_steps,
            depth: 0,
            prints: 0,
        }
    }

    fn visible(&mut self) -> Result<(), Stop> {
        match self.sched {
            Some((s, me)) => s.visible(me),
            None => Ok(()),
        }
    }

    fn step(&mut self) -> Result<(), Stop> {
        self.steps += 1;
        if self.steps > self.max_steps {
            Err(Stop::StepLimit)
        } else {
            Ok(())
        }
    }

    fn int(&self, v: &Val) -> Result<(IK, i128), Stop> {
        match v {
            Val::Int(k, x) => Ok((*k, *x)),
            _ => Err(Stop::Unspecified("model: int expected".into())),
        }
    }

    fn index(&self, v: &Val) -> Result<i128, Stop> {
        Ok(self.int(v)?.1)
    }

    pub fn pmatch(&self, p: &Pat, v: &Val, env: &Env) -> Option<Env> {
        match (p, v) {
            (Pat::Wild, _) => Some(env.clone()),
            (Pat::Var(x), v) => Some(bind(env, *x, v.clone())),
            (Pat::Unit, Val::Unit) => Some(env.clone()),
            (Pat::Bool(a), Val::Bool(b)) => (a == b).then(|| env.clone()),
            (Pat::Int(_, a), Val::Int(_, b)) => (a == b).then(|| env.clone()),
            (Pat::Str(a), Val::Str(b)) => (a.as_str() == b.as_str()).then(|| env.clone()),
            (Pat::Tuple(ps), Val::Tuple(vs)) => {
                let mut e = env.clone();
                for (q, w) in ps.iter().zip(vs.iter()) {
                    e = self.pmatch(q, w, &e)?;
                }
                Some(e)
            }
            (Pat::Struct(_, fs), Val::Struct(_, vs)) => {
                let mut e = env.clone();
                for (fi, q) in fs {
                    e = self.pmatch(q, vs.get(*fi as usize)?, &e)?;
                }
                Some(e)
            }
            (Pat::Con(_, var, ps, _), Val::Enum(_, v2, vs)) => {
                if var != v2 {
                    return None;
                }
                let mut e = env.clone();
                for (q, w) in ps.iter().zip(vs.iter()) {
                    e = self.pmatch(q, w, &e)?;
                }
                Some(e)
            }
            _ => None,
        }
    }

    fn values_eq(&self, a: &Val, b: &Val) -> Result<bool, Stop> {
        Ok(match (a, b) {
            (Val::Unit, Val::Unit) => true,
            (Val::Bool(x), Val::Bool(y)) => x == y,
            (Val::Int(_, x), Val::Int(_, y)) => x == y,
            (Val::Float(_, x), Val::Float(_, y)) => x == y,
            (Val::Str(x), Val::Str(y)) => x.as_str() == y.as_str(),
            (Val::Ref(x), Val::Ref(y)) => Arc::ptr_eq(x, y),
            (Val::Tuple(x), Val::Tuple(y)) | (Val::Array(x), Val::Array(y)) => {
                let mut r = true;
                for (p, q) in x.iter().zip(y.iter()) {
                    r = r && self.values_eq(p, q)?;
                }
                r
            }
            (Val::Struct(_, x), Val::Struct(_, y)) => {
                let mut r = true;
                for (p, q) in x.iter().zip(y.iter()) {
                    r = r && self.values_eq(p, q)?;
                }
                r
            }
            (Val::Enum(_, v1, x), Val::Enum(_, v2, y)) => {
                if v1 != v2 {
                    false
                } else {
                    let mut r = true;
                    for (p, q) in x.iter().zip(y.iter()) {
                        r = r && self.values_eq(p, q)?;
                    }
                    r
                }
            }
            _ => return Err(Stop::Unspecified("== on closures or vectors".into())),
        })
    }

    /// the impl of trait `t` whose implementing type is the run-time type of `v`
    /// (implementing types are told apart by their outermost shape: at most one impl per
    /// trait and nominal type, integer width, string, bool)
    fn impl_for(&self, t: usize, v: &Val) -> Option<usize> {
        if let Val::Dyn(b, inner) = v {
            // a trait implemented for the trait-object type itself, else the object's own trait: its value decides
            if let Some(i) = self.p.impls.iter().position(|i| i.trait_ == Some(t) && i.for_ty == Ty::Dyn(*b)) {
                return Some(i);
            }
            return if *b == t { self.impl_for(t, inner) } else { None };
        }
        self.p.impls.iter().position(|i| {
            i.trait_ == Some(t)
                && match (&i.for_ty, v) {
                    (Ty::Adt(a, _), Val::Struct(b, _)) | (Ty::Adt(a, _), Val::Enum(b, _, _)) => a == b,
                    (Ty::Int(k), Val::Int(j, _)) => k == j,
                    (Ty::Str, Val::Str(_)) | (Ty::Bool, Val::Bool(_)) | (Ty::Unit, Val::Unit) => true,
                    _ => false,
                }
        })
    }

    pub fn call_fn(&mut self, f: usize, args: Vec<Val>) -> Result<Val, Stop> {
        let p = self.p;
        let def = &p.fns[f];
        let mut env: Env = None;
        for ((v, _), a) in def.params.iter().zip(args.into_iter()) {
            env = bind(&env, *v, a);
        }
        self.depth += 1;
        if self.depth > MAX_DEPTH {
            return Err(Stop::Unspecified("call depth".into()));
        }
        let r = self.eval(&def.body, &env);
        self.depth -= 1;
        r
    }

    pub fn call_val_pub(&mut self, f: Val, args: Vec<Val>) -> Result<Val, Stop> {
        self.call_val(f, args)
    }

    fn call_val(&mut self, f: Val, args: Vec<Val>) -> Result<Val, Stop> {
        match f {
            Val::Fn(id) => self.call_fn(id, args),
            Val::Closure(c) => {
                let mut env = c.env.clone();
                for (v, a) in c.params.iter().zip(args.into_iter()) {
                    env = bind(&env, *v, a);
                }
                self.depth += 1;
                if self.depth > MAX_DEPTH {
                    return Err(Stop::Unspecified("call depth".into()));
                }
                let body = c.body.clone();
                let r = self.eval(&body, &env);
                self.depth -= 1;
                r
            }
            _ => Err(Stop::Unspecified("model: call of a non-function".into())),
        }
    }

    fn builtin(&mut self, b: Builtin, a: Vec<Val>) -> Result<Val, Stop> {
        let bad = || Stop::Unspecified(format!("model: bad arguments to {:?}", b));
        match b {
            Builtin::Println | Builtin::Print => {
                let Some(Val::Str(s)) = a.first() else { return Err(bad()) };
                self.visible()?;
                if let Some((sch, _)) = self.sched {
                    let mut bytes = s.as_bytes().to_vec();
                    if b == Builtin::Println {
                        bytes.push(b'\n');
                    }
                    sch.print(&bytes);
                } else {
                    self.out.extend_from_slice(s.as_bytes());
                    if b == Builtin::Println {
                        self.out.push(b'\n');
                    }
                }
                self.prints += 1;
                if self.out.len() > 1 << 20 {
                    return Err(Stop::StepLimit);
                }
                Ok(Val::Unit)
            }
            Builtin::IntToString(_) => {
                let (_, v) = self.int(a.first().ok_or_else(bad)?)?;
                Ok(Val::Str(Arc::new(v.to_string())))
            }
            Builtin::BoolToString => match a.first() {
                Some(Val::Bool(x)) => Ok(Val::Str(Arc::new(x.to_string()))),
                _ => Err(bad()),
            },
            Builtin::UnitToString => Ok(Val::Str(Arc::new("()".into()))),
            Builtin::StringLen => match a.first() {
                Some(Val::Str(s)) => Ok(Val::Int(IK::I32, s.len() as i128)),
                _ => Err(bad()),
            },
            Builtin::StringGet => {
                let (Some(Val::Str(s)), Some(i)) = (a.first(), a.get(1)) else { return Err(bad()) };
                let i = self.index(i)?;
                if i < 0 || i >= s.len() as i128 {
                    return Err(Stop::Fail(FailKind::Index));
                }
                let byte = s.as_bytes()[i as usize];
                if byte >= 0x80 {
                    return Err(Stop::Unspecified("string_get on a non-ASCII byte".into()));
                }
                Ok(Val::Str(Arc::new((byte as char).to_string())))
            }
            Builtin::ArrayGet => {
                let (Some(Val::Array(xs)), Some(i)) = (a.first(), a.get(1)) else { return Err(bad()) };
                let i = self.index(i)?;
                if i < 0 || i >= xs.len() as i128 {
                    return Err(Stop::Fail(FailKind::Index));
                }
                Ok(xs[i as usize].clone())
            }
            Builtin::ArraySet => {
                let (Some(Val::Array(xs)), Some(i), Some(v)) = (a.first(), a.get(1), a.get(2)) else {
                    return Err(bad());
                };
                let i = self.index(i)?;
                if i < 0 || i >= xs.len() as i128 {
                    return Err(Stop::Fail(FailKind::Index));
                }
                let mut n = (**xs).clone();
                n[i as usize] = v.clone();
                Ok(Val::Array(Arc::new(n)))
            }
            Builtin::RefNew => Ok(Val::Ref(Arc::new(Mutex::new(a.into_iter().next().ok_or_else(bad)?)))),
            Builtin::RefGet => match a.first() {
                Some(Val::Ref(r)) => {
                    self.visible()?;
                    let v = r.lock().unwrap().clone();
                    Ok(v)
                }
                _ => Err(bad()),
            },
            Builtin::RefSet => {
                let (Some(Val::Ref(r)), Some(v)) = (a.first(), a.get(1)) else { return Err(bad()) };
                self.visible()?;
                *r.lock().unwrap() = v.clone();
                Ok(Val::Unit)
            }
            Builtin::VecNew => Ok(Val::Vec(Arc::new(VecCell {
                items: vec![],
                pushed: AtomicBool::new(false),
            }))),
            Builtin::VecPush => {
                let (Some(Val::Vec(c)), Some(v)) = (a.first(), a.get(1)) else { return Err(bad()) };
                if c.pushed.swap(true, Ordering::SeqCst) {
                    return Err(Stop::Unspecified(
                        "a vector value is pushed to twice (capacity-dependent in Go)".into(),
                    ));
                }
                let mut items = c.items.clone();
                items.push(v.clone());
                Ok(Val::Vec(Arc::new(VecCell {
                    items,
                    pushed: AtomicBool::new(false),
                })))
            }
            Builtin::VecGet => {
                let (Some(Val::Vec(c)), Some(i)) = (a.first(), a.get(1)) else { return Err(bad()) };
                let i = self.index(i)?;
                if i < 0 || i >= c.items.len() as i128 {
                    return Err(Stop::Fail(FailKind::Index));
                }
                Ok(c.items[i as usize].clone())
            }
            Builtin::VecLen => match a.first() {
                Some(Val::Vec(c)) => Ok(Val::Int(IK::I32, c.items.len() as i128)),
                _ => Err(bad()),
            },
        }
    }

    pub fn eval(&mut self, e: &Expr, env: &Env) -> Result<Val, Stop> {
        self.step()?;
        match e {
            Expr::Unit => Ok(Val::Unit),
            Expr::Bool(b) => Ok(Val::Bool(*b)),
            Expr::Int(k, v, _) => Ok(Val::Int(*k, *v)),
            Expr::Float(f, v) => Ok(Val::Float(*f, if *f { *v as f32 as f64 } else { *v })),
            Expr::Str(s) => Ok(Val::Str(Arc::new(s.clone()))),
            Expr::Var(v) => lookup(env, *v).ok_or_else(|| Stop::Unspecified(format!("model: unbound v{v}"))),
            Expr::FnRef(f) => Ok(Val::Fn(*f)),
            Expr::Un(op, a) => {
                let v = self.eval(a, env)?;
                match (op, v) {
                    (UnOp::Neg, Val::Int(k, x)) => Ok(Val::Int(k, k.wrap(-x))),
                    (UnOp::Neg, Val::Float(f, x)) => Ok(Val::Float(f, -x)),
                    (UnOp::Not, Val::Bool(b)) => Ok(Val::Bool(!b)),
                    _ => Err(Stop::Unspecified("model: bad unary operand".into())),
                }
            }
            Expr::Bin(op, a, b) => {
                if *op == BinOp::And || *op == BinOp::Or {
                    let l = self.eval(a, env)?;
                    let Val::Bool(l) = l else {
                        return Err(Stop::Unspecified("model: bool expected".into()));
                    };
                    if (*op == BinOp::And && !l) || (*op == BinOp::Or && l) {
                        return Ok(Val::Bool(l));
                    }
                    return self.eval(b, env);
                }
                let l = self.eval(a, env)?;
                let r = self.eval(b, env)?;
                match op {
                    BinOp::Add | BinOp::Sub | BinOp::Mul | BinOp::Div => match (&l, &r) {
                        (Val::Int(k, x), Val::Int(_, y)) => {
                            let v = match op {
                                BinOp::Add => x + y,
                                BinOp::Sub => x - y,
                                // u64 x u64 does not fit i128: the low 64 bits of the wrapped
                                // product are what `wrap` keeps
                                BinOp::Mul => x.wrapping_mul(*y),
                                _ => {
                                    if *y == 0 {
                                        return Err(Stop::Fail(FailKind::DivZero));
                                    }
                                    x / y
                                }
                            };
                            Ok(Val::Int(*k, k.wrap(v)))
                        }
                        (Val::Float(f, x), Val::Float(_, y)) if *op != BinOp::Div => {
                            // IEEE arithmetic at the operands' width, rounded after every operation
                            let v = if *f {
                                let (a, b) = (*x as f32, *y as f32);
                                (match op {
                                    BinOp::Add => a + b,
                                    BinOp::Sub => a - b,
                                    _ => a * b,
                                }) as f64
                            } else {
                                match op {
                                    BinOp::Add => x + y,
                                    BinOp::Sub => x - y,
                                    _ => x * y,
                                }
                            };
                            if !v.is_finite() {
                                return Err(Stop::Unspecified("float overflow".into()));
                            }
                            Ok(Val::Float(*f, v))
                        }
                        (Val::Str(x), Val::Str(y)) if *op == BinOp::Add => {
                            let mut s = String::with_capacity(x.len() + y.len());
                            s.push_str(x);
                            s.push_str(y);
                            Ok(Val::Str(Arc::new(s)))
                        }
                        _ => Err(Stop::Unspecified("model: bad arithmetic operands".into())),
                    },
                    BinOp::Eq => Ok(Val::Bool(self.values_eq(&l, &r)?)),
                    BinOp::Ne => Ok(Val::Bool(!self.values_eq(&l, &r)?)),
                    _ => {
                        let ord = match (&l, &r) {
                            (Val::Int(_, x), Val::Int(_, y)) => x.cmp(y),
                            (Val::Float(_, x), Val::Float(_, y)) => match x.partial_cmp(y) {
                                Some(o) => o,
                                None => return Err(Stop::Unspecified("NaN comparison".into())),
                            },
                            (Val::Str(x), Val::Str(y)) => x.as_bytes().cmp(y.as_bytes()),
                            _ => return Err(Stop::Unspecified("model: bad comparison operands".into())),
                        };
                        use std::cmp::Ordering::*;
                        Ok(Val::Bool(match op {
                            BinOp::Lt => ord == Less,
                            BinOp::Gt => ord == Greater,
                            BinOp::Le => ord != Greater,
                            _ => ord != Less,
                        }))
                    }
                }
            }
            Expr::Tuple(items) => {
                let mut vs = Vec::with_capacity(items.len());
                for i in items {
                    vs.push(self.eval(i, env)?);
                }
                Ok(Val::Tuple(Arc::new(vs)))
            }
            Expr::Proj(a, i) => match self.eval(a, env)? {
                Val::Tuple(vs) => vs
                    .get(*i as usize)
                    .cloned()
                    .ok_or_else(|| Stop::Unspecified("model: proj".into())),
                _ => Err(Stop::Unspecified("model: proj on non-tuple".into())),
            },
            Expr::ArrayLit(items) => {
                let mut vs = Vec::with_capacity(items.len());
                for i in items {
                    vs.push(self.eval(i, env)?);
                }
                Ok(Val::Array(Arc::new(vs)))
            }
            Expr::StructLit(a, fs) => {
                let n = match &self.p.adts[*a].kind {
                    AdtKind::Struct(f) => f.len(),
                    _ => 0,
                };
                let mut vs = vec![Val::Unit; n];
                // field initialisers in the order they are WRITTEN
                for (fi, fe) in fs {
                    let v = self.eval(fe, env)?;
                    if let Some(slot) = vs.get_mut(*fi as usize) {
                        *slot = v;
                    }
                }
                Ok(Val::Struct(*a, Arc::new(vs)))
            }
            Expr::Field(a, _, fi) => match self.eval(a, env)? {
                Val::Struct(_, vs) => vs
                    .get(*fi as usize)
                    .cloned()
                    .ok_or_else(|| Stop::Unspecified("model: field".into())),
                _ => Err(Stop::Unspecified("model: field on non-struct".into())),
            },
            Expr::Con(a, v, args, _) => {
                let mut vs = Vec::with_capacity(args.len());
                for i in args {
                    vs.push(self.eval(i, env)?);
                }
                Ok(Val::Enum(*a, *v, Arc::new(vs)))
            }
            Expr::Call(c, args) => {
                let fv = match c {
                    Callee::Val(f) => Some(self.eval(f, env)?),
                    _ => None,
                };
                let mut vs = Vec::with_capacity(args.len());
                for i in args {
                    vs.push(self.eval(i, env)?);
                }
                match c {
                    Callee::Fn(f, _) | Callee::Method(f, _) => self.call_fn(*f, vs),
                    Callee::Dispatch(t, m, _) => {
                        // the implementation for the receiver's run-time type
                        let im = vs.first().and_then(|r| self.impl_for(*t, r));
                        let f = im.and_then(|i| self.p.impls[i].methods.get(*m).copied());
                        // an impl for a concrete type receives the value the trait object was made from
                        if let (Some(i), Some(Val::Dyn(_, inner))) = (im, vs.first().cloned()) {
                            if !matches!(self.p.impls[i].for_ty, Ty::Dyn(_)) {
                                vs[0] = (*inner).clone();
                            }
                        }
                        match f {
                            Some(f) => self.call_fn(f, vs),
                            None => Err(Stop::Unspecified("model: no implementation for the receiver".into())),
                        }
                    }
                    Callee::Builtin(b) => self.builtin(*b, vs),
                    Callee::Val(_) => self.call_val(fv.unwrap(), vs),
                }
            }
            Expr::Closure(params, body) => Ok(Val::Closure(Arc::new(Clo {
                params: params.iter().map(|(v, _)| *v).collect(),
                body: Arc::new((**body).clone()),
                env: env.clone(),
            }))),
            Expr::If(c, t, f) => match self.eval(c, env)? {
                Val::Bool(true) => self.eval(t, env),
                Val::Bool(false) => self.eval(f, env),
                _ => Err(Stop::Unspecified("model: if on non-bool".into())),
            },
            Expr::Match(s, arms) => {
                let v = self.eval(s, env)?;
                for (p, b) in arms {
                    if let Some(e2) = self.pmatch(p, &v, env) {
                        return self.eval(b, &e2);
                    }
                }
                Err(Stop::Fail(FailKind::Missing))
            }
            Expr::While(c, b) => {
                loop {
                    match self.eval(c, env)? {
                        Val::Bool(true) => {
                            self.eval(b, env)?;
                        }
                        Val::Bool(false) => break,
                        _ => return Err(Stop::Unspecified("model: while on non-bool".into())),
                    }
                }
                Ok(Val::Unit)
            }
            Expr::Block(stmts, fin) => {
                let mut env2 = env.clone();
                for s in stmts {
                    match s {
                        Stmt::Let(p, _, e) => {
                            let v = self.eval(e, &env2)?;
                            match self.pmatch(p, &v, &env2) {
                                Some(e3) => env2 = e3,
                                None => return Err(Stop::Fail(FailKind::Missing)),
                            }
                        }
                        Stmt::Expr(e, _) => {
                            self.eval(e, &env2)?;
                        }
                        Stmt::Raw(_) => return Err(Stop::Unspecified("raw statement".into())),
                    }
                }
                match fin {
                    Some(f) => self.eval(f, &env2),
                    None => Ok(Val::Unit),
                }
            }
            Expr::Coerce(tr, inner) => {
                let v = self.eval(inner, env)?;
                Ok(Val::Dyn(*tr, Arc::new(v)))
            }
            Expr::Go(c) => {
                let f = self.eval(c, env)?;
                match self.sched {
                    Some((s, me)) => {
                        s.visible(me)?;
                        s.spawn(me, f)?;
                        Ok(Val::Unit)
                    }
                    None => Err(Stop::Unspecified("go without a scheduler".into())),
                }
            }
        }
    }
}

pub fn run(p: &GProg, max_steps: u64) -> RunResult {
    let mut it = Interp::new(p, max_steps);
    let r = it.call_fn(p.main, vec![]);
    let end = match r {
        Ok(_) => Ok(End::Normal),
        Err(Stop::Fail(k)) => Ok(End::Failed(k)),
        Err(Stop::StepLimit) => Err("step-limit".to_string()),
        Err(Stop::Unspecified(m)) => Err(m),
        Err(Stop::Killed) => Err("killed".to_string()),
    };
    RunResult {
        stdout: it.out,
        end,
        steps: it.steps,
        ticks: it.prints,
    }
}

// ---------------------------------------------------------------------------
// programs with `go`: deterministic scheduling owned by the harness

pub struct SchedRun {
    pub stdout: Vec<u8>,
    pub end: Result<End, String>,
    /// number of live activations at every choice point that consumed a byte
    pub choice_points: Vec<u8>,
    pub spawned: u32,
}

struct SState {
    current: usize,
    live: Vec<usize>,
    next_id: usize,
    sched: Vec<u8>,
    pos: usize,
    choice_points: Vec<u8>,
    out: Vec<u8>,
    done: Option<Result<End, String>>,
    spawned: u32,
}

struct Scheduler<'a, 'scope, 'env> {
    st: Mutex<SState>,
    cv: std::sync::Condvar,
    p: &'a GProg,
    max_steps: u64,
    scope: &'scope std::thread::Scope<'scope, 'env>,
}

impl SState {
    fn pick(&mut self, l: &[usize]) -> usize {
        if l.len() >= 2 {
            let b = self.sched.get(self.pos).copied().unwrap_or(0);
            self.pos += 1;
            self.choice_points.push(l.len().min(255) as u8);
            l[b as usize % l.len()]
        } else {
            l[0]
        }
    }
}

impl<'a: 'scope, 'scope, 'env> Scheduler<'a, 'scope, 'env> {
    fn wait_turn(&self, me: usize) -> Result<(), Stop> {
        let mut g = self.st.lock().unwrap();
        while g.current != me && g.done.is_none() {
            g = self.cv.wait(g).unwrap();
        }
        if g.done.is_some() {
            Err(Stop::Killed)
        } else {
            Ok(())
        }
    }

    fn finish(&self, me: usize, r: Result<Val, Stop>) {
        let mut g = self.st.lock().unwrap();
        if g.done.is_some() {
            return;
        }
        match r {
            Err(Stop::Fail(k)) => g.done = Some(Ok(End::Failed(k))),
            Err(Stop::StepLimit) => g.done = Some(Err("step-limit".into())),
            Err(Stop::Unspecified(m)) => g.done = Some(Err(m)),
            Err(Stop::Killed) => {}
            Ok(_) => {
                g.live.retain(|x| *x != me);
                if me == 0 {
                    g.done = Some(Ok(End::Normal));
                } else if !g.live.is_empty() {
                    let l = g.live.clone();
                    let t = g.pick(&l);
                    g.current = t;
                }
            }
        }
        self.cv.notify_all();
    }
}

impl<'a: 'scope, 'scope, 'env> Sched for &'scope Scheduler<'a, 'scope, 'env> {
    fn visible(&self, me: usize) -> Result<(), Stop> {
        let mut g = self.st.lock().unwrap();
        if g.done.is_some() {
            return Err(Stop::Killed);
        }
        let mut l = vec![me];
        l.extend(g.live.iter().copied().filter(|x| *x != me));
        let t = g.pick(&l);
        if t != me {
            g.current = t;
            self.cv.notify_all();
            while g.current != me && g.done.is_none() {
                g = self.cv.wait(g).unwrap();
            }
            if g.done.is_some() {
                return Err(Stop::Killed);
            }
        }
        Ok(())
    }

    fn spawn(&self, _me: usize, f: Val) -> Result<(), Stop> {
        let id = {
            let mut g = self.st.lock().unwrap();
            let id = g.next_id;
            g.next_id += 1;
            g.live.push(id);
            g.live.sort();
            g.spawned += 1;
            if g.spawned > 64 {
                return Err(Stop::Unspecified("too many activations".into()));
            }
            id
        };
        let this: &'scope Scheduler<'a, 'scope, 'env> = self;
        let _ = std::thread::Builder::new().stack_size(4 << 20).spawn_scoped(this.scope, move || {
            if this.wait_turn(id).is_err() {
                return;
            }
            let mut it = Interp::new(this.p, this.max_steps);
            let handle: &'scope Scheduler<'a, 'scope, 'env> = this;
            // the trait is implemented for the reference type
            let sref: &dyn Sched = Box::leak(Box::new(handle));
            it.sched = Some((sref, id));
            let r = it.call_val_pub(f, vec![]);
            this.finish(id, r);
        });
        Ok(())
    }

    fn print(&self, bytes: &[u8]) {
        let mut g = self.st.lock().unwrap();
        g.out.extend_from_slice(bytes);
    }
}

/// Run `main` with activations scheduled by `sched` (see DESIGN.md: a choice
/// point before every ref_get / ref_set / print / go of the running
/// activation; L = [current, others ascending]; byte b picks L[b % len]).
pub fn run_sched(p: &GProg, sched: &[u8], max_steps: u64) -> SchedRun {
    let result: Mutex<Option<SchedRun>> = Mutex::new(None);
    std::thread::scope(|scope| {
        let s = Scheduler {
            st: Mutex::new(SState {
                current: 0,
                live: vec![0],
                next_id: 1,
                sched: sched.to_vec(),
                pos: 0,
                choice_points: vec![],
                out: vec![],
                done: None,
                spawned: 0,
            }),
            cv: std::sync::Condvar::new(),
            p,
            max_steps,
            scope,
        };
        // the scheduler must outlive every activation thread of this scope
        let s: &Scheduler = Box::leak(Box::new(s));
        let mut it = Interp::new(p, max_steps);
        let sref: &dyn Sched = Box::leak(Box::new(s));
        it.sched = Some((sref, 0));
        let r = it.call_fn(p.main, vec![]);
        s.finish(0, r);
        // wake everybody up so that paused activations end
        {
            let mut g = s.st.lock().unwrap();
            if g.done.is_none() {
                g.done = Some(Err("main ended abnormally".into()));
            }
            s.cv.notify_all();
        }
        let g = s.st.lock().unwrap();
        *result.lock().unwrap() = Some(SchedRun {
            stdout: g.out.clone(),
            end: g.done.clone().unwrap_or(Err("no result".into())),
            choice_points: g.choice_points.clone(),
            spawned: g.spawned,
        });
    });
    result.into_inner().unwrap().unwrap()
}
